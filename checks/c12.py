"""C12 - pitch, key, duration and time-unit conversions are mutually consistent.

Bounded-exhaustive enumeration of the *inputs* of the conversion functions in
`partitura/utils/music.py`, the constant tables in `partitura/utils/globals.py` and the small
arithmetic properties of `partitura/score.py` (Note.midi_pitch, Note.alter_sign, KeySignature.name,
Tempo.microseconds_per_quarter, Interval, Tuplet.duration_multiplier).  Every value returned by the
real implementation is compared with a reference computed here from first principles
(twelve-tone arithmetic, the line of fifths, exact `Fraction` durations and tick counts).

Sub-spaces (all enumerated completely):
  spelling   steps (upper and lower case) x alter {None,-3..3} x octave -1..9
  notename   every string of the grammar [A-G](#|b|x|##|bb)?[0-9]
  midi       MIDI pitch 0..127 x number form (int, numpy int, float) incl. frequency both ways
  midi-array the 128 pitches as numpy arrays (int64, int32, float64) x four tunings
  keys       fifths -12..12 x every accepted mode spelling + unknown modes x int form
  keynames   the 30 key names of the reference line of fifths
  modes      mode spellings and unknown modes through key_mode_to_int / key_int_to_mode
  clefs      clef signs and codes
  symdur     symbolic type x dots 0..3 x tuplet ratio x divisions
  tempo      tempo unit string (type x dots 0..3) x bpm, incl. Tempo.microseconds_per_quarter
  tuplets    actual type x normal type x (actual, normal) ratios
  intervals  number 1..14 x quality x direction
  ticks      seconds grid k/1000 x ppq x mpq, scalars (int, float, numpy scalar) and arrays
             (float64, int64, int32, 2-D, strided, empty), both directions
  ticks-large the same over a magnitude dimension: grid blocks shifted by 10 min .. 24 h, blocks around the times whose tick
             value is 2^15 .. 2^32, whole performances of 30 .. 2600 times (ppq up to 15360, tick values up to 2.2e9)
  tables     agreement between the independent constant tables
  key-pairs  call histories of length 2 of the key-name conversions, each pair in a fresh process
  key-chains any first query followed by all queries; every ordered pair of queries adjacent inside one history
  key-sweeps long call histories (valid keys then invalid queries, the reverse, ascending, ...) in a fresh process
  interval-edits  one Interval edited in place (change_quality, attribute assignment), size read before/after
  note-edits  one Note / GraceNote whose step, alter, octave are assigned in place, midi_pitch / alter_sign read before/after
              (directly, on copies and deep copies)
  tempo-edits one Tempo whose bpm / unit are assigned in place, microseconds_per_quarter read before/after
  part-edits  notes and tempos of a small part edited in place, read through Part.note_array and save_score_midi
  code-forms clef and mode codes in every number form (python/numpy ints and floats) incl. the codes the library
             itself hands out (Part.clef_map, clef_feature column, Part.key_signature_map, ks_mode field)

The history spaces need the library in the state it has right after import; `init_worker` (called by the
runner in each worker before the first case) keeps such a copy of the process (mc/c12_fresh.py) and every
history runs in a fork of it.
"""
import math
from fractions import Fraction

import numpy as np

from mc.core import CaseResult, Space, run_check, block_of, innermost_partitura_frame, exc_text, Hang

PID = "C12"
RULE = (
    "every input of each conversion is enumerated over the stated alphabet (one case = one input "
    "tuple, or one block of 250 consecutive grid times for the tick conversion); cases are distinct by "
    "construction; non-trivial = the implementation returned a value that was compared with the "
    "reference (a correct rejection of an invalid key/mode/interval also counts); history spaces: one case = one "
    "pair of queries, one all-pairs chain from one start query or one whole sweep (run in its own fresh process), or one edit "
    "sequence of an Interval x all patterns of reading its size in between; note-/tempo-/part-edits: one case = one start object x one "
    "sequence of attribute assignments, evaluated for every pattern of reading the derived values before each assignment (states = patterns)"
)
ASSUMPTIONS = [
    "trusted base: C4 = 60, base pitch classes C D E F G A B = 0 2 4 5 7 9 11, line of fifths F C G D A E B, "
    "note durations long..256th = 16..1/64 quarters, dot multiplier 2 - 2^-dots, A4 = MIDI 69",
    "alter None is read as 0; ensure_pitch_spelling_format may return None or 0 for alter None",
    "the double sharp may be written 'x' or '##' (both are in the grammar); any accidental string with the "
    "right semitone count is accepted in names produced by the implementation",
    "Note.alter_sign is only claimed for alter in {None,-2..2} (documented range); for +-3 an exception or a "
    "correct sign are both accepted",
    "note names with octave -1 have no inverse (the grammar has no minus sign): only the forward direction is checked",
    "a tick value exactly (within 1e-7) half-way between two ticks / microseconds may be rounded either way",
    "unknown modes used for the rejection clause are unambiguous non-modes (church mode names, '', 0, 2, -2, 3, 'foo')",
    "Interval: compound numbers 8..14 are accepted at construction like their simple class (code's reading); an "
    "undefined class (e.g. P3, M4) or direction must not yield a semitone value; semitones is unsigned (direction ignored)",
    "frequency_to_midi_pitch maps a frequency within 40 cents of an equal-tempered pitch to that pitch",
    "tick arrays of dtype int32 are inputs of midi_ticks_to_seconds (performance note arrays store ticks as i4)",
    "the tick conversion is claimed for any time a performance can have (here up to 24 h at up to 15360 ppq, tick values up to 2^32): "
    "the result is the integer of the formula as int / int64 whatever its size; int32 forms of a tick value are only used where it fits "
    "int32; float tolerances scale with the magnitude (half-way window max(1e-7, 1e-15*ticks), seconds within 1e-12 relative)",
    "results of the key conversions are functions of their arguments: what was asked earlier in the same process must not "
    "change a name or turn a rejection into a name (histories start from the state of the library right after import, "
    "reproduced by forking a process that has imported partitura and called nothing)",
    "an Interval is a mutable object with public number/quality/direction: after change_quality(n) (n steps along dd,d,m|M or P,"
    "A,AA as documented) or after assigning .quality/.number to another defined class, .semitones and transpose_note use the "
    "class the object has now; a change beyond dd/AA may be rejected (behaviour left open, history ends there); transpose_note "
    "is only claimed for direction up, number 1..7 and results with alteration in -2..2 (otherwise rejection or the right answer)",
    "Note and Tempo are mutable objects with public attributes (step, alter, octave; bpm, unit): midi_pitch, alter_sign and "
    "microseconds_per_quarter are the conversions of the attribute values the object has when they are read, whatever was read or assigned "
    "before; copy.copy / copy.deepcopy of the object convert alike; Part.note_array (pitch and spelling columns) and save_score_midi (note_on "
    "pitches, set_tempo values; a repeated equal tempo may be written once) report the objects as they are when called",
    "clef and mode codes are numbers: a code equal to an encoded one decodes alike as Python int, numpy integer, Python float "
    "or numpy float (the library itself hands codes out as int, int64, int32, float64 and float32); a number that is no "
    "clef code is rejected or - read as an inverse - decodes to a sign whose code is that number (never to another clef); "
    "bool is not used as a code",
]
CHUNK = 40

# ---------------------------------------------------------------------------------------------
# reference model (first principles; nothing here is read from partitura)

REF_STEPS = "CDEFGAB"
_MAJOR_SCALE = (2, 2, 1, 2, 2, 2)  # whole/half steps C..B
REF_PC = {}
_acc = 0
for _i, _s in enumerate(REF_STEPS):
    REF_PC[_s] = _acc
    if _i < 6:
        _acc += _MAJOR_SCALE[_i]
del _acc, _i, _s

LINE_OF_FIFTHS = "FCGDAEB"

REF_LABEL = {
    "long": Fraction(16), "breve": Fraction(8), "whole": Fraction(4), "half": Fraction(2), "h": Fraction(2),
    "quarter": Fraction(1), "q": Fraction(1), "eighth": Fraction(1, 2), "e": Fraction(1, 2),
    "16th": Fraction(1, 4), "32nd": Fraction(1, 8), "64th": Fraction(1, 16), "128th": Fraction(1, 32),
    "256th": Fraction(1, 64),
}
TYPES = ["long", "breve", "whole", "half", "h", "quarter", "q", "eighth", "e", "16th", "32nd", "64th",
         "128th", "256th"]
CLEF_SIGNS = ["G", "F", "C", "percussion", "TAB", "jianpu", "none"]

PERFECT = {"dd": -2, "d": -1, "P": 0, "A": 1, "AA": 2}
IMPERFECT = {"dd": -3, "d": -2, "m": -1, "M": 0, "A": 1, "AA": 2}


def ref_dot(dots):
    return 2 - Fraction(1, 2 ** dots)


def ref_midi(step, alter, octave):
    return 12 * (octave + 1) + REF_PC[step.upper()] + (alter or 0)


def acc_value(s):
    """semitones of an accidental string; None if it is not one"""
    if s is None:
        return None
    if any(ch not in "#xbsfn" for ch in s):
        return None
    up = s.count("#") + s.count("s") + 2 * s.count("x")
    down = s.count("b") + s.count("f")
    if up and down and "n" not in s:
        return None
    return up - down


def parse_name(name):
    """independent parser of '<STEP><accidentals><octave>' -> (step, alter, octave) or None"""
    if not isinstance(name, str) or len(name) < 2 or name[0] not in REF_STEPS:
        return None
    i = 1
    while i < len(name) and name[i] in "#xb":
        i += 1
    acc, octs = name[1:i], name[i:]
    try:
        octave = int(octs)
    except ValueError:
        return None
    v = acc_value(acc)
    if v is None:
        return None
    return name[0], v, octave


def ref_key_name(fifths, minor):
    p = fifths + (4 if minor else 1)
    letter = LINE_OF_FIFTHS[p % 7]
    acc = p // 7
    return letter + ("#" * acc if acc > 0 else "b" * (-acc)) + ("m" if minor else "")


def ref_tonic_pc(fifths, minor):
    return (7 * fifths + (9 if minor else 0)) % 12


def ref_interval_semitones(number, quality):
    """simple intervals 1..7; None if the class does not exist"""
    g = (number - 1) % 7 + 1
    base = REF_PC[REF_STEPS[g - 1]]
    tab = PERFECT if g in (1, 4, 5) else IMPERFECT
    if quality not in tab:
        return None
    return base + tab[quality] + 12 * ((number - 1) // 7)


def round_readings(x, window=Fraction(1, 10 ** 7)):
    """accepted integer readings of round(x) for an exact Fraction x"""
    lo = math.floor(x)
    fr = x - lo
    if abs(fr - Fraction(1, 2)) <= window:
        return (lo, lo + 1)
    return (lo,) if fr < Fraction(1, 2) else (lo + 1,)


def close(a, ref, rel=1e-9):
    try:
        a = float(a)
    except Exception:
        return False
    r = float(ref)
    return a == a and abs(a - r) <= rel * max(1.0, abs(r))


# self-check of the reference (a failure here is a harness error, not a finding)
assert REF_PC == {"C": 0, "D": 2, "E": 4, "F": 5, "G": 7, "A": 9, "B": 11}
for _f in range(-7, 8):
    for _m in (False, True):
        _n = ref_key_name(_f, _m).rstrip("m") if _m else ref_key_name(_f, _m)
        assert (REF_PC[_n[0]] + acc_value(_n[1:])) % 12 == ref_tonic_pc(_f, _m), (_f, _m, _n)
assert ref_key_name(0, False) == "C" and ref_key_name(0, True) == "Am" and ref_key_name(-7, False) == "Cb"
assert ref_interval_semitones(5, "P") == 7 and ref_interval_semitones(3, "m") == 3 and ref_interval_semitones(7, "M") == 11
assert ref_midi("C", 0, 4) == 60 and ref_midi("a", None, 4) == 69


# ---------------------------------------------------------------------------------------------
# helpers for running the implementation


class Ctx(object):
    def __init__(self, res):
        self.res = res
        self.n = 0
        self.notes = []

    def call(self, clause, fn, *a, **kw):
        """run fn; exception -> violation. returns (ok, value)"""
        self.n += 1
        try:
            return True, fn(*a, **kw)
        except Hang:
            raise
        except Exception as e:  # noqa
            self.res.fail(clause, kind="exception", where=innermost_partitura_frame(e) or getattr(fn, "__name__", ""),
                          observed=exc_text(e), detail="args=%r %r" % (a, kw) if kw else "args=%r" % (a,))
            return False, None

    def rejects(self, clause, fn, *a, **kw):
        """run fn expecting a rejection (any exception). returns (rejected, value)"""
        self.n += 1
        try:
            v = fn(*a, **kw)
        except Hang:
            raise
        except Exception:  # noqa
            return True, None
        return False, v

    def eq(self, clause, observed, expected, where, detail=""):
        ok = False
        try:
            ok = bool(observed == expected)
        except Exception:
            ok = False
        if not ok:
            self.res.fail(clause, expected=expected, observed=observed, where=where, detail=detail)
        return ok

    def among(self, clause, observed, readings, where, detail=""):
        ok = False
        try:
            ok = any(bool(observed == r) for r in readings)
        except Exception:
            ok = False
        if not ok:
            self.res.fail(clause, expected=list(readings), observed=observed, where=where, detail=detail)
        return ok


def is_intlike(v):
    return isinstance(v, (int, np.integer)) and not isinstance(v, bool)


def spelling_eq(got, step, alter, octave, alter_none_ok=False):
    try:
        g_step, g_alter, g_oct = got
    except Exception:
        return False
    if g_step != step:
        return False
    if g_alter is None:
        if not (alter_none_ok and (alter is None or alter == 0)):
            return False
    elif isinstance(g_alter, (str, bool)) or g_alter != (alter or 0):
        return False
    if isinstance(g_oct, (str, bool)) or g_oct is None or g_oct != octave:
        return False
    return True


def num(x, form):
    if form == "int":
        return int(x)
    if form == "float":
        return float(x)
    if form == "npint":
        return np.int64(x)
    if form == "npint32":
        return np.int32(x)
    if form == "npfloat":
        return np.float64(x)
    raise ValueError(form)


# ---------------------------------------------------------------------------------------------
# evaluators


def ev_spelling(case, res, cx):
    import partitura.utils.music as M
    import partitura.score as S

    step, alter, octave = case["step"], case["alter"], case["octave"]
    STEP = step.upper()
    a0 = alter or 0
    midi = ref_midi(step, alter, octave)
    d = "step=%r alter=%r octave=%r" % (step, alter, octave)

    ok, v = cx.call("spelling-to-midi", M.pitch_spelling_to_midi_pitch, step, alter, octave)
    if ok:
        cx.eq("spelling-to-midi", v, midi, "pitch_spelling_to_midi_pitch", d)
    if alter is not None:
        ok, v = cx.call("spelling-to-midi", M.pitch_spelling_to_midi_pitch, step, np.int64(alter), np.int64(octave))
        if ok:
            cx.eq("spelling-to-midi", v, midi, "pitch_spelling_to_midi_pitch(numpy ints)", d)

    # Note.midi_pitch / step normalisation / alter_sign
    ok, note = cx.call("note-midi-pitch", S.Note, step, octave, alter)
    if ok:
        cx.eq("note-step-uppercase", note.step, STEP, "Note.step", d)
        ok, v = cx.call("note-midi-pitch", lambda: note.midi_pitch)
        if ok:
            cx.eq("note-midi-pitch", v, midi, "Note.midi_pitch", d)
        if abs(a0) <= 2:
            ok, v = cx.call("note-alter-sign", lambda: note.alter_sign)
            if ok and not (isinstance(v, str) and all(ch in "#xb" for ch in v) and acc_value(v) == a0):
                res.fail("note-alter-sign", expected="accidental sign worth %d semitone(s)" % a0, observed=v,
                         where="Note.alter_sign", detail=d)
        else:
            rej, v = cx.rejects("note-alter-sign", lambda: note.alter_sign)
            if not rej and not (isinstance(v, str) and all(ch in "#xb" for ch in v) and acc_value(v) == a0):
                res.fail("note-alter-sign", expected="exception or a sign worth %d semitones" % a0, observed=v,
                         where="Note.alter_sign", detail=d)

    # step2pc (documented for upper-case steps and integer alter)
    if step == STEP and alter is not None:
        ok, v = cx.call("step2pc", M.step2pc, step, alter)
        if ok:
            cx.eq("step2pc", v, (REF_PC[STEP] + alter) % 12, "step2pc", d)
            cx.eq("step2pc-agrees-with-midi", v, midi % 12, "step2pc vs pitch_spelling_to_midi_pitch", d)

    # ensure_pitch_spelling_format: numeric alter
    ok, v = cx.call("ensure-format", M.ensure_pitch_spelling_format, step, alter, octave)
    if ok and not spelling_eq(v, STEP, alter, octave, alter_none_ok=True):
        res.fail("ensure-format", expected=[STEP, alter, octave], observed=v, where="ensure_pitch_spelling_format", detail=d)

    # names
    if alter is not None:
        ok, name = cx.call("spelling-to-name", M.pitch_spelling_to_note_name, step, alter, octave)
        if ok:
            p = parse_name(name)
            if p != (STEP, alter, octave):
                res.fail("spelling-to-name", expected="%s with %d semitone accidental, octave %d" % (STEP, alter, octave),
                         observed=name, where="pitch_spelling_to_note_name", detail=d)
            elif octave >= 0:
                ok, v = cx.call("name-inverts-spelling", M.note_name_to_pitch_spelling, name)
                if ok and not spelling_eq(v, STEP, alter, octave):
                    res.fail("name-inverts-spelling", expected=[STEP, alter, octave], observed=v,
                             where="note_name_to_pitch_spelling(pitch_spelling_to_note_name(.))", detail="%s name=%r" % (d, name))
                ok, v = cx.call("name-to-midi", M.note_name_to_midi_pitch, name)
                if ok:
                    cx.eq("name-to-midi", v, midi, "note_name_to_midi_pitch", "%s name=%r" % (d, name))
    res.outcome = "spelling:pc=%d" % (midi % 12)
    res.nontrivial = True


ACC_SYMBOLS = ["", "#", "b", "x", "##", "bb"]


def ev_notename(case, res, cx):
    import partitura.utils.music as M

    name = case["name"]
    step, alter, octave = name[0], acc_value(name[1:-1]), int(name[-1])
    midi = ref_midi(step, alter, octave)
    d = "name=%r" % (name,)
    ok, v = cx.call("name-to-spelling", M.note_name_to_pitch_spelling, name)
    if ok:
        if not spelling_eq(v, step, alter, octave):
            res.fail("name-to-spelling", expected=[step, alter, octave], observed=v, where="note_name_to_pitch_spelling", detail=d)
        else:
            ok, back = cx.call("spelling-inverts-name", M.pitch_spelling_to_note_name, *v)
            if ok and parse_name(back) != (step, alter, octave):
                res.fail("spelling-inverts-name", expected=name, observed=back,
                         where="pitch_spelling_to_note_name(note_name_to_pitch_spelling(.))", detail=d)
            ok, m2 = cx.call("spelling-to-midi", M.pitch_spelling_to_midi_pitch, *v)
            if ok:
                cx.eq("spelling-to-midi", m2, midi, "pitch_spelling_to_midi_pitch(note_name_to_pitch_spelling(.))", d)
    ok, v = cx.call("name-to-midi", M.note_name_to_midi_pitch, name)
    if ok:
        cx.eq("name-to-midi", v, midi, "note_name_to_midi_pitch", d)
        if ok and not is_intlike(v):
            res.fail("name-to-midi", expected="an integer", observed=repr(v), where="note_name_to_midi_pitch", detail=d)
    # the accidental symbol alone, through ensure_pitch_spelling_format
    sym = name[1:-1] or "n"
    for st in (step, step.lower()):
        ok, v = cx.call("ensure-format", M.ensure_pitch_spelling_format, st, sym, octave)
        if ok and not spelling_eq(v, step, alter, octave):
            res.fail("ensure-format", expected=[step, alter, octave], observed=v, where="ensure_pitch_spelling_format",
                     detail="step=%r alter=%r octave=%r" % (st, sym, octave))
    res.outcome = "name:alter=%d" % alter
    res.nontrivial = True


A4S = [440, 415.0, 442.5, 432]


def ref_freq(m, a4):
    return float(a4) * 2.0 ** ((m - 69) / 12.0)


def ev_midi(case, res, cx):
    import partitura.utils.music as M

    m, form = case["m"], case["form"]
    mv = num(m, form)
    d = "midi=%r (%s)" % (m, form)
    if form != "float":
        ok, sp = cx.call("midi-to-spelling", M.midi_pitch_to_pitch_spelling, mv)
        if ok:
            wf = False
            try:
                st, al, oc = sp
                wf = (isinstance(st, str) and st in REF_STEPS and is_intlike(al) and -2 <= al <= 2 and is_intlike(oc))
            except Exception:
                wf = False
            if not wf:
                res.fail("midi-to-spelling", expected="(step in A-G, integer alter in -2..2, integer octave)", observed=sp,
                         where="midi_pitch_to_pitch_spelling", detail=d)
            else:
                if ref_midi(st, int(al), int(oc)) != m:
                    res.fail("midi-to-spelling", expected="a spelling of MIDI pitch %d" % m, observed=sp,
                             where="midi_pitch_to_pitch_spelling", detail=d)
                ok, back = cx.call("spelling-inverts-midi", M.pitch_spelling_to_midi_pitch, st, al, oc)
                if ok:
                    cx.eq("spelling-inverts-midi", back, m, "pitch_spelling_to_midi_pitch(midi_pitch_to_pitch_spelling(.))", d)
                ok, nm = cx.call("spelling-to-name", M.pitch_spelling_to_note_name, st, al, oc)
                if ok and oc >= 0:
                    ok, back = cx.call("name-to-midi", M.note_name_to_midi_pitch, nm)
                    if ok:
                        cx.eq("name-to-midi", back, m, "note_name_to_midi_pitch(name of midi)", "%s name=%r" % (d, nm))
    # frequency
    for a4 in A4S:
        fr = ref_freq(m, a4)
        kw = {} if a4 == 440 and case.get("default_a4") else {"a4": a4}
        ok, f = cx.call("midi-to-frequency", M.midi_pitch_to_frequency, mv, **kw)
        if ok:
            if not close(f, fr):
                res.fail("midi-to-frequency", expected=fr, observed=f, where="midi_pitch_to_frequency", detail="%s a4=%r" % (d, a4))
            else:
                ok, back = cx.call("frequency-inverts-midi", M.frequency_to_midi_pitch, f, **kw)
                if ok:
                    cx.eq("frequency-inverts-midi", back, m, "frequency_to_midi_pitch(midi_pitch_to_frequency(.))", "%s a4=%r" % (d, a4))
                    if not is_intlike(back):
                        res.fail("frequency-to-midi-type", expected="an integer", observed=repr(back),
                                 where="frequency_to_midi_pitch", detail=d)
        for cents in (-40, 0, 40):
            f2 = fr * 2.0 ** (cents / 1200.0)
            for ff in (f2, np.float64(f2)):
                ok, back = cx.call("frequency-to-midi", M.frequency_to_midi_pitch, ff, **kw)
                if ok:
                    cx.eq("frequency-to-midi", back, m, "frequency_to_midi_pitch", "%s a4=%r cents=%d" % (d, a4, cents))
        # integer frequencies (octaves of an integer a4)
        if (m - 69) % 12 == 0 and m >= 69 and float(a4).is_integer():
            fi = int(a4) * 2 ** ((m - 69) // 12)
            ok, back = cx.call("frequency-to-midi", M.frequency_to_midi_pitch, fi, **kw)
            if ok:
                cx.eq("frequency-to-midi", back, m, "frequency_to_midi_pitch(int)", "%s a4=%r freq=%d" % (d, a4, fi))
    res.outcome = "midi:pc=%d" % (m % 12)
    res.nontrivial = True


def ev_midi_array(case, res, cx):
    import partitura.utils.music as M

    dt, a4 = case["dtype"], case["a4"]
    ms = np.arange(128).astype(dt)
    if case.get("shape2d"):
        ms = ms.reshape(8, 16)
    ref = np.array([ref_freq(m, a4) for m in range(128)]).reshape(ms.shape)
    d = "dtype=%s a4=%r shape=%r" % (dt, a4, ms.shape)
    keep = ms.copy()
    ok, f = cx.call("midi-to-frequency-array", M.midi_pitch_to_frequency, ms, a4)
    if ok:
        if not (isinstance(f, np.ndarray) and f.shape == ms.shape and np.all(np.abs(f - ref) <= 1e-9 * np.maximum(1.0, ref))):
            res.fail("midi-to-frequency-array", expected="a4*2^((m-69)/12) elementwise", observed=f,
                     where="midi_pitch_to_frequency(array)", detail=d)
        else:
            for cents in (-40, 0, 40):
                ok, back = cx.call("frequency-to-midi-array", M.frequency_to_midi_pitch, f * 2.0 ** (cents / 1200.0), a4)
                if ok and not (isinstance(back, np.ndarray) and back.shape == ms.shape and back.dtype.kind == "i"
                               and np.array_equal(back, np.arange(128).reshape(ms.shape))):
                    res.fail("frequency-to-midi-array", expected="0..127 as an integer array", observed=back,
                             where="frequency_to_midi_pitch(array)", detail="%s cents=%d" % (d, cents))
    if not np.array_equal(keep, ms):
        res.fail("argument-unchanged", expected="input array untouched", observed=ms, where="midi_pitch_to_frequency", detail=d)
    res.outcome = "midi-array"
    res.nontrivial = True


MODES_MAJOR = ["major", None, "none", 1]
MODES_MINOR = ["minor", -1]
MODES_UNKNOWN = ["dorian", "phrygian", "lydian", "mixolydian", "locrian", "", "foo", 0, 2, -2, 3]


def mode_kind(mode):
    for x in MODES_MAJOR:
        if type(x) is type(mode) and x == mode:
            return "major"
    for x in MODES_MINOR:
        if type(x) is type(mode) and x == mode:
            return "minor"
    return None


def ev_keys(case, res, cx):
    import partitura.utils.music as M
    import partitura.score as S

    f, mode, form = case["fifths"], case["mode"], case["form"]
    fv = num(f, form)
    mv = mode
    if case.get("npmode") and isinstance(mode, int):
        mv = np.int64(mode)
    kind = mode_kind(mode)
    d = "fifths=%r (%s) mode=%r%s" % (f, form, mode, " (numpy)" if mv is not mode else "")
    valid = kind is not None and -7 <= f <= 7
    if valid:
        exp = ref_key_name(f, kind == "minor")
        for label, fn in (("fifths_mode_to_key_name", lambda: M.fifths_mode_to_key_name(fv, mv)),
                          ("KeySignature.name", lambda: S.KeySignature(fv, mv).name)):
            ok, v = cx.call("key-name", fn)
            if ok and cx.eq("key-name", v, exp, label, d):
                ok, back = cx.call("key-name-inverse", M.key_name_to_fifths_mode, v)
                if ok:
                    okk = False
                    try:
                        okk = (back[0] == f and back[1] == kind and len(back) == 2)
                    except Exception:
                        okk = False
                    if not okk:
                        res.fail("key-name-inverse", expected=[f, kind], observed=back,
                                 where="key_name_to_fifths_mode(fifths_mode_to_key_name(.))", detail=d)
        if mode is None and not case.get("npmode"):
            ok, v = cx.call("key-name", M.fifths_mode_to_key_name, fv)
            if ok:
                cx.eq("key-name", v, exp, "fifths_mode_to_key_name(default mode)", d)
        res.outcome = "key:%s" % kind
    else:
        why = "fifths outside -7..7" if kind is not None else "unknown mode"
        for label, fn in (("fifths_mode_to_key_name", lambda: M.fifths_mode_to_key_name(fv, mv)),
                          ("KeySignature.name", lambda: S.KeySignature(fv, mv).name)):
            rej, v = cx.rejects("key-rejected", fn)
            if not rej:
                res.fail("key-rejected", expected="an exception (%s)" % why, observed=v, where=label, detail=d)
        res.outcome = "key:rejected:%s" % why
    res.nontrivial = True


def ev_keyname(case, res, cx):
    import partitura.utils.music as M

    f, minor = case["fifths"], case["minor"]
    name = ref_key_name(f, minor)
    kind = "minor" if minor else "major"
    d = "name=%r" % (name,)
    ok, v = cx.call("key-name-to-fifths-mode", M.key_name_to_fifths_mode, name)
    if ok:
        okk = False
        try:
            okk = (len(v) == 2 and v[0] == f and v[1] == kind and is_intlike(v[0]))
        except Exception:
            okk = False
        if not okk:
            res.fail("key-name-to-fifths-mode", expected=[f, kind], observed=v, where="key_name_to_fifths_mode", detail=d)
        else:
            ok, back = cx.call("key-fifths-inverse", M.fifths_mode_to_key_name, v[0], v[1])
            if ok:
                cx.eq("key-fifths-inverse", back, name, "fifths_mode_to_key_name(key_name_to_fifths_mode(.))", d)
    res.outcome = "keyname:%s" % kind
    res.nontrivial = True


def ev_mode(case, res, cx):
    import partitura.utils.music as M

    mode = case["mode"]
    mv = np.int64(mode) if case.get("npmode") and isinstance(mode, int) else mode
    kind = mode_kind(mode)
    d = "mode=%r%s" % (mode, " (numpy)" if mv is not mode else "")
    if kind is None:
        for fn in (M.key_mode_to_int, M.key_int_to_mode):
            rej, v = cx.rejects("mode-rejected", fn, mv)
            if not rej:
                res.fail("mode-rejected", expected="an exception (unknown mode)", observed=v, where=fn.__name__, detail=d)
        res.outcome = "mode:rejected"
    else:
        code = 1 if kind == "major" else -1
        ok, v = cx.call("mode-to-int", M.key_mode_to_int, mv)
        if ok:
            if not (is_intlike(v) and v == code):
                res.fail("mode-to-int", expected=code, observed=v, where="key_mode_to_int", detail=d)
            else:
                ok, back = cx.call("mode-decodes", M.key_int_to_mode, v)
                if ok:
                    cx.eq("mode-decodes", back, kind, "key_int_to_mode(key_mode_to_int(.))", d)
        ok, v = cx.call("int-to-mode", M.key_int_to_mode, mv)
        if ok:
            if cx.eq("int-to-mode", v, kind, "key_int_to_mode", d):
                ok, back = cx.call("mode-encodes", M.key_mode_to_int, v)
                if ok:
                    cx.eq("mode-encodes", back, code, "key_mode_to_int(key_int_to_mode(.))", d)
        res.outcome = "mode:%s" % kind
    res.nontrivial = True


def ev_clef(case, res, cx):
    import partitura.utils.music as M

    if "sign" in case:
        sign = case["sign"]
        d = "sign=%r" % (sign,)
        ok, code = cx.call("clef-encode", M.clef_sign_to_int, sign)
        if ok:
            if not is_intlike(code):
                res.fail("clef-encode", expected="an integer code", observed=repr(code), where="clef_sign_to_int", detail=d)
            else:
                ok, back = cx.call("clef-decodes", M.clef_int_to_sign, code)
                if ok:
                    cx.eq("clef-decodes", back, sign, "clef_int_to_sign(clef_sign_to_int(.))", d)
                ok, back = cx.call("clef-decodes", M.clef_int_to_sign, np.int64(code))
                if ok:
                    cx.eq("clef-decodes", back, sign, "clef_int_to_sign(numpy int)", d)
                # codes are distinct
                others = []
                for s2 in CLEF_SIGNS:
                    if s2 != sign:
                        ok, c2 = cx.call("clef-encode", M.clef_sign_to_int, s2)
                        if ok:
                            others.append(c2)
                if code in others:
                    res.fail("clef-codes-distinct", expected="a code of its own", observed=code, where="clef_sign_to_int", detail=d)
        res.outcome = "clef:sign"
    else:
        code = case["code"]
        d = "code=%r" % (code,)
        ok, sign = cx.call("clef-decode", M.clef_int_to_sign, code)
        if ok:
            if sign not in CLEF_SIGNS:
                res.fail("clef-decode", expected="one of %r" % (CLEF_SIGNS,), observed=sign, where="clef_int_to_sign", detail=d)
            else:
                ok, back = cx.call("clef-encodes", M.clef_sign_to_int, sign)
                if ok:
                    cx.eq("clef-encodes", back, code, "clef_sign_to_int(clef_int_to_sign(.))", d)
        res.outcome = "clef:code"
    res.nontrivial = True


RATIOS_SYM = [None, [3, 2], [2, 3], [5, 4], [6, 4], [7, 4], [7, 8], [4, 3], [9, 8]]
DIVS = [1, 2, 4, 6, 12, 480]


def ev_symdur(case, res, cx):
    import partitura.utils.music as M

    typ, dots, ratio, divs, form = case["type"], case["dots"], case["ratio"], case["divs"], case["form"]
    sym = {"type": typ}
    if form == "full":
        sym["dots"] = dots
        sym["actual_notes"] = ratio[0] if ratio else None
        sym["normal_notes"] = ratio[1] if ratio else None
    else:  # minimal dictionary: keys only when needed
        if dots:
            sym["dots"] = dots
        if ratio:
            sym["actual_notes"], sym["normal_notes"] = ratio
    exp = divs * REF_LABEL[typ] * ref_dot(dots)
    if ratio:
        exp = exp * Fraction(ratio[1], ratio[0])
    keep = dict(sym)
    d = "sym=%r divs=%d" % (sym, divs)
    ok, v = cx.call("symbolic-duration", M.symbolic_to_numeric_duration, sym, divs)
    if ok and not close(v, exp):
        res.fail("symbolic-duration", expected=exp, observed=v, where="symbolic_to_numeric_duration", detail=d)
    if sym != keep:
        res.fail("argument-unchanged", expected=keep, observed=sym, where="symbolic_to_numeric_duration", detail=d)
    res.outcome = "symdur:dots=%d:%s" % (dots, "tuplet" if ratio else "plain")
    res.nontrivial = True


BPMS = [1, 30, 60, 72, 100, 120, 144, 208, 66.5, 92.25]


def ev_tempo(case, res, cx):
    import partitura.utils.music as M
    import partitura.score as S

    typ, dots, bpm = case["type"], case["dots"], case["bpm"]
    unit = None if typ is None else typ + "." * dots
    bq = Fraction(bpm) * (REF_LABEL[typ] * ref_dot(dots) if typ is not None else 1)
    d = "unit=%r bpm=%r" % (unit, bpm)
    if unit is not None:
        ok, v = cx.call("quarter-tempo", M.to_quarter_tempo, unit, bpm)
        if ok:
            if not close(v, bq):
                res.fail("quarter-tempo", expected=bq, observed=v, where="to_quarter_tempo", detail=d)
            elif not isinstance(v, float):
                res.fail("quarter-tempo", expected="a float", observed=repr(v), where="to_quarter_tempo", detail=d)
    readings = round_readings(Fraction(60 * 10 ** 6) / bq, window=Fraction(1, 10 ** 5))
    ctor = (lambda: S.Tempo(bpm, unit)) if not case.get("default_unit") else (lambda: S.Tempo(bpm))
    ok, t = cx.call("tempo-mpq", ctor)
    if ok:
        ok, v = cx.call("tempo-mpq", lambda: t.microseconds_per_quarter)
        if ok:
            if cx.among("tempo-mpq", v, readings, "Tempo.microseconds_per_quarter", d) and not is_intlike(v):
                res.fail("tempo-mpq", expected="an integer", observed=repr(v), where="Tempo.microseconds_per_quarter", detail=d)
    res.outcome = "tempo:dots=%d" % dots
    res.nontrivial = True


TUPLET_ACTUAL = list(range(2, 13))
TUPLET_NORMAL = list(range(1, 9))


def ev_tuplet(case, res, cx):
    import partitura.score as S

    at, nt, a = case["actual_type"], case["normal_type"], case["actual"]
    for n in TUPLET_NORMAL:
        d = "actual=%d %r normal=%d %r" % (a, at, n, nt)
        exp = Fraction(n, a)
        if at is not None:
            exp = exp * REF_LABEL[nt] / REF_LABEL[at]
        ok, tp = cx.call("tuplet-multiplier", S.Tuplet, None, None, a, n, at, nt)
        if not ok:
            continue
        ok, v = cx.call("tuplet-multiplier", lambda: tp.duration_multiplier)
        if ok:
            good = False
            try:
                good = (Fraction(v) == exp) if isinstance(v, (int, Fraction)) else False
            except Exception:
                good = False
            if not good:
                res.fail("tuplet-multiplier", expected=exp, observed=v, where="Tuplet.duration_multiplier", detail=d)
    res.states = len(TUPLET_NORMAL)
    res.traces = len(TUPLET_NORMAL)
    res.outcome = "tuplet:%s" % ("same-type" if at == nt else "mixed-type")
    res.nontrivial = True


QUALITIES = ["dd", "d", "m", "M", "P", "A", "AA", "X", ""]
DIRECTIONS = ["up", "down", "sideways"]


def ev_interval(case, res, cx):
    import partitura.score as S

    n, q, direction = case["number"], case["quality"], case["direction"]
    d = "number=%d quality=%r direction=%r" % (n, q, direction)
    ref = ref_interval_semitones(n, q)
    valid = ref is not None and direction in ("up", "down")
    mk = (lambda: S.Interval(n, q)) if case.get("default_direction") else (lambda: S.Interval(n, q, direction))
    if valid:
        ok, iv = cx.call("interval-accepted", mk)
        if ok:
            cx.eq("interval-fields", (iv.number, iv.quality, iv.direction), (n, q, direction), "Interval", d)
            ok2, _ = cx.call("interval-accepted", iv.validate)
            if n <= 7:
                ok, v = cx.call("interval-semitones", lambda: iv.semitones)
                if ok:
                    okv = False
                    try:
                        okv = is_intlike(v) and abs(int(v)) == abs(ref) and (direction == "down" or v == ref)
                    except Exception:
                        okv = False
                    if not okv:
                        res.fail("interval-semitones", expected=ref, observed=v, where="Interval.semitones", detail=d)
                res.outcome = "interval:semitones=%d" % ref
            else:
                res.outcome = "interval:compound-accepted"
    else:
        # an undefined class/direction must not produce a size
        def size():
            return S.Interval(n, q, direction).semitones

        rej, v = cx.rejects("interval-rejected", size)
        if not rej:
            res.fail("interval-rejected", expected="an exception (no such interval class or direction)", observed=v,
                     where="Interval", detail=d)
        res.outcome = "interval:rejected"
    res.nontrivial = True


BLOCK = 250


def ev_ticks(case, res, cx):
    import partitura.utils.music as M

    ppq, mpq, lo, hi, pform = case["ppq"], case["mpq"], case["lo"], case["hi"], case["pform"]
    # magnitude dimension: the grid times are (off + mul*i)/1000 s for i in lo..hi-1 (off=0, mul=1: the plain grid)
    off, mul = case.get("off", 0), case.get("mul", 1)
    P, Q = num(ppq, pform), num(mpq, pform)
    ks = [off + mul * i for i in range(lo, hi)]
    ctxd = "ppq=%r mpq=%r (%s)" % (ppq, mpq, pform)
    n_states = 0
    exp_ticks = []
    for k in ks:
        x = Fraction(10 ** 6 * ppq * k, 1000 * mpq)
        # half-way window: 1e-7 ticks, or the float64 error of the three operations on a time that is itself a rounded
        # float (< 5 * 2^-53 relative) where that is larger (tick values beyond 10^8)
        exp_ticks.append(round_readings(x, max(Fraction(1, 10 ** 7), abs(x) / 10 ** 15)))
    I32 = 2 ** 31

    def check_tick(v, readings, label, d, want_py=True):
        if isinstance(v, bool) or not is_intlike(v):
            res.fail("seconds-to-ticks-type", expected="an integer", observed=repr(v), where=label, detail=d)
            return None
        if not any(v == r for r in readings):
            res.fail("seconds-to-ticks", expected=list(readings), observed=v, where=label, detail=d)
            return None
        return int(v)

    # --- scalars
    scalar_ticks = {}  # k -> result for the Python float k/1000.0 ("for scalars and arrays alike", see the array section)
    for k, readings in zip(ks, exp_ticks):
        n_states += 1
        forms = [("float", k / 1000.0), ("npfloat", np.float64(k / 1000.0))]
        if k % 1000 == 0:
            forms += [("int", k // 1000), ("npint", np.int64(k // 1000))]
        j = None
        for fname, t in forms:
            d = "%s t=%r (%s)" % (ctxd, t, fname)
            ok, v = cx.call("seconds-to-ticks", M.seconds_to_midi_ticks, t, Q, P)
            if ok:
                r = check_tick(v, readings, "seconds_to_midi_ticks", d)
                if r is not None and fname == "float":
                    scalar_ticks[k] = r
                if r is not None and j is None:
                    j = r
            if len(res.violations) >= 8:
                break
        if k % 50 == 0:
            ok, v = cx.call("seconds-to-ticks", M.seconds_to_midi_ticks, k / 1000.0, mpq=Q, ppq=P)
            if ok:
                check_tick(v, readings, "seconds_to_midi_ticks(keywords)", "%s t=%r" % (ctxd, k / 1000.0))
            ok, v = cx.call("seconds-to-ticks", M.seconds_to_midi_ticks, t=k / 1000.0, mpq=Q, ppq=P)
            if ok:
                check_tick(v, readings, "seconds_to_midi_ticks(t=...)", "%s t=%r" % (ctxd, k / 1000.0))
            if (ppq, mpq) == (480, 500000):
                ok, v = cx.call("seconds-to-ticks", M.seconds_to_midi_ticks, k / 1000.0)
                if ok:
                    check_tick(v, readings, "seconds_to_midi_ticks(defaults)", "t=%r" % (k / 1000.0,))
        # and back
        if j is None:
            j = readings[0]
        sec_ref = Fraction(j * mpq, 10 ** 6 * ppq)
        half_tick = Fraction(mpq, 2 * 10 ** 6 * ppq)
        jforms = [("int", j), ("npint", np.int64(j)), ("float", float(j))]
        if -I32 <= j < I32:  # a tick beyond the int32 range has no int32 form
            jforms.insert(2, ("npint32", np.int32(j)))
        for fname, jv in jforms:
            d = "%s ticks=%r (%s)" % (ctxd, j, fname)
            ok, s = cx.call("ticks-to-seconds", M.midi_ticks_to_seconds, jv, Q, P)
            if not ok:
                continue
            if isinstance(s, (bool, str)) or not isinstance(s, (float, np.floating)):
                res.fail("ticks-to-seconds-type", expected="a float", observed=repr(s), where="midi_ticks_to_seconds", detail=d)
                continue
            if not close(s, sec_ref):
                res.fail("ticks-to-seconds", expected=sec_ref, observed=s, where="midi_ticks_to_seconds", detail=d)
                continue
            if abs(Fraction(float(s)) - Fraction(k, 1000)) > half_tick * (1 + Fraction(1, 10 ** 6)) + Fraction(max(1000, abs(k)), 10 ** 15):
                res.fail("ticks-and-back", expected="within half a tick of %r s" % (k / 1000.0,), observed=s,
                         where="midi_ticks_to_seconds(seconds_to_midi_ticks(.))", detail=d)
            ok, j2 = cx.call("seconds-inverts-ticks", M.seconds_to_midi_ticks, s, Q, P)
            if ok:
                cx.eq("seconds-inverts-ticks", j2, j, "seconds_to_midi_ticks(midi_ticks_to_seconds(.))", d)
        if (ppq, mpq) == (480, 500000) and k % 50 == 0:
            ok, s = cx.call("ticks-to-seconds", M.midi_ticks_to_seconds, j)
            if ok and not close(s, sec_ref):
                res.fail("ticks-to-seconds", expected=sec_ref, observed=s, where="midi_ticks_to_seconds(defaults)", detail="ticks=%r" % j)
        if len(res.violations) >= 8:
            break

    # --- arrays
    def check_tick_array(arr_in, out, readings_list, label, d):
        if not isinstance(out, np.ndarray) or out.dtype.kind != "i":
            res.fail("seconds-to-ticks-array-type", expected="integer numpy array", observed=repr(out)[:200], where=label, detail=d)
            return False
        if out.shape != arr_in.shape:
            res.fail("seconds-to-ticks-array", expected="shape %r" % (arr_in.shape,), observed="shape %r" % (out.shape,), where=label, detail=d)
            return False
        flat = out.ravel().tolist()
        bad = [(i, v) for i, (v, rd) in enumerate(zip(flat, readings_list)) if v not in rd]
        if bad:
            i, v = bad[0]
            res.fail("seconds-to-ticks-array", expected=list(readings_list[i]), observed=v, where=label,
                     detail="%s element %d of %d (%d wrong)" % (d, i, len(flat), len(bad)))
            return False
        return True

    tf = np.array([k / 1000.0 for k in ks], dtype=float)
    arrays = [("float64", tf, exp_ticks)]
    if len(ks) % 2 == 0 and len(ks) >= 4:
        arrays.append(("float64-2d", tf.reshape(2, -1), exp_ticks))
    arrays.append(("float64-strided", tf[::3], exp_ticks[::3]))
    arrays.append(("empty", np.array([], dtype=float), []))
    ki = [k for k in ks if k % 1000 == 0]
    if ki:
        ei = [rd for k, rd in zip(ks, exp_ticks) if k % 1000 == 0]
        arrays.append(("int64", np.array([k // 1000 for k in ki], dtype=np.int64), ei))
        arrays.append(("int32", np.array([k // 1000 for k in ki], dtype=np.int32), ei))
    for aname, arr, rd in arrays:
        keep = arr.copy()
        d = "%s array=%s[%d] seconds %r..%r" % (ctxd, aname, arr.size, ks[0] / 1000.0, ks[-1] / 1000.0)
        ok, out = cx.call("seconds-to-ticks-array", M.seconds_to_midi_ticks, arr, Q, P)
        if ok:
            good = check_tick_array(arr, out, rd, "seconds_to_midi_ticks(array)", d)
            if good and aname == "float64":
                # "for scalars and arrays alike": where both readings of an exact half-way value are accepted, the
                # array element and the scalar call on the same float must still take the same one
                for i, (k, v) in enumerate(zip(ks, out.tolist())):
                    if k in scalar_ticks and scalar_ticks[k] != v:
                        res.fail("seconds-to-ticks-scalar-array-alike", expected="scalar result %r" % scalar_ticks[k], observed=v,
                                 where="seconds_to_midi_ticks(array) vs seconds_to_midi_ticks(float)",
                                 detail="%s t=%r element %d" % (ctxd, k / 1000.0, i))
                        break
        if not np.array_equal(keep, arr):
            res.fail("argument-unchanged", expected="input array untouched", observed="changed", where="seconds_to_midi_ticks", detail=d)
    ok, out = cx.call("seconds-to-ticks-array", M.seconds_to_midi_ticks, t=tf, mpq=Q, ppq=P)
    if ok:
        check_tick_array(tf, out, exp_ticks, "seconds_to_midi_ticks(t=array)", ctxd)

    js = [rd[0] for rd in exp_ticks]
    sec_refs = [float(Fraction(j * mpq, 10 ** 6 * ppq)) for j in js]
    fits32 = all(-I32 <= j < I32 for j in js)  # tick values beyond the int32 range: the int32 forms do not exist
    tick_arrays = [("int64", np.array(js, dtype=np.int64))]
    if fits32:
        tick_arrays.append(("int32", np.array(js, dtype=np.int32)))
    tick_arrays += [("float64", np.array(js, dtype=float)), ("int64-strided", np.array(js, dtype=np.int64)[::3]),
                    ("empty", np.array([], dtype=np.int64))]
    if len(js) % 2 == 0 and len(js) >= 4:
        tick_arrays.append(("int32-2d" if fits32 else "int64-2d", np.array(js, dtype=np.int32 if fits32 else np.int64).reshape(2, -1)))
    for aname, arr in tick_arrays:
        keep = arr.copy()
        refs = np.array(sec_refs[::3] if aname.endswith("strided") else ([] if aname == "empty" else sec_refs), dtype=float).reshape(arr.shape)
        d = "%s array=%s[%d] ticks %r..%r" % (ctxd, aname, arr.size, js[0] if js else None, js[-1] if js else None)
        ok, out = cx.call("ticks-to-seconds-array", M.midi_ticks_to_seconds, arr, Q, P)
        if ok:
            if not isinstance(out, np.ndarray) or out.dtype.kind != "f" or out.shape != arr.shape:
                res.fail("ticks-to-seconds-array-type", expected="float array of shape %r" % (arr.shape,), observed=repr(out)[:200],
                         where="midi_ticks_to_seconds(array)", detail=d)
            else:
                err = np.abs(out.astype(float) - refs) > 1e-9 * np.maximum(1.0, np.abs(refs))
                if err.any():
                    i = int(np.flatnonzero(err.ravel())[0])
                    res.fail("ticks-to-seconds-array", expected=float(refs.ravel()[i]), observed=float(out.ravel()[i]),
                             where="midi_ticks_to_seconds(array)",
                             detail="%s element %d: ticks=%r (%d wrong)" % (d, i, arr.ravel()[i].item(), int(err.sum())))
                else:
                    ok, back = cx.call("seconds-inverts-ticks-array", M.seconds_to_midi_ticks, out, Q, P)
                    if ok and not (isinstance(back, np.ndarray) and back.shape == arr.shape and np.array_equal(back, arr.astype(np.int64))):
                        res.fail("seconds-inverts-ticks-array", expected=arr, observed=back,
                                 where="seconds_to_midi_ticks(midi_ticks_to_seconds(array))", detail=d)
        if not np.array_equal(keep, arr):
            res.fail("argument-unchanged", expected="input array untouched", observed="changed", where="midi_ticks_to_seconds", detail=d)

    res.states = max(1, n_states)
    res.traces = max(1, n_states)
    nt = sum(1 for rd in exp_ticks if len(rd) > 1)
    res.outcome = "ticks:%s:ties=%s" % (pform, "yes" if nt else "no")
    if "off" in case or "mul" in case:
        top = max(abs(rd[0]) for rd in exp_ticks)
        res.outcome += ":%s:max-tick<2^%d" % (case.get("fam", "large"), next(b for b in (16, 24, 31, 32, 64) if top < 2 ** b))
    res.nontrivial = True


# --------------------------------------------------------------------------------------------- tables

TABLE_CHECKS = [
    "base-pitch-classes", "step-order", "dummy-spelling", "alter-signs", "sign-to-alter", "alt-int", "key-lists",
    "keys-table", "interval-table", "label-durs", "dot-multipliers", "durs-sym-durs", "straight-durs",
    "symbolic-int-durs", "clef-tables",
]


def ev_table(case, res, cx):
    import partitura.utils.globals as G
    import partitura.utils.music as M

    name = case["table"]
    cx.n += 1

    def bad(exp, obs, where, detail=""):
        res.fail("tables-agree:" + name, expected=exp, observed=obs, where=where, detail=detail)

    if name == "base-pitch-classes":
        if dict(G.BASE_PC) != REF_PC:
            bad(REF_PC, dict(G.BASE_PC), "globals.BASE_PC")
        if dict(G.MIDI_BASE_CLASS) != {k.lower(): v for k, v in REF_PC.items()}:
            bad({k.lower(): v for k, v in REF_PC.items()}, dict(G.MIDI_BASE_CLASS), "globals.MIDI_BASE_CLASS")
        for s in REF_STEPS:
            if G.BASE_PC.get(s) != G.MIDI_BASE_CLASS.get(s.lower()):
                bad("BASE_PC[%s] == MIDI_BASE_CLASS[%s]" % (s, s.lower()), [G.BASE_PC.get(s), G.MIDI_BASE_CLASS.get(s.lower())],
                    "BASE_PC vs MIDI_BASE_CLASS")
    elif name == "step-order":
        exp = {}
        for i, s in enumerate(REF_STEPS):
            exp[s] = i
            exp[i] = s
        if dict(G.STEPS) != exp:
            bad(exp, dict(G.STEPS), "globals.STEPS")
        else:
            pcs = [G.BASE_PC[G.STEPS[i]] for i in range(7)]
            if pcs != sorted(pcs):
                bad("base pitch classes increase with the step index", pcs, "STEPS vs BASE_PC")
    elif name == "dummy-spelling":
        if sorted(G.DUMMY_PS_BASE_CLASS) != list(range(12)):
            bad(list(range(12)), sorted(G.DUMMY_PS_BASE_CLASS), "globals.DUMMY_PS_BASE_CLASS")
        for pc, (st, al) in sorted(G.DUMMY_PS_BASE_CLASS.items()):
            if st.upper() not in REF_PC or (REF_PC[st.upper()] + al) % 12 != pc or abs(al) > 2:
                bad("a spelling of pitch class %d" % pc, [st, al], "globals.DUMMY_PS_BASE_CLASS")
            elif G.MIDI_BASE_CLASS.get(st.lower(), -99) + al != pc:
                bad("MIDI_BASE_CLASS[step]+alter == %d" % pc, [st, al], "DUMMY_PS_BASE_CLASS vs MIDI_BASE_CLASS")
    elif name == "alter-signs":
        for al in (None, 0, 1, 2, -1, -2):
            sg = G.ALTER_SIGNS.get(al, "missing")
            if not (isinstance(sg, str) and all(ch in "#xb" for ch in sg) and acc_value(sg) == (al or 0)):
                bad("sign worth %r" % (al or 0), sg, "globals.ALTER_SIGNS[%r]" % (al,))
        for al, sg in G.ALTER_SIGNS.items():
            if acc_value(sg) != (al or 0):
                bad("sign worth %r" % (al or 0), sg, "globals.ALTER_SIGNS[%r]" % (al,))
    elif name == "sign-to-alter":
        for sg, al in sorted(M.SIGN_TO_ALTER.items()):
            exp = None if sg == "-" else acc_value(sg)
            if al != exp or (exp is None and sg != "-"):
                bad(exp, al, "music.SIGN_TO_ALTER[%r]" % sg)
        for sg in ("n", "#", "x", "##", "b", "bb", "###", "bbb"):
            if sg not in M.SIGN_TO_ALTER:
                bad("entry for %r" % sg, "missing", "music.SIGN_TO_ALTER")
        # agreement with ALTER_SIGNS (decode what the other table encodes)
        for al, sg in G.ALTER_SIGNS.items():
            if M.SIGN_TO_ALTER.get(sg or "n") != (al or 0):
                bad(al or 0, M.SIGN_TO_ALTER.get(sg or "n"), "SIGN_TO_ALTER[ALTER_SIGNS[%r]]" % (al,))
    elif name == "alt-int":
        for sg, al in sorted(G.ALT_TO_INT.items()):
            exp = sg.count("#") - sg.count("-") - sg.count("b")
            if al != exp:
                bad(exp, al, "globals.ALT_TO_INT[%r]" % sg)
        for al in range(-2, 3):
            sg = G.INT_TO_ALT.get(al)
            if sg is None or G.ALT_TO_INT.get(sg) != al:
                bad(al, [sg, G.ALT_TO_INT.get(sg)], "ALT_TO_INT[INT_TO_ALT[%d]]" % al)
    elif name == "key-lists":
        exp_maj = [ref_key_name(f, False) for f in range(-7, 8)]
        exp_min = [ref_key_name(f, True)[:-1] for f in range(-7, 8)]
        if list(G.MAJOR_KEYS) != exp_maj:
            bad(exp_maj, list(G.MAJOR_KEYS), "globals.MAJOR_KEYS")
        if list(G.MINOR_KEYS) != exp_min:
            bad(exp_min, list(G.MINOR_KEYS), "globals.MINOR_KEYS")
        for lst, minor, nm in ((G.MAJOR_KEYS, False, "MAJOR_KEYS"), (G.MINOR_KEYS, True, "MINOR_KEYS")):
            for i, k in enumerate(lst):
                try:
                    pc = (G.BASE_PC[k[0]] + acc_value(k[1:])) % 12
                except Exception:
                    pc = None
                if pc != ref_tonic_pc(i - 7, minor):
                    bad("tonic pitch class %d" % ref_tonic_pc(i - 7, minor), k, "globals.%s[%d] via BASE_PC" % (nm, i))
    elif name == "keys-table":
        seen = set()
        for root, mode, fifths in G.KEYS:
            seen.add((root, mode))
            if mode not in ("major", "minor") or not (-7 <= fifths <= 7) or ref_key_name(fifths, mode == "minor").rstrip("m") != root:
                bad("(root, mode, fifths) on the line of fifths", [root, mode, fifths], "globals.KEYS")
                continue
            ok, v = cx.call("tables-agree:keys-table", M.fifths_mode_to_key_name, fifths, mode)
            if ok and v != root + ("m" if mode == "minor" else ""):
                bad(root + ("m" if mode == "minor" else ""), v, "fifths_mode_to_key_name vs globals.KEYS")
        if len(seen) != len(G.KEYS) or len(G.KEYS) != 24:
            bad("24 distinct keys", len(seen), "globals.KEYS")
        pcs = sorted((ref_tonic_pc(f, m == "minor"), m) for _, m, f in G.KEYS)
        if pcs != sorted((pc, m) for pc in range(12) for m in ("major", "minor")):
            bad("every pitch class once per mode", pcs, "globals.KEYS")
    elif name == "interval-table":
        exp = {}
        for g in range(1, 8):
            tab = PERFECT if g in (1, 4, 5) else IMPERFECT
            for q in tab:
                exp["%s%d" % (q, g)] = ref_interval_semitones(g, q)
        if len(exp) != 39:
            raise AssertionError("reference interval table")
        if sorted(G.INTERVALCLASSES) != sorted(exp) or len(G.INTERVALCLASSES) != 39:
            bad(sorted(exp), sorted(G.INTERVALCLASSES), "globals.INTERVALCLASSES")
        if dict(G.INTERVAL_TO_SEMITONES) != exp:
            diff = {k: [exp.get(k), G.INTERVAL_TO_SEMITONES.get(k)] for k in sorted(set(exp) | set(G.INTERVAL_TO_SEMITONES))
                    if exp.get(k) != G.INTERVAL_TO_SEMITONES.get(k)}
            bad("expected/observed per class", diff, "globals.INTERVAL_TO_SEMITONES")
        # agreement with step order and base pitch classes: C up n-1 steps
        for k, v in G.INTERVAL_TO_SEMITONES.items():
            q, g = k[:-1], int(k[-1])
            tab = PERFECT if g in (1, 4, 5) else IMPERFECT
            try:
                viastep = G.BASE_PC[G.STEPS[g - 1]] + tab[q]
            except Exception:
                viastep = None
            if viastep != v:
                bad(viastep, v, "INTERVAL_TO_SEMITONES[%s] vs STEPS/BASE_PC" % k)
    elif name == "label-durs":
        if sorted(G.LABEL_DURS) != sorted(REF_LABEL):
            bad(sorted(REF_LABEL), sorted(G.LABEL_DURS), "globals.LABEL_DURS keys")
        for k, v in G.LABEL_DURS.items():
            if k in REF_LABEL and Fraction(v) != REF_LABEL[k]:
                bad(REF_LABEL[k], v, "globals.LABEL_DURS[%r]" % k)
    elif name == "dot-multipliers":
        if len(G.DOT_MULTIPLIERS) < 4:
            bad("at least 4 entries", len(G.DOT_MULTIPLIERS), "globals.DOT_MULTIPLIERS")
        for i, v in enumerate(G.DOT_MULTIPLIERS):
            if Fraction(v) != ref_dot(i):
                bad(ref_dot(i), v, "globals.DOT_MULTIPLIERS[%d]" % i)
    elif name == "durs-sym-durs":
        if len(G.DURS) != len(G.SYM_DURS):
            bad("equal lengths", [len(G.DURS), len(G.SYM_DURS)], "DURS vs SYM_DURS")
        seen = set()
        for i, (v, sd) in enumerate(zip(G.DURS.tolist(), G.SYM_DURS)):
            t, dts = sd.get("type"), sd.get("dots")
            seen.add((t, dts))
            if t not in REF_LABEL or dts not in (0, 1, 2, 3) or Fraction(v) != REF_LABEL[t] * ref_dot(dts):
                bad("DURS[%d] = value of %r" % (i, sd), v, "DURS vs SYM_DURS")
        if list(G.DURS) != sorted(G.DURS):
            bad("non-decreasing", "unsorted", "globals.DURS")
        want = set((t, dd) for t in TYPES for dd in range(4))
        if seen != want:
            bad("every type x dots 0..3", sorted(want - seen) + sorted(seen - want), "globals.SYM_DURS")
    elif name == "straight-durs":
        if len(G.STRAIGHT_DURS) != len(G.SYM_STRAIGHT_DURS):
            bad("equal lengths", [len(G.STRAIGHT_DURS), len(G.SYM_STRAIGHT_DURS)], "STRAIGHT_DURS vs SYM_STRAIGHT_DURS")
        for i, (v, sd) in enumerate(zip(G.STRAIGHT_DURS.tolist(), G.SYM_STRAIGHT_DURS)):
            t = sd.get("type")
            if t not in REF_LABEL or sd.get("dots") != 0 or Fraction(v) != REF_LABEL[t]:
                bad("STRAIGHT_DURS[%d] = value of %r" % (i, sd), v, "STRAIGHT_DURS vs SYM_STRAIGHT_DURS")
        if list(G.STRAIGHT_DURS) != sorted(G.STRAIGHT_DURS):
            bad("increasing", "unsorted", "globals.STRAIGHT_DURS")
    elif name == "symbolic-int-durs":
        for k, v in G.SYMBOLIC_TO_INT_DURS.items():
            if k not in REF_LABEL or Fraction(v) * REF_LABEL[k] != 4:
                bad("4 / duration in quarters", v, "globals.SYMBOLIC_TO_INT_DURS[%r]" % k)
        for k, v in G.MEI_DURS_TO_SYMBOLIC.items():
            if v not in G.SYMBOLIC_TO_INT_DURS:
                bad("a symbolic type", v, "globals.MEI_DURS_TO_SYMBOLIC[%r]" % k)
            elif k.isdigit() and k != "0" and Fraction(G.SYMBOLIC_TO_INT_DURS[v]) != int(k):
                bad(int(k), G.SYMBOLIC_TO_INT_DURS[v], "MEI_DURS_TO_SYMBOLIC[%r] vs SYMBOLIC_TO_INT_DURS" % k)
    elif name == "clef-tables":
        if sorted(G.CLEF_TO_INT, key=repr) != sorted(CLEF_SIGNS, key=repr):
            bad(sorted(CLEF_SIGNS, key=repr), sorted(G.CLEF_TO_INT, key=repr), "globals.CLEF_TO_INT keys")
        if len(set(G.CLEF_TO_INT.values())) != len(G.CLEF_TO_INT):
            bad("distinct codes", sorted(G.CLEF_TO_INT.values(), key=repr), "globals.CLEF_TO_INT")
        for s, c in G.CLEF_TO_INT.items():
            if G.INT_TO_CLEF.get(c) != s:
                bad(s, G.INT_TO_CLEF.get(c), "INT_TO_CLEF[CLEF_TO_INT[%r]]" % s)
        if len(G.INT_TO_CLEF) != len(G.CLEF_TO_INT):
            bad(len(G.CLEF_TO_INT), len(G.INT_TO_CLEF), "globals.INT_TO_CLEF size")
    else:
        raise ValueError(name)
    res.outcome = "table:" + name
    res.nontrivial = True


# --------------------------------------------------------------------------------------------- call histories (keys)
#
# The result of a key conversion must not depend on what was asked before in the same process.  A query
# is [api, fifths, mode, form]:  api "fn" = fifths_mode_to_key_name(fifths, mode), "ks" =
# KeySignature(fifths, mode).name, "inv" = key_name_to_fifths_mode(<reference name of (fifths, mode)>);
# form = number type of fifths (and of an integer mode).  A history (list of queries) is executed in a fresh
# copy of the process as it is right after importing partitura (mc/c12_fresh.py), the observations come
# back as JSON and are compared here with the reference, query by query.


def run_key_ops(ops):
    """executed in the fresh process: run the queries, return one observation per query"""
    import partitura.utils.music as M
    import partitura.score as S
    from mc.core import jsonable

    out = []
    for api, f, mode, form in ops:
        fv = num(f, form)
        mv = np.int64(mode) if (form != "int" and isinstance(mode, int) and not isinstance(mode, bool)) else mode
        try:
            if api == "fn":
                v = M.fifths_mode_to_key_name(fv, mv)
            elif api == "ks":
                v = S.KeySignature(fv, mv).name
            elif api == "inv":
                v = M.key_name_to_fifths_mode(ref_key_name(f, mode_kind(mode) == "minor"))
                v = [v[0], v[1]] if isinstance(v, tuple) and len(v) == 2 else ["not a pair", repr(v)]
            else:
                raise ValueError(api)
            out.append(["val", jsonable(v)])
        except Hang:
            raise
        except Exception as e:  # noqa
            out.append(["exc", exc_text(e), innermost_partitura_frame(e) or ""])
    return out


def fresh_handler(req):
    """runs in the fresh process"""
    if req["what"] == "keyops":
        return run_key_ops(req["ops"])
    if req["what"] == "keychain":
        # the chain is rebuilt here from its description; only the observations that deviate from the reference
        # travel back (the comparison is repeated in the worker to word the violation)
        ops = chain_ops(req["scope"], req["start"], req["shape"])
        obs = run_key_ops(ops)
        bad = [[i, obs[i]] for i in range(len(ops)) if not key_obs_ok(ops[i], obs[i])]
        return {"n": len(ops), "bad": bad[:16], "nbad": len(bad)}
    raise ValueError(req["what"])


def init_worker():
    # called by the runner in every worker process before the first case is evaluated: library state is
    # still the state after import
    from mc import c12_fresh

    c12_fresh.start(fresh_handler)


def fresh_key_histories(histories):
    """run each history (list of queries) in its own fresh process -> list of (observations | None, reason)"""
    from mc import c12_fresh

    outs = c12_fresh.run_batch([{"what": "keyops", "ops": ops} for ops in histories], handler=fresh_handler)
    res = []
    for ops, out in zip(histories, outs):
        if isinstance(out, dict):  # the child was killed (hang or crash inside the library)
            res.append((None, out.get("died")))
        elif len(out) != len(ops):
            raise RuntimeError("fresh process returned %d observations for %d queries" % (len(out), len(ops)))
        else:
            res.append((out, None))
    return res


def fresh_key_ops(ops):
    return fresh_key_histories([ops])[0]


API_LABEL = {"fn": "fifths_mode_to_key_name", "ks": "KeySignature.name", "inv": "key_name_to_fifths_mode"}


def key_query_valid(q):
    return mode_kind(q[2]) is not None and -7 <= q[1] <= 7


def key_obs_expected(q):
    """reference of one query: ("val", value) or ("rejected", reason)"""
    api, f, mode, form = q
    kind = mode_kind(mode)
    if key_query_valid(q):
        return "val", ([f, kind] if api == "inv" else ref_key_name(f, kind == "minor"))
    return "rejected", ("fifths outside -7..7" if kind is not None else "unknown mode")


def key_obs_ok(q, obs):
    want, v = key_obs_expected(q)
    if want == "val":
        return obs[0] == "val" and obs[1] == v
    return obs[0] != "val"


def check_key_obs(res, ops, i, obs, what):
    """compare observation i of the history `ops` with the reference of query i alone"""
    if key_obs_ok(ops[i], obs):
        return
    api = ops[i][0]
    hist = ops[:i] if i <= 4 else ops[i - 3:i]
    d = "%s: query #%d %r after %s%r" % (what, i, ops[i], "" if len(hist) == i else "... ", hist)
    where = "%s (call history)" % API_LABEL[api]
    want, v = key_obs_expected(ops[i])
    if want == "val":
        if obs[0] != "val":
            res.fail("key-name-history", kind="exception", where=obs[2] or where, observed=obs[1], detail=d)
        else:
            res.fail("key-name-history", expected=v, observed=obs[1], where=where, detail=d)
    else:
        res.fail("key-rejected-history", expected="an exception (%s), whatever was asked before" % v, observed=obs[1],
                 where=where, detail=d)


PAIR_EDGE = dict(fifths=[-9, -8, -7, -6, 0, 6, 7, 8, 9], modes=["major", "minor"], apis=["fn"])
PAIR_CORE = dict(fifths=list(range(-9, 10)), modes=["major", "minor"], apis=["fn", "ks"])
PAIR_WIDE = dict(fifths=list(range(-12, 13)), modes=["major", None, 1, "minor", -1], apis=["fn", "ks"])
PAIR_SCOPES = {"edge": PAIR_EDGE, "core": PAIR_CORE, "wide": PAIR_WIDE}
CHAIN_BLOCKS = 10


def pair_alphabet(scope):
    return [[api, f, mode, "int"] for api in scope["apis"] for mode in scope["modes"] for f in scope["fifths"]]


def all_pairs_cycle(n):
    """cyclic sequence over range(n), length n*n, in which every ordered pair (a, b), a == b included, occurs exactly
    once as two consecutive elements (concatenation of the Lyndon words of length 1 and 2 in lexicographic order)"""
    seq = []
    for a in range(n):
        seq.append(a)
        for b in range(a + 1, n):
            seq.append(a)
            seq.append(b)
    return seq


for _n in (1, 2, 5, 9):
    _c = all_pairs_cycle(_n)
    assert len(_c) == _n * _n
    assert sorted(zip(_c, _c[1:] + _c[:1])) == [(a, b) for a in range(_n) for b in range(_n)]
del _n, _c


def chain_ops(scope, start, shape):
    """history over the alphabet of `scope` that starts with its query number `start`:
    shape "allpairs": contains every ordered pair of queries as consecutive calls (the all-pairs cycle rotated to its
                      first occurrence of `start`, and closed);
    shape "first":    the start query, then every query of the alphabet once in alphabet order"""
    alpha = pair_alphabet(PAIR_SCOPES[scope])
    if shape == "first":
        return [alpha[start]] + alpha
    cyc = all_pairs_cycle(len(alpha))
    k = cyc.index(start)
    order = cyc[k:] + cyc[:k] + [start]
    return [alpha[i] for i in order]


def ev_keychain(case, res, cx):
    from mc import c12_fresh

    scope, start, shape = case["scope"], case["start"], case["shape"]
    ops = chain_ops(scope, start, shape)
    out = c12_fresh.run({"what": "keychain", "scope": scope, "start": start, "shape": shape}, handler=fresh_handler)
    what = "%s chain %s from %r" % (shape, scope, ops[0])
    cx.n += len(ops)
    if "died" in out:
        res.fail("terminates", kind="hang", where="key conversions (call history)", observed=out["died"], detail=what)
    else:
        if out["n"] != len(ops):
            raise RuntimeError("chain length differs between worker and fresh process")
        for i, obs in out["bad"]:
            check_key_obs(res, ops, i, obs, what)
        if out["nbad"] and not res.violations:
            raise RuntimeError("fresh process and worker disagree about the reference")
    res.states = len(ops)
    res.outcome = "keychain:%s:%s:first-%s" % (shape, scope, "valid" if key_query_valid(ops[0]) else "rejected")
    res.nontrivial = True


def ev_keypairs(case, res, cx):
    """one history of two queries in its own fresh process"""
    ops = case["ops"]
    obs, died = fresh_key_ops(ops)
    cx.n += 2
    if obs is None:
        res.fail("terminates", kind="hang", where="key conversions (call history)", observed=died, detail="history=%r" % (ops,))
    else:
        for i in range(2):
            check_key_obs(res, ops, i, obs[i], "pair")
    res.outcome = "keypairs:%s-%s" % tuple("valid" if key_query_valid(q) else "rejected" for q in ops)
    res.nontrivial = True


SWEEP_ORDERS = ["valid-invalid", "invalid-valid", "valid-invalid-valid", "ascending", "descending", "inside-out", "outside-in"]
SWEEP_APIS = ["fn", "ks", "mix"]
SWEEP_FORMS = ["int", "npint", "alt"]
SWEEP_UNKNOWN = ["dorian", "", 0, 2]
SWEEP_RANGE = 22


def sweep_ops(order, api, form):
    accepted = MODES_MAJOR + MODES_MINOR
    allf = list(range(-SWEEP_RANGE, SWEEP_RANGE + 1))
    valid = [(f, m) for f in range(-7, 8) for m in accepted]
    invalid = [(f, m) for f in allf if not -7 <= f <= 7 for m in accepted] + [(f, m) for f in range(-7, 8) for m in SWEEP_UNKNOWN]
    everything = lambda fs: [(f, m) for f in fs for m in accepted + SWEEP_UNKNOWN]  # noqa
    if order == "valid-invalid":
        seq = valid + invalid
    elif order == "invalid-valid":
        seq = invalid + valid
    elif order == "valid-invalid-valid":
        seq = valid + invalid + valid
    elif order == "ascending":
        seq = everything(allf)
    elif order == "descending":
        seq = everything(allf[::-1])
    elif order == "inside-out":
        seq = everything(sorted(allf, key=lambda f: (abs(f), f)))
    elif order == "outside-in":
        seq = everything(sorted(allf, key=lambda f: (-abs(f), f)))
    else:
        raise ValueError(order)
    ops = []
    for i, (f, m) in enumerate(seq):
        fm = form if form != "alt" else ("int", "npint", "npint32")[i % 3]
        ok = mode_kind(m) is not None and -7 <= f <= 7
        if api == "mix":
            a = ("fn", "ks", "inv")[i % 3] if ok else ("fn", "ks")[i % 2]
        else:
            a = api
        ops.append([a, f, m, fm])
    return ops


def ev_keysweep(case, res, cx):
    ops = sweep_ops(case["order"], case["api"], case["form"])
    obs, died = fresh_key_ops(ops)
    cx.n += len(ops)
    what = "sweep %s/%s/%s" % (case["order"], case["api"], case["form"])
    if obs is None:
        res.fail("terminates", kind="hang", where="key conversions (call history)", observed=died, detail=what)
    else:
        for i in range(len(ops)):
            check_key_obs(res, ops, i, obs[i], what)
            if len(res.violations) >= 8:
                break
    res.states = len(ops)
    res.outcome = "keysweep:%s" % case["order"]
    res.nontrivial = True


# --------------------------------------------------------------------------------------------- interval edits
#
# One Interval object is changed in place (change_quality, or assignment of .quality / .number, optionally
# followed by validate()) and its size is read before and/or after each change: every reading must be the
# defined size of the class the interval has at that moment.

Q_PERFECT = ["dd", "d", "P", "A", "AA"]
Q_IMPERFECT = ["dd", "d", "m", "M", "A", "AA"]


def ref_quality_list(number):
    return Q_PERFECT if (number - 1) % 7 + 1 in (1, 4, 5) else Q_IMPERFECT


def ref_change_quality(number, quality, n):
    """quality reached from `quality` by n semitones (docstring of change_quality); None if there is none"""
    lst = ref_quality_list(number)
    i = lst.index(quality) + n
    return lst[i] if 0 <= i < len(lst) else None


for _g in range(1, 8):
    for _q in ref_quality_list(_g):
        for _n in range(-5, 6):
            _q2 = ref_change_quality(_g, _q, _n)
            if _q2 is not None:
                assert ref_interval_semitones(_g, _q2) == ref_interval_semitones(_g, _q) + _n, (_g, _q, _n)
del _g, _q, _n, _q2

TRANSPOSE_PROBES = [[s, 0] for s in REF_STEPS] + [["F", 1], ["B", -1]]
READ_MODES_UP = ["none", "prop", "transpose"]
READ_MODES_DOWN = ["none", "prop"]


def ref_transpose_note(step, alter, number, semitones):
    i = REF_STEPS.index(step)
    new = REF_STEPS[(i + number - 1) % 7]
    natural = (REF_PC[new] - REF_PC[step]) % 12
    return new, alter + semitones - natural


def _read_patterns(nops, direction):
    import itertools

    return list(itertools.product(READ_MODES_UP if direction == "up" else READ_MODES_DOWN, repeat=nops))


def ev_ivedit(case, res, cx):
    import partitura.score as S
    import partitura.utils.music as M

    number, quality, direction, ops = case["number"], case["quality"], case["direction"], case["ops"]
    patterns = _read_patterns(len(ops), direction)
    outcome = "ivedit:ok"

    def read(iv, how, n_now, q_now, trace):
        ref = ref_interval_semitones(n_now, q_now)
        d = "Interval(%d, %r, %r) then %s: now %s%d" % (number, quality, direction, trace, q_now, n_now)
        if how in ("prop", "both"):
            ok, v = cx.call("interval-semitones-after-edit", lambda: iv.semitones)
            if ok:
                okv = False
                try:
                    okv = is_intlike(v) and abs(int(v)) == abs(ref) and (direction == "down" or v == ref)
                except Exception:
                    okv = False
                if not okv:
                    res.fail("interval-semitones-after-edit", expected=ref, observed=v, where="Interval.semitones", detail=d)
        if how in ("transpose", "both") and direction == "up":
            for step, alter in TRANSPOSE_PROBES:
                es, ea = ref_transpose_note(step, alter, n_now, ref)
                dd = "%s; transpose_note(%r, %d, .)" % (d, step, alter)
                if -2 <= ea <= 2:
                    ok, v = cx.call("interval-transpose-after-edit", M.transpose_note, step, alter, iv)
                    if ok:
                        good = False
                        try:
                            good = (len(v) == 2 and v[0] == es and v[1] == ea)
                        except Exception:
                            good = False
                        if not good:
                            res.fail("interval-transpose-after-edit", expected=[es, ea], observed=v, where="transpose_note", detail=dd)
                else:  # outside the supported alterations: rejected, or the right answer
                    rej, v = cx.rejects("interval-transpose-after-edit", M.transpose_note, step, alter, iv)
                    if not rej:
                        good = False
                        try:
                            good = (len(v) == 2 and v[0] == es and v[1] == ea)
                        except Exception:
                            good = False
                        if not good:
                            res.fail("interval-transpose-after-edit", expected="an exception or %r" % ([es, ea],), observed=v,
                                     where="transpose_note", detail=dd)

    for pat in patterns:
        ok, iv = cx.call("interval-accepted", S.Interval, number, quality, direction)
        if not ok:
            break
        n_now, q_now = number, quality
        trace = []
        alive = True
        for op, rd in zip(ops, pat):
            if rd != "none":
                trace.append("read(%s)" % rd)
                read(iv, rd, n_now, q_now, " ".join(trace))
            if op[0] == "cq":
                trace.append("change_quality(%d)" % op[1])
                q_new = ref_change_quality(n_now, q_now, op[1])
                if q_new is None:
                    # no such quality: the statement leaves the behaviour open (the code raises ValueError);
                    # the history ends here
                    rej, v = cx.rejects("interval-change-quality", iv.change_quality, op[1])
                    outcome = "ivedit:change-out-of-range:%s" % ("rejected" if rej else "accepted")
                    alive = False
                    break
                ok, v = cx.call("interval-change-quality", iv.change_quality, op[1])
                if not ok:
                    alive = False
                    break
                q_now = q_new
                if iv.quality != q_now or iv.number != n_now:
                    res.fail("interval-change-quality", expected="%s%d" % (q_now, n_now), observed="%s%s" % (iv.quality, iv.number),
                             where="Interval.change_quality", detail="Interval(%d, %r, %r) then %s" % (number, quality, direction, " ".join(trace)))
                    alive = False
                    break
            elif op[0] == "setq":
                trace.append(".quality=%r" % op[1])
                iv.quality = op[1]
                q_now = op[1]
            elif op[0] == "setn":
                trace.append(".number=%d" % op[1])
                iv.number = op[1]
                n_now = op[1]
            else:
                raise ValueError(op)
            if len(op) > 2 and op[2]:
                trace.append("validate()")
                ok, _ = cx.call("interval-accepted", iv.validate)
                if not ok:
                    alive = False
                    break
        if alive:
            trace.append("read")
            read(iv, "both", n_now, q_now, " ".join(trace))
        if len(res.violations) >= 8:
            break
    res.states = len(patterns)
    res.traces = len(patterns)
    res.outcome = outcome if outcome != "ivedit:ok" else "ivedit:%s" % ops[0][0]
    res.nontrivial = True


# --------------------------------------------------------------------------------------------- numeric forms of codes
#
# Clef and mode codes are numbers; the library hands them out as Python ints (clef_sign_to_int,
# key_mode_to_int), numpy integers (Part.clef_map: int64, note array field ks_mode: int32), float64
# (Part.key_signature_map, interpolated) and float32 (note feature clef_feature.clef_sign).  A code must decode
# to what was encoded in every one of these forms.

CODE_FORMS = {
    "int": int, "npint8": np.int8, "npint16": np.int16, "npint32": np.int32, "npint64": np.int64, "npuint8": np.uint8,
    "float": float, "npfloat16": np.float16, "npfloat32": np.float32, "npfloat64": np.float64,
}
CODE_FORM_NAMES = ["int", "npint8", "npint16", "npint32", "npint64", "npuint8", "float", "npfloat16", "npfloat32", "npfloat64"]
CLEF_NONCODES = list(range(-7, 0)) + list(range(7, 14))
CLEF_NONCODES_FRACTIONAL = [-0.5, 0.5, 2.5, 5.5, 6.5]
MODE_NONCODES = [0, 2, -2, 3]
MODE_NONCODES_FRACTIONAL = [0.5, -0.5, 1.5, -1.5]


def cast(x, form):
    return CODE_FORMS[form](x)


def ev_codeform(case, res, cx):
    import partitura.utils.music as M
    import partitura.score as S

    what, form = case["what"], case.get("form")
    if what == "clef-sign":
        sign = case["sign"]
        d = "sign=%r code as %s" % (sign, form)
        ok, code = cx.call("clef-encode", M.clef_sign_to_int, sign)
        if ok:
            if not is_intlike(code):
                res.fail("clef-encode", expected="an integer code", observed=repr(code), where="clef_sign_to_int", detail=d)
            else:
                ok, back = cx.call("clef-decodes", M.clef_int_to_sign, cast(code, form))
                if ok:
                    cx.eq("clef-decodes", back, sign, "clef_int_to_sign", d)
    elif what == "clef-code":
        code = case["code"]
        d = "code=%r as %s" % (code, form)
        ok, sign = cx.call("clef-decode", M.clef_int_to_sign, cast(code, form))
        if ok:
            if sign not in CLEF_SIGNS:
                res.fail("clef-decode", expected="one of %r" % (CLEF_SIGNS,), observed=sign, where="clef_int_to_sign", detail=d)
            else:
                ok, back = cx.call("clef-encodes", M.clef_sign_to_int, sign)
                if ok:
                    cx.eq("clef-encodes", back, code, "clef_sign_to_int(clef_int_to_sign(.))", d)
    elif what == "clef-noncode":
        value = case["value"]
        d = "value=%r as %s (not the code of any clef)" % (value, form)
        rej, sign = cx.rejects("clef-decode-inverse", M.clef_int_to_sign, cast(value, form))
        if not rej:
            # whatever is decoded must have been encoded as this number
            good = False
            try:
                good = sign in CLEF_SIGNS and M.clef_sign_to_int(sign) == value
            except Exception:
                good = False
            if not good:
                res.fail("clef-decode-inverse", expected="an exception, or a sign whose code is %r" % (value,), observed=sign,
                         where="clef_int_to_sign", detail=d)
    elif what == "mode-code":
        mode = case["mode"]
        kind = mode_kind(mode)
        code = 1 if kind == "major" else -1
        d = "mode=%r code as %s" % (mode, form)
        ok, c = cx.call("mode-to-int", M.key_mode_to_int, mode)
        if ok:
            if not (is_intlike(c) and c == code):
                res.fail("mode-to-int", expected=code, observed=c, where="key_mode_to_int", detail=d)
            else:
                cv = cast(c, form)
                ok, back = cx.call("mode-decodes", M.key_int_to_mode, cv)
                if ok:
                    cx.eq("mode-decodes", back, kind, "key_int_to_mode", d)
                ok, again = cx.call("mode-to-int", M.key_mode_to_int, cv)
                if ok:
                    cx.eq("mode-to-int", again, code, "key_mode_to_int(mode code)", d)
    elif what == "mode-noncode":
        value = case["value"]
        d = "value=%r as %s (not a mode code)" % (value, form)
        for fn in (M.key_mode_to_int, M.key_int_to_mode):
            rej, v = cx.rejects("mode-rejected", fn, cast(value, form))
            if not rej:
                res.fail("mode-rejected", expected="an exception (unknown mode)", observed=v, where=fn.__name__, detail=d)
    elif what == "key-mode-code":
        f, code = case["fifths"], case["code"]
        exp = ref_key_name(f, code == -1)
        d = "fifths=%r mode code %r as %s" % (f, code, form)
        cv = cast(code, form)
        for label, fn in (("fifths_mode_to_key_name", lambda: M.fifths_mode_to_key_name(f, cv)),
                          ("KeySignature.name", lambda: S.KeySignature(f, cv).name)):
            ok, v = cx.call("key-name", fn)
            if ok:
                cx.eq("key-name", v, exp, "%s(mode code)" % label, d)
    elif what == "part-clefs":
        ev_part_clefs(case, res, cx)
    elif what == "part-keys":
        ev_part_keys(case, res, cx)
    else:
        raise ValueError(what)
    res.outcome = "codeform:%s:%s" % (what, "int" if (form or "").find("int") >= 0 else ("float" if form else "library"))
    res.nontrivial = True


def _small_part(nstaves, nnotes):
    import partitura.score as S

    part = S.Part("P0", quarter_duration=1)
    part.add(S.TimeSignature(4, 4), 0)
    k = 0
    for st in range(1, nstaves + 1):
        for i in range(nnotes):
            part.add(S.Note(id="n%d" % k, step="C", octave=4, staff=st, voice=st), i, i + 1)
            k += 1
    return part


def ev_part_clefs(case, res, cx):
    """codes as the library hands them out: Part.clef_map and the clef feature of the note array"""
    import partitura.score as S
    import partitura.utils.music as M
    from partitura.musicanalysis import compute_note_array

    signs, staff2 = case["signs"], case.get("staff2")
    nstaves = 2 if staff2 else 1
    per_staff = {1: list(signs)}
    if staff2 == "reversed":
        per_staff[2] = list(signs)[::-1]
    d = "clefs %r at t=0,1,..%s" % (signs, {None: "", "reversed": "; staff 2 the same reversed", "bare": "; staff 2 without clef"}[staff2])
    if case.get("noclef"):
        d = "no clef in the part (%d notes)" % len(signs)
    part = _small_part(nstaves, len(signs))
    if not case.get("noclef"):
        for st, ss in sorted(per_staff.items()):
            for i, s in enumerate(ss):
                if i == 0 or s != ss[i - 1]:
                    part.add(S.Clef(staff=st, sign=s, line=2, octave_change=0), i)
    S.add_measures(part)
    if staff2 == "bare":
        per_staff[2] = ["none"] * len(signs)  # Part.clef_map: a staff without clef has the "none" clef
    ok, cmap = cx.call("clef-decodes-library-code", lambda: part.clef_map)
    if ok:
        for t in range(len(signs)):
            ok, rows = cx.call("clef-decodes-library-code", cmap, t)
            if not ok:
                break
            try:
                rows = [list(r) for r in rows]
            except Exception:
                rows = None
            if not rows or len(rows) != nstaves:
                res.fail("clef-decodes-library-code", expected="one row per staff", observed=repr(rows)[:200], where="Part.clef_map", detail=d)
                break
            for st, row in enumerate(rows, start=1):
                exp = per_staff[st][t]
                ok2, back = cx.call("clef-decodes-library-code", M.clef_int_to_sign, row[1])
                if ok2:
                    cx.eq("clef-decodes-library-code", back, exp, "clef_int_to_sign(Part.clef_map(t)[staff][1])",
                          "%s t=%d staff=%d code=%r (%s)" % (d, t, st, row[1], type(row[1]).__name__))
    if staff2 == "bare":
        return  # the clef feature is not defined for a staff without clef next to one with clefs
    ok, na = cx.call("clef-decodes-library-code", compute_note_array, part, feature_functions=["clef_feature"])
    if ok:
        try:
            col = na["clef_feature.clef_sign"]
            ons = na["onset_div"]
            ids = na["id"]
        except Exception as e:  # noqa
            res.fail("clef-decodes-library-code", expected="a column clef_feature.clef_sign", observed=exc_text(e), where="clef_feature", detail=d)
            col = None
        if col is not None:
            nper = len(signs)
            if len(col) != nper * nstaves:
                res.fail("clef-decodes-library-code", expected="%d notes" % (nper * nstaves), observed=len(col), where="compute_note_array", detail=d)
            for code, t, nid in zip(col, ons, ids):
                st = int(str(nid)[1:]) // nper + 1
                exp = per_staff[st][int(t)]
                ok2, back = cx.call("clef-decodes-library-code", M.clef_int_to_sign, code)
                if ok2:
                    cx.eq("clef-decodes-library-code", back, exp, "clef_int_to_sign(note_array['clef_feature.clef_sign'])",
                          "%s note=%s staff=%d t=%d code=%r (%s)" % (d, nid, st, int(t), code, type(code).__name__))


def ev_part_keys(case, res, cx):
    """mode codes as the library hands them out: Part.key_signature_map (float64) and ks_mode (int32)"""
    import partitura.score as S
    import partitura.utils.music as M

    keys = case["keys"]  # [[fifths, mode], ...] at t = 0, 1, ..
    d = "key signatures %r at t=0,1,.." % (keys,)
    part = _small_part(1, len(keys))
    for i, (f, m) in enumerate(keys):
        part.add(S.KeySignature(f, m), i)
    S.add_measures(part)

    def check(f_obs, m_obs, f, m, src):
        kind = mode_kind(m)
        dd = "%s %s: fifths=%r (%s) mode code=%r (%s)" % (d, src, f_obs, type(f_obs).__name__, m_obs, type(m_obs).__name__)
        ok, back = cx.call("mode-decodes-library-code", M.key_int_to_mode, m_obs)
        if ok:
            cx.eq("mode-decodes-library-code", back, kind, "key_int_to_mode(%s)" % src, dd)
        if f_obs == f:
            ok, nm = cx.call("mode-decodes-library-code", M.fifths_mode_to_key_name, int(f_obs), m_obs)
            if ok:
                cx.eq("mode-decodes-library-code", nm, ref_key_name(f, kind == "minor"), "fifths_mode_to_key_name(int(fifths), %s mode code)" % src, dd)

    ok, kmap = cx.call("mode-decodes-library-code", lambda: part.key_signature_map)
    if ok:
        for t, (f, m) in enumerate(keys):
            ok, row = cx.call("mode-decodes-library-code", kmap, t)
            if not ok:
                break
            try:
                f_obs, m_obs = row[0], row[1]
            except Exception:
                res.fail("mode-decodes-library-code", expected="(fifths, mode code)", observed=repr(row)[:200], where="Part.key_signature_map", detail=d)
                break
            check(f_obs, m_obs, f, m, "Part.key_signature_map(t)")
    ok, na = cx.call("mode-decodes-library-code", lambda: M.note_array_from_part(part, include_key_signature=True))
    if ok:
        try:
            rows = list(zip(na["onset_div"], na["ks_fifths"], na["ks_mode"]))
        except Exception as e:  # noqa
            res.fail("mode-decodes-library-code", expected="fields ks_fifths, ks_mode", observed=exc_text(e), where="note_array", detail=d)
            rows = []
        for t, f_obs, m_obs in rows:
            f, m = keys[int(t)]
            check(f_obs, m_obs, f, m, "note_array['ks_mode']")


# --------------------------------------------------------------------------------------------- objects edited in place
#
# Note.midi_pitch / Note.alter_sign are functions of the spelling the note has *now*, and
# Tempo.microseconds_per_quarter of the bpm and unit the tempo has *now*: Note and Tempo are mutable objects with
# public attributes (the library itself re-assigns them, e.g. when transposing).  One object is created, its
# attributes are assigned one at a time, and the derived value is read before and/or after each assignment (directly,
# on a copy, on a deep copy - the history then continues on the copy -, or through the consumers of the library: the
# note array and the MIDI export of a part that holds the objects).  Every reading must be the value of the
# attributes the object has at that moment.

OBJ_READ_MODES = ["none", "prop", "copy", "deepcopy"]
MAX_VIOL = 8


def _note_edit_alphabet(steps, alters, octaves, incs):
    return ([["step", s] for s in steps] + [["alter", a] for a in alters] + [["octave", o] for o in octaves]
            + [["octave+", d] for d in incs])


NE_ALTERS = [None, -3, -2, -1, 0, 1, 2, 3]
NE_OCTAVES = list(range(-1, 10))
NE_EDITS_ALL = _note_edit_alphabet(REF_STEPS, NE_ALTERS, NE_OCTAVES, [-2, -1, 1, 2])
NE_EDITS_CORE = _note_edit_alphabet(REF_STEPS, [None, -2, -1, 0, 1, 2], [-1, 3, 4, 5, 9], [-1, 1])
NE_EDITS_SMALL = _note_edit_alphabet("DB", [None, -1, 2], [2, 5], [1])
NE_STARTS_ALL = [[s, a, o] for s in REF_STEPS for a in NE_ALTERS for o in NE_OCTAVES]
NE_STARTS_MID = [[s, a, o] for s in REF_STEPS for a in (None, -1, 0, 2) for o in (-1, 4, 9)]
NE_STARTS_CORE = [[s, a, o] for s in "CEB" for a in (None, -1, 2) for o in (0, 4)]
NE_STARTS_SMALL = [["C", None, 4], ["F", 1, 3], ["B", -1, 5], ["E", -2, 0], ["G", 0, 9], ["A", 2, -1]]
NE_BLOCKS = 16


def apply_note_edit(cur, op):
    """reference: the spelling [step, alter, octave] after the assignment `op`; None if the octave leaves -1..9"""
    step, alter, octave = cur
    if op[0] == "step":
        step = op[1]
    elif op[0] == "alter":
        alter = op[1]
    elif op[0] == "octave":
        octave = op[1]
    elif op[0] == "octave+":
        octave = octave + op[1]
    else:
        raise ValueError(op)
    if not -1 <= octave <= 9:
        return None
    return [step, alter, octave]


def note_history_ok(start, ops):
    cur = start
    for op in ops:
        cur = apply_note_edit(cur, op)
        if cur is None:
            return False
    return True


def note_edit_text(op):
    if op[0] == "octave+":
        return ".octave %s= %d" % ("+" if op[1] >= 0 else "-", abs(op[1]))
    return ".%s = %r" % (op[0], op[1])


def do_note_edit(note, op):
    if op[0] == "octave+":
        note.octave += op[1]
    else:
        setattr(note, op[0], op[1])


def make_note(S, cls, step, alter, octave):
    if cls == "Note":
        return S.Note(step, octave, alter)
    if cls == "GraceNote":
        return S.GraceNote("grace", step, octave, alter)
    raise ValueError(cls)


def check_note_now(res, cx, note, cur, d, what="note"):
    """the note's pitch properties against the spelling `cur` it has now"""
    step, alter, octave = cur
    a0 = alter or 0
    ok, sp = cx.call("note-spelling-after-edit", lambda: (note.step, note.alter, note.octave))
    if ok and not (sp[0] == step and sp[2] == octave and not isinstance(sp[2], bool) and (sp[1] == alter if alter is not None else sp[1] in (None, 0))):
        res.fail("note-spelling-after-edit", expected=[step, alter, octave], observed=list(sp), where="%s.step/.alter/.octave" % what, detail=d)
    ok, v = cx.call("note-midi-pitch-after-edit", lambda: note.midi_pitch)
    if ok:
        cx.eq("note-midi-pitch-after-edit", v, ref_midi(step, alter, octave), "%s.midi_pitch" % what, d)
    if abs(a0) <= 2:
        ok, v = cx.call("note-alter-sign-after-edit", lambda: note.alter_sign)
        if ok and not (isinstance(v, str) and all(ch in "#xb" for ch in v) and acc_value(v) == a0):
            res.fail("note-alter-sign-after-edit", expected="accidental sign worth %d semitone(s)" % a0, observed=v,
                     where="%s.alter_sign" % what, detail=d)


def read_object(cx, obj, how, check, d):
    """one reading of the history; returns the object the history continues on"""
    import copy

    if how == "prop":
        check(obj, d, "")
        return obj
    fn = copy.copy if how == "copy" else copy.deepcopy
    ok, c = cx.call("copy-after-edit", fn, obj)
    if not ok:
        return obj
    check(c, d, "%s of " % how)
    return c


def read_all(cx, obj, check, d):
    import copy

    check(obj, d, "")
    for how, fn in (("copy", copy.copy), ("deepcopy", copy.deepcopy)):
        ok, c = cx.call("copy-after-edit", fn, obj)
        if ok:
            check(c, d + " %s" % how, "%s of " % how)


def ev_noteedit(case, res, cx):
    import itertools
    import partitura.score as S

    cls, start, ops = case["cls"], case["start"], case["ops"]
    patterns = list(itertools.product(OBJ_READ_MODES, repeat=len(ops)))
    head = "%s(step=%r, octave=%r, alter=%r)" % (cls, start[0], start[2], start[1])
    for pat in patterns:
        ok, note = cx.call("note-midi-pitch-after-edit", make_note, S, cls, *start)
        if not ok:
            break
        cur = list(start)
        trace = []
        alive = True

        def check(obj, d, prefix):
            check_note_now(res, cx, obj, cur, d, prefix + cls)

        for op, rd in zip(ops, pat):
            if rd != "none":
                trace.append("read(%s)" % rd)
                note = read_object(cx, note, rd, check, "%s then %s" % (head, " ".join(trace)))
            trace.append(note_edit_text(op))
            ok, _ = cx.call("note-edit", do_note_edit, note, op)
            if not ok:
                alive = False
                break
            cur = apply_note_edit(cur, op)
        if alive:
            trace.append("read")
            read_all(cx, note, check, "%s then %s" % (head, " ".join(trace)))
        if len(res.violations) >= MAX_VIOL:
            break
    res.states = len(patterns)
    res.traces = len(patterns)
    res.outcome = "noteedit:%s:%s" % (cls, ">".join(op[0] for op in ops))
    res.nontrivial = True


# Tempo

TE_UNITS_ALL = [None] + [[t, dots] for t in TYPES for dots in range(4)]
TE_UNITS_CORE = [None, ["q", 0], ["h", 0], ["h", 1], ["e", 2], ["256th", 3], ["long", 0]]
TE_UNITS_SMALL = [None, ["h", 1], ["16th", 0]]
TE_BPMS_CORE = [30, 60, 120, 92.25]
TE_BPMS_SMALL = [60, 66.5, 208]
TE_STARTS_CORE = [[b, u] for u in (None, ["q", 0], ["h", 1], ["e", 2], ["16th", 0], ["whole", 3]) for b in TE_BPMS_SMALL]
TE_BLOCKS = 24


def unit_text(u):
    return None if u is None else u[0] + "." * u[1]


def ref_mpq_readings(bpm, u):
    bq = Fraction(bpm) * (REF_LABEL[u[0]] * ref_dot(u[1]) if u is not None else 1)
    return round_readings(Fraction(60 * 10 ** 6) / bq, window=Fraction(1, 10 ** 5))


def _tempo_edit_alphabet(bpms, units):
    return [["bpm", b] for b in bpms] + [["unit", u] for u in units]


def check_tempo_now(res, cx, t, bpm, u, d, what="Tempo"):
    ok, f = cx.call("tempo-fields-after-edit", lambda: (t.bpm, t.unit))
    if ok and not (f[0] == bpm and f[1] == unit_text(u)):
        res.fail("tempo-fields-after-edit", expected=[bpm, unit_text(u)], observed=list(f), where="%s.bpm/.unit" % what, detail=d)
    ok, v = cx.call("tempo-mpq-after-edit", lambda: t.microseconds_per_quarter)
    if ok:
        if cx.among("tempo-mpq-after-edit", v, ref_mpq_readings(bpm, u), "%s.microseconds_per_quarter" % what, d) and not is_intlike(v):
            res.fail("tempo-mpq-after-edit", expected="an integer", observed=repr(v), where="%s.microseconds_per_quarter" % what, detail=d)


def ev_tempoedit(case, res, cx):
    import itertools
    import partitura.score as S

    (bpm0, u0), ops = case["start"], case["ops"]
    patterns = list(itertools.product(OBJ_READ_MODES, repeat=len(ops)))
    head = "Tempo(%r, %r)" % (bpm0, unit_text(u0))
    for pat in patterns:
        ok, t = cx.call("tempo-mpq-after-edit", S.Tempo, bpm0, unit_text(u0))
        if not ok:
            break
        cur = [bpm0, u0]
        trace = []
        alive = True

        def check(obj, d, prefix):
            check_tempo_now(res, cx, obj, cur[0], cur[1], d, prefix + "Tempo")

        for op, rd in zip(ops, pat):
            if rd != "none":
                trace.append("read(%s)" % rd)
                t = read_object(cx, t, rd, check, "%s then %s" % (head, " ".join(trace)))
            if op[0] == "bpm":
                trace.append(".bpm = %r" % (op[1],))
                ok, _ = cx.call("tempo-edit", setattr, t, "bpm", op[1])
                cur[0] = op[1]
            else:
                trace.append(".unit = %r" % (unit_text(op[1]),))
                ok, _ = cx.call("tempo-edit", setattr, t, "unit", unit_text(op[1]))
                cur[1] = op[1]
            if not ok:
                alive = False
                break
        if alive:
            trace.append("read")
            read_all(cx, t, check, "%s then %s" % (head, " ".join(trace)))
        if len(res.violations) >= MAX_VIOL:
            break
    res.states = len(patterns)
    res.traces = len(patterns)
    res.outcome = "tempoedit:%s" % ">".join(op[0] for op in ops)
    res.nontrivial = True


# Notes and tempos inside a part, read through the note array and the MIDI export

PE_NOTES = [
    [["C", None, 4], ["F", 1, 4], ["B", -1, 3]],
    [["E", -2, 5], ["G", 0, 2], ["A", 2, 6]],
]
PE_TEMPOS = [
    [[120, ["q", 0]], [50, ["h", 1]]],
    [[90, None], [72.5, ["e", 1]]],
]
PE_READ_MODES = ["none", "array", "midi"]
PE_EDITS_ALL = (
    [["octave-all", d] for d in (-1, 1, 2)]
    + [["note", i, "octave", o] for i in range(3) for o in (1, 7)]
    + [["note", i, "step", s] for i in range(3) for s in ("D", "A")]
    + [["note", i, "alter", a] for i in range(3) for a in (None, -1, 1)]
    + [["tempo", j, "bpm", b] for j in range(2) for b in (60, 132)]
    + [["tempo", j, "unit", u] for j in range(2) for u in (None, ["h", 0], ["q", 1])]
)
PE_EDITS_CORE = [
    ["octave-all", 1], ["octave-all", -1], ["note", 0, "octave", 7], ["note", 1, "octave", 1], ["note", 2, "step", "D"],
    ["note", 0, "alter", 1], ["note", 1, "alter", None], ["tempo", 0, "bpm", 60], ["tempo", 1, "bpm", 132],
    ["tempo", 0, "unit", ["h", 0]], ["tempo", 1, "unit", None],
]
PE_BLOCKS = 8


def pe_edit_text(op):
    if op[0] == "octave-all":
        return "every note.octave += %d" % op[1]
    if op[0] == "note":
        return "note%d.%s = %r" % (op[1], op[2], op[3])
    return "tempo%d.%s = %r" % (op[1], op[2], unit_text(op[3]) if op[2] == "unit" else op[3])


def ev_partedit(case, res, cx):
    import io
    import itertools
    import partitura
    import partitura.score as S

    specs, tspecs, ops = PE_NOTES[case["notes"]], PE_TEMPOS[case["tempos"]], case["ops"]
    patterns = list(itertools.product(PE_READ_MODES, repeat=len(ops)))
    head = "part with notes %s and tempos %s at t=0, 2 quarters" % (
        " ".join("%s%+d/%d" % (s, a or 0, o) for s, a, o in specs), " ".join("%s=%r" % (unit_text(u) or "q", b) for b, u in tspecs))

    def build():
        part = S.Part("P0", quarter_duration=4)
        part.add(S.TimeSignature(4, 4), 0)
        notes, tempos = [], []
        for i, (s, a, o) in enumerate(specs):
            n = S.Note(step=s, octave=o, alter=a, id="n%d" % i, voice=1)
            part.add(n, 4 * i, 4 * (i + 1))
            notes.append(n)
        for j, (b, u) in enumerate(tspecs):
            t = S.Tempo(b, unit_text(u))
            part.add(t, 8 * j)
            tempos.append(t)
        return part, notes, tempos

    def read(part, how, cur_n, cur_t, d):
        if how in ("array", "both"):
            ok, na = cx.call("note-array-pitch-after-edit", lambda: part.note_array(include_pitch_spelling=True))
            if ok:
                try:
                    rows = dict((str(r["id"]), (int(r["pitch"]), str(r["step"]), int(r["alter"]), int(r["octave"]))) for r in na)
                except Exception as e:  # noqa
                    res.fail("note-array-pitch-after-edit", expected="fields id, pitch, step, alter, octave", observed=exc_text(e),
                             where="Part.note_array", detail=d)
                    rows = None
                if rows is not None:
                    exp = dict(("n%d" % i, (ref_midi(s, a, o), s, a or 0, o)) for i, (s, a, o) in enumerate(cur_n))
                    if rows != exp:
                        res.fail("note-array-pitch-after-edit", expected=exp, observed=rows, where="Part.note_array", detail=d)
        if how in ("midi", "both"):
            import mido

            buf = io.BytesIO()
            ok, _ = cx.call("midi-export-after-edit", partitura.save_score_midi, part, buf)
            if ok:
                mf = mido.MidiFile(file=io.BytesIO(buf.getvalue()))
                ons, tms = [], []
                for tr in mf.tracks:
                    now = 0
                    for m in tr:
                        now += m.time
                        if m.type == "note_on" and m.velocity > 0:
                            ons.append((now, m.note))
                        elif m.type == "set_tempo":
                            tms.append((now, m.tempo))
                ons.sort()
                tms.sort()
                exp = [ref_midi(s, a, o) for s, a, o in cur_n]  # the notes follow one another
                if [p for _, p in ons] != exp:
                    res.fail("midi-export-pitch-after-edit", expected=exp, observed=[p for _, p in ons], where="save_score_midi (note_on)", detail=d)
                readings = [ref_mpq_readings(b, u) for b, u in cur_t]
                got = [v for _, v in tms]
                # a repeated equal tempo may be written once
                okt = len(got) == len(readings) and all(g in r for g, r in zip(got, readings))
                if not okt and len(got) == 1 and set(readings[0]) & set(readings[1]):
                    okt = got[0] in readings[0] and got[0] in readings[1]
                if not okt:
                    res.fail("midi-export-tempo-after-edit", expected=[list(r) for r in readings], observed=got, where="save_score_midi (set_tempo)", detail=d)

    for pat in patterns:
        ok, built = cx.call("note-array-pitch-after-edit", build)
        if not ok:
            break
        part, notes, tempos = built
        cur_n = [list(x) for x in specs]
        cur_t = [list(x) for x in tspecs]
        trace = []
        alive = True
        for op, rd in zip(ops, pat):
            if rd != "none":
                trace.append("read(%s)" % rd)
                read(part, rd, cur_n, cur_t, "%s then %s" % (head, " ".join(trace)))
            trace.append(pe_edit_text(op))
            if op[0] == "octave-all":
                for i, n in enumerate(notes):
                    ok, _ = cx.call("note-edit", do_note_edit, n, ["octave+", op[1]])
                    cur_n[i][2] += op[1]
                    if not ok:
                        break
            elif op[0] == "note":
                ok, _ = cx.call("note-edit", setattr, notes[op[1]], op[2], op[3])
                cur_n[op[1]][{"step": 0, "alter": 1, "octave": 2}[op[2]]] = op[3]
            else:
                ok, _ = cx.call("tempo-edit", setattr, tempos[op[1]], op[2], unit_text(op[3]) if op[2] == "unit" else op[3])
                cur_t[op[1]][{"bpm": 0, "unit": 1}[op[2]]] = op[3]
            if not ok:
                alive = False
                break
        if alive:
            trace.append("read")
            read(part, "both", cur_n, cur_t, "%s then %s" % (head, " ".join(trace)))
        if len(res.violations) >= MAX_VIOL:
            break
    res.states = len(patterns)
    res.traces = len(patterns)
    res.outcome = "partedit:%s" % ">".join(op[0] if op[0] == "octave-all" else "%s.%s" % (op[0], op[2]) for op in ops)
    res.nontrivial = True


EVAL = {
    "noteedit": ev_noteedit, "tempoedit": ev_tempoedit, "partedit": ev_partedit,
    "spelling": ev_spelling, "notename": ev_notename, "midi": ev_midi, "midi-array": ev_midi_array, "keys": ev_keys,
    "keyname": ev_keyname, "mode": ev_mode, "clef": ev_clef, "symdur": ev_symdur, "tempo": ev_tempo,
    "tuplet": ev_tuplet, "interval": ev_interval, "ticks": ev_ticks, "table": ev_table,
    "keypairs": ev_keypairs, "keychain": ev_keychain, "keysweep": ev_keysweep, "ivedit": ev_ivedit, "codeform": ev_codeform,
}


def eval_case(case):
    res = CaseResult(states=1, transitions=0, traces=1)
    res.nontrivial = False
    cx = Ctx(res)
    EVAL[case["k"]](case, res, cx)
    res.transitions = cx.n
    if res.violations:
        res.outcome = "violation:" + case["k"]
    return res


# --------------------------------------------------------------------------------------------- spaces


def _spelling_cases():
    for step in list(REF_STEPS) + [s.lower() for s in REF_STEPS]:
        for alter in [None, -3, -2, -1, 0, 1, 2, 3]:
            for octave in range(-1, 10):
                yield dict(k="spelling", step=step, alter=alter, octave=octave)


def _notename_cases():
    for step in REF_STEPS:
        for acc in ACC_SYMBOLS:
            for octave in range(10):
                yield dict(k="notename", name="%s%s%d" % (step, acc, octave))


def _midi_cases():
    for form in ("int", "npint", "npint32", "float"):
        for m in range(128):
            c = dict(k="midi", m=m, form=form)
            if form == "int":
                c["default_a4"] = True
            yield c


def _midi_array_cases():
    for dt in ("int64", "int32", "float64"):
        for a4 in A4S:
            yield dict(k="midi-array", dtype=dt, a4=a4)
    yield dict(k="midi-array", dtype="int64", a4=440, shape2d=True)


def _keys_cases():
    for f in range(-12, 13):
        for mode in MODES_MAJOR + MODES_MINOR + MODES_UNKNOWN:
            for form in ("int", "npint", "npint32"):
                yield dict(k="keys", fifths=f, mode=mode, form=form)
                if isinstance(mode, int) and form != "int":
                    yield dict(k="keys", fifths=f, mode=mode, form=form, npmode=True)


def _keyname_cases():
    for minor in (False, True):
        for f in range(-7, 8):
            yield dict(k="keyname", fifths=f, minor=minor)


def _mode_cases():
    for mode in MODES_MAJOR + MODES_MINOR + MODES_UNKNOWN:
        yield dict(k="mode", mode=mode)
        if isinstance(mode, int):
            yield dict(k="mode", mode=mode, npmode=True)


def _clef_cases():
    for s in CLEF_SIGNS:
        yield dict(k="clef", sign=s)
    for c in range(len(CLEF_SIGNS)):
        yield dict(k="clef", code=c)


def _symdur_cases():
    for typ in TYPES:
        for dots in range(4):
            for ratio in RATIOS_SYM:
                for divs in DIVS:
                    for form in ("full", "minimal"):
                        yield dict(k="symdur", type=typ, dots=dots, ratio=ratio, divs=divs, form=form)


def _tempo_cases():
    for typ in TYPES:
        for dots in range(4):
            for bpm in BPMS:
                yield dict(k="tempo", type=typ, dots=dots, bpm=bpm)
    for bpm in BPMS:
        yield dict(k="tempo", type=None, dots=0, bpm=bpm)
        yield dict(k="tempo", type=None, dots=0, bpm=bpm, default_unit=True)


def _tuplet_cases():
    pairs = [(None, None)] + [(a, n) for a in TYPES for n in TYPES]
    for at, nt in pairs:
        for a in TUPLET_ACTUAL:
            yield dict(k="tuplet", actual_type=at, normal_type=nt, actual=a)


def _interval_cases():
    for n in range(1, 15):
        for q in QUALITIES:
            for direction in DIRECTIONS:
                yield dict(k="interval", number=n, quality=q, direction=direction)
            yield dict(k="interval", number=n, quality=q, direction="up", default_direction=True)


def _keypair_cases(tier):
    def gen():
        if tier == "quick":
            alpha = pair_alphabet(PAIR_EDGE)
            for q1 in alpha:
                for q2 in alpha:
                    yield dict(k="keypairs", ops=[q1, q2])
        else:
            # both queries through the same api
            for q1 in pair_alphabet(PAIR_CORE):
                for q2 in pair_alphabet(PAIR_CORE):
                    if q1[0] == q2[0]:
                        yield dict(k="keypairs", ops=[q1, q2])
    return gen


def _keychain_cases(tier, seed):
    def gen():
        for scope in ("core", "wide"):
            alpha = pair_alphabet(PAIR_SCOPES[scope])
            fs = PAIR_SCOPES[scope]["fifths"]
            for i, q in enumerate(alpha):
                # after any first query every query of the alphabet
                c = dict(k="keychain", scope=scope, start=i, shape="first")
                if scope == "core" or tier != "quick" or block_of(c, CHAIN_BLOCKS) == seed % CHAIN_BLOCKS:
                    yield c
            for i, q in enumerate(alpha):
                # all ordered pairs adjacent, started from the extreme and the middle queries
                if q[1] in (fs[0], 0, fs[-1]):
                    c = dict(k="keychain", scope=scope, start=i, shape="allpairs")
                    if scope == "core" or tier != "quick" or block_of(c, CHAIN_BLOCKS) == seed % CHAIN_BLOCKS:
                        yield c
    return gen


def _keysweep_cases():
    for order in SWEEP_ORDERS:
        for api in SWEEP_APIS:
            for form in SWEEP_FORMS:
                yield dict(k="keysweep", order=order, api=api, form=form)


def _ivedit_cases(tier):
    def gen():
        single = list(range(-5, 6))
        pair_r = range(-3, 4) if tier == "quick" else range(-5, 6)
        for number in range(1, 8):
            quals = ref_quality_list(number)
            for quality in quals:
                for direction in ("up", "down"):
                    base = dict(k="ivedit", number=number, quality=quality, direction=direction)
                    for n in single:
                        yield dict(base, ops=[["cq", n]])
                    for n1 in pair_r:
                        for n2 in pair_r:
                            yield dict(base, ops=[["cq", n1], ["cq", n2]])
                    if tier != "quick":
                        for n1 in range(-2, 3):
                            for n2 in range(-2, 3):
                                for n3 in range(-2, 3):
                                    yield dict(base, ops=[["cq", n1], ["cq", n2], ["cq", n3]])
                    for val in (False, True):
                        for q2 in quals:
                            yield dict(base, ops=[["setq", q2, val]])
                            for n in (-1, 1):
                                yield dict(base, ops=[["setq", q2, val], ["cq", n]])
                        for n2 in range(1, 8):
                            if n2 != number and quality in ref_quality_list(n2):
                                yield dict(base, ops=[["setn", n2, val]])
    return gen


def _noteedit_cases(tier, seed):
    def wide2():
        for start in NE_STARTS_MID:
            for e1 in NE_EDITS_ALL:
                for e2 in NE_EDITS_ALL:
                    if note_history_ok(start, [e1, e2]):
                        yield dict(k="noteedit", cls="Note", start=start, ops=[e1, e2])

    def gen():
        import itertools

        # one assignment: every spelling x every assignment
        for start in NE_STARTS_ALL:
            for e in NE_EDITS_ALL:
                if note_history_ok(start, [e]):
                    yield dict(k="noteedit", cls="Note", start=start, ops=[e])
        for start in NE_STARTS_MID:
            for e in NE_EDITS_ALL:
                if note_history_ok(start, [e]):
                    yield dict(k="noteedit", cls="GraceNote", start=start, ops=[e])
        # two assignments
        for cls, starts in (("Note", NE_STARTS_CORE), ("GraceNote", NE_STARTS_CORE[::7])):
            for start in starts:
                for e1 in NE_EDITS_CORE:
                    for e2 in NE_EDITS_CORE:
                        if note_history_ok(start, [e1, e2]):
                            yield dict(k="noteedit", cls=cls, start=start, ops=[e1, e2])
        # three assignments
        for start in (NE_STARTS_SMALL[:2] if tier == "quick" else NE_STARTS_SMALL):
            for es in itertools.product(NE_EDITS_SMALL, repeat=3):
                if note_history_ok(start, list(es)):
                    yield dict(k="noteedit", cls="Note", start=start, ops=[list(e) for e in es])
        core2 = set((tuple(s), tuple(e1), tuple(e2)) for s in NE_STARTS_CORE for e1 in NE_EDITS_CORE for e2 in NE_EDITS_CORE)
        for c in wide2():
            if (tuple(c["start"]), tuple(c["ops"][0]), tuple(c["ops"][1])) in core2:
                continue
            if tier != "quick" or block_of(c, NE_BLOCKS) == seed % NE_BLOCKS:
                yield c
    return gen


def _tempoedit_cases(tier, seed):
    def gen():
        import itertools

        all_edits = _tempo_edit_alphabet(BPMS, TE_UNITS_ALL)
        core_edits = _tempo_edit_alphabet(TE_BPMS_CORE, TE_UNITS_CORE)
        small_edits = _tempo_edit_alphabet(TE_BPMS_SMALL[:2], TE_UNITS_SMALL)
        for u in TE_UNITS_ALL:
            for b in BPMS:
                for e in all_edits:
                    if tier != "quick" or e in core_edits or [b, u] in TE_STARTS_CORE:
                        yield dict(k="tempoedit", start=[b, u], ops=[e])
        for start in TE_STARTS_CORE:
            for e1 in core_edits:
                for e2 in core_edits:
                    yield dict(k="tempoedit", start=start, ops=[e1, e2])
        for start in (TE_STARTS_CORE[4::5] if tier == "quick" else TE_STARTS_CORE):
            for es in itertools.product(small_edits, repeat=3):
                yield dict(k="tempoedit", start=start, ops=[list(e) for e in es])
        for start in TE_STARTS_CORE:
            for e1 in all_edits:
                for e2 in all_edits:
                    if e1 in core_edits and e2 in core_edits:
                        continue
                    c = dict(k="tempoedit", start=start, ops=[e1, e2])
                    if tier != "quick" or block_of(c, TE_BLOCKS) == seed % TE_BLOCKS:
                        yield c
    return gen


def part_history_ok(notes, ops):
    cur = [list(x) for x in PE_NOTES[notes]]
    for op in ops:
        if op[0] == "octave-all":
            for n in cur:
                n[2] += op[1]
        elif op[0] == "note":
            cur[op[1]][{"step": 0, "alter": 1, "octave": 2}[op[2]]] = op[3]
        if not all(-1 <= o <= 9 and 0 <= ref_midi(s, a, o) <= 127 for s, a, o in cur):
            return False
    return True


def _partedit_cases(tier, seed):
    def gen():
        for ni in range(len(PE_NOTES)):
            for ti in range(len(PE_TEMPOS)):
                for e in PE_EDITS_ALL:
                    if part_history_ok(ni, [e]):
                        yield dict(k="partedit", notes=ni, tempos=ti, ops=[e])
        for ni, ti in ((0, 0), (1, 1)):
            for e1 in PE_EDITS_CORE:
                for e2 in PE_EDITS_CORE:
                    if part_history_ok(ni, [e1, e2]):
                        yield dict(k="partedit", notes=ni, tempos=ti, ops=[e1, e2])
        for ni in range(len(PE_NOTES)):
            for ti in range(len(PE_TEMPOS)):
                for e1 in PE_EDITS_ALL:
                    for e2 in PE_EDITS_ALL:
                        if ni == ti and e1 in PE_EDITS_CORE and e2 in PE_EDITS_CORE:
                            continue
                        if not part_history_ok(ni, [e1, e2]):
                            continue
                        c = dict(k="partedit", notes=ni, tempos=ti, ops=[e1, e2])
                        if tier != "quick" or block_of(c, PE_BLOCKS) == seed % PE_BLOCKS:
                            yield c
    return gen


def _codeform_cases():
    for form in CODE_FORM_NAMES:
        for s in CLEF_SIGNS:
            yield dict(k="codeform", what="clef-sign", sign=s, form=form)
        for c in range(len(CLEF_SIGNS)):
            yield dict(k="codeform", what="clef-code", code=c, form=form)
        for v in CLEF_NONCODES + (CLEF_NONCODES_FRACTIONAL if "float" in form else []):
            if form == "npuint8" and v < 0:
                continue
            yield dict(k="codeform", what="clef-noncode", value=v, form=form)
        if form != "npuint8":
            for mode in MODES_MAJOR + MODES_MINOR:
                yield dict(k="codeform", what="mode-code", mode=mode, form=form)
            for f in range(-7, 8):
                for code in (1, -1):
                    yield dict(k="codeform", what="key-mode-code", fifths=f, code=code, form=form)
        for v in MODE_NONCODES + (MODE_NONCODES_FRACTIONAL if "float" in form else []):
            if form == "npuint8" and v < 0:
                continue
            yield dict(k="codeform", what="mode-noncode", value=v, form=form)
    # codes handed out by the library itself
    for s1 in CLEF_SIGNS:
        for s2 in CLEF_SIGNS:
            yield dict(k="codeform", what="part-clefs", signs=[s1, s2], staff2=None)
    for i, s1 in enumerate(CLEF_SIGNS):
        rot = CLEF_SIGNS[i:] + CLEF_SIGNS[:i]
        yield dict(k="codeform", what="part-clefs", signs=rot, staff2=None)
        yield dict(k="codeform", what="part-clefs", signs=rot, staff2="reversed")
        yield dict(k="codeform", what="part-clefs", signs=[s1, CLEF_SIGNS[(i + 3) % 7]], staff2="bare")
    yield dict(k="codeform", what="part-clefs", signs=["none", "none"], staff2=None, noclef=True)
    for f in range(-7, 8):
        for m1 in MODES_MAJOR + MODES_MINOR:
            for m2 in ("major", "minor"):
                yield dict(k="codeform", what="part-keys", keys=[[f, m1], [-f, m2]])


PPQ_CORE = [1, 96, 480, 960]
MPQ_CORE = [250000, 500000, 600000]
PPQ_MORE = [24, 120, 384, 1024, 10080]
MPQ_MORE = [200000, 333333, 400000, 461538, 750000, 1000000]
PFORMS = ["int", "float", "npint"]
TICK_BLOCKS = 8


def _tick_cases(ppqs, mpqs, kmax, all_forms):
    def gen():
        i = 0
        for ppq in ppqs:
            for mpq in mpqs:
                for lo in range(0, kmax, BLOCK):
                    hi = min(lo + BLOCK, kmax)
                    forms = PFORMS if all_forms else [PFORMS[i % 3]]
                    i += 1
                    for pf in forms:
                        yield dict(k="ticks", ppq=ppq, mpq=mpq, lo=lo, hi=hi, pform=pf)
    return gen


def _tick_cases_negative(ppqs, mpqs, kmin):
    def gen():
        i = 0
        for ppq in ppqs:
            for mpq in mpqs:
                for lo in range(-kmin, 0, BLOCK):
                    hi = min(lo + BLOCK, 0)
                    pf = PFORMS[i % 3]
                    i += 1
                    yield dict(k="ticks", ppq=ppq, mpq=mpq, lo=lo, hi=hi, pform=pf)
    return gen


def _tick_more(kmax):
    core = set((p, q) for p in PPQ_CORE for q in MPQ_CORE)
    pairs = [(p, q) for p in PPQ_CORE + PPQ_MORE for q in MPQ_CORE + MPQ_MORE if (p, q) not in core]

    def gen():
        i = 0
        for ppq, mpq in pairs:
            for lo in range(0, kmax, BLOCK):
                hi = min(lo + BLOCK, kmax)
                pf = PFORMS[i % 3]
                i += 1
                yield dict(k="ticks", ppq=ppq, mpq=mpq, lo=lo, hi=hi, pform=pf)
    return gen


# magnitude dimension of the tick conversion: long performances and fine tick resolutions
LARGE_PPQ = [1, 480, 960, 10080, 15360]
LARGE_MPQ = [250000, 400000, 500000, 600000, 1000000]
LARGE_OFF_S = [600, 3600, 9000, 36000, 86400, -9000]  # 10 min .. 24 h, and 2.5 h before the reference point
LARGE_MUL = [1, 37]
LARGE_T = [2 ** 15, 2 ** 16, 2 ** 24, 2 ** 31, 2 ** 32]
LARGE_MAX_S = 86400
LONG_N = [30, 300, 1100, 2600]
LONG_STEP = [371, 3461, 13841]  # ms between consecutive times: 2600 points span 16 min, 2.5 h, 10 h
LONG_CORE = [(480, 500000), (960, 400000), (15360, 500000)]
LONG_BLOCKS = 10


def _tick_large_cases(tier, seed):
    full = tier != "quick"

    def gen():
        # the long cases are spread evenly between the others (work items are runs of consecutive cases)
        short, long_ = [], []
        for c in gen0():
            (long_ if c["fam"] == "long" else short).append(c)
        every = max(1, len(short) // max(1, len(long_)))
        for j, c in enumerate(short):
            yield c
            if j % every == every - 1 and long_:
                yield long_.pop(0)
        for c in long_:
            yield c

    def gen0():
        i = 0
        # (offset) the blocks of 250 grid times of the small family shifted by a large offset, consecutive or 37 ms apart
        for ppq in LARGE_PPQ:
            for mpq in LARGE_MPQ:
                for off_s in LARGE_OFF_S:
                    combos = [(pf, m) for pf in PFORMS for m in LARGE_MUL] if full else [(PFORMS[i % 3], LARGE_MUL[i % 2])]
                    i += 1
                    for pf, m in combos:
                        # i = 100 is the whole second off_s (integer forms of the time)
                        yield dict(k="ticks", fam="offset", ppq=ppq, mpq=mpq, lo=0, hi=BLOCK, off=off_s * 1000 - 100 * m, mul=m, pform=pf)
        # (threshold) 250 consecutive grid times around the time whose tick value is a power of two, where that time is within 24 h
        for ppq in LARGE_PPQ:
            for mpq in LARGE_MPQ:
                for T in LARGE_T:
                    kc = (T * mpq) // (1000 * ppq)  # ms
                    if kc > LARGE_MAX_S * 1000:
                        continue
                    forms = PFORMS if full else [PFORMS[i % 3]]
                    i += 1
                    for pf in forms:
                        yield dict(k="ticks", fam="threshold", ppq=ppq, mpq=mpq, lo=0, hi=BLOCK, off=kc - BLOCK // 2, mul=1, pform=pf)
        # (long) one whole performance: N times from 0, a fixed step apart
        b = seed % LONG_BLOCKS
        for ppq in LARGE_PPQ:
            for mpq in LARGE_MPQ:
                for n in LONG_N:
                    for step in LONG_STEP:
                        pf = PFORMS[i % 3]
                        i += 1
                        c = dict(k="ticks", fam="long", ppq=ppq, mpq=mpq, lo=0, hi=n, off=0, mul=step, pform=pf)
                        if full or ((ppq, mpq) in LONG_CORE and n == LONG_N[-1]) or block_of(c, LONG_BLOCKS) == b:
                            yield c
    return gen


def spaces(tier, seed):
    sp = [
        Space("spelling", _spelling_cases, True,
              "steps C..B upper+lower case x alter {None,-3..3} x octave -1..9: spelling->midi (python and numpy ints), Note, step2pc, "
              "ensure_pitch_spelling_format, spelling->name->spelling, name->midi"),
        Space("notename", _notename_cases, True, "every string [A-G](|#|b|x|##|bb)[0-9]: name->spelling->name, name->midi, accidental symbols"),
        Space("midi", _midi_cases, True,
              "MIDI 0..127 as int, numpy int64/int32, float: midi->spelling->midi->name->midi; frequency both ways for a4 in "
              "{440,415,442.5,432}, detuned -40/0/+40 cents, python and numpy floats, integer frequencies"),
        Space("midi-array", _midi_array_cases, True, "0..127 as int64/int32/float64 arrays (1-D, one 2-D) x four tunings: frequency both ways"),
        Space("keys", _keys_cases, True,
              "fifths -12..12 (int, numpy int64/int32) x modes {major,None,'none',1,minor,-1} (ints also as numpy) + 11 unknown modes: "
              "name, KeySignature.name, inverse, rejection"),
        Space("keynames", _keyname_cases, True, "the 30 names of the line of fifths -> (fifths, mode) -> name"),
        Space("modes", _mode_cases, True, "every accepted mode spelling and 11 unknown modes through key_mode_to_int/key_int_to_mode"),
        Space("clefs", _clef_cases, True, "7 clef signs and codes 0..6: encode/decode both ways, distinct codes"),
        Space("symdur", _symdur_cases, True,
              "14 symbolic types x dots 0..3 x ratios {none,3:2,2:3,5:4,6:4,7:4,7:8,4:3,9:8} x divs {1,2,4,6,12,480} x dict form {full,minimal}"),
        Space("tempo", _tempo_cases, True, "14 unit types x dots 0..3 x 10 bpm values + unit None: to_quarter_tempo, Tempo.microseconds_per_quarter"),
        Space("tuplets", _tuplet_cases, True, "(None,None) + 14x14 type pairs x actual 2..12 x normal 1..8: Tuplet.duration_multiplier"),
        Space("intervals", _interval_cases, True, "number 1..14 x quality {dd,d,m,M,P,A,AA,X,''} x direction {up,down,sideways,default}"),
        Space("tables", [dict(k="table", table=t) for t in TABLE_CHECKS], True, "15 agreement checks between the constant tables"),
    ]
    sp.append(Space("key-pairs", _keypair_cases(tier), True,
                    "call histories of length 2, every ordered pair (one case) in its own fresh process (state of the library as after import): "
                    + ("(fifths_mode_to_key_name x {major,minor} x fifths {-9,-8,-7,-6,0,6,7,8,9})^2 = 324 pairs" if tier == "quick" else
                       "api {fifths_mode_to_key_name, KeySignature.name} (same for both queries) x ({major,minor} x fifths -9..9)^2 = 2888 pairs")
                    + "; both results must equal the reference of the single query (name, or rejection)"))
    sp.append(Space("key-chains", _keychain_cases(tier, seed), True,
                    "longer histories, one fresh process each, over the alphabets A = api {fifths_mode_to_key_name, KeySignature.name} x "
                    "{major,minor} x fifths -9..9 (76 queries) and W = 2 apis x {major,None,1,minor,-1} x fifths -12..12 (250 queries): "
                    "(first) for every start query s: s, then every query of the alphabet; (allpairs) the cyclic all-pairs sequence (n^2+1 "
                    "calls, every ordered pair of queries adjacent exactly once) rotated to start at s, for the 12 (A) / 30 (W) start queries "
                    "with the lowest, zero and highest fifths"
                    + ("; A complete, of W the histories in hash block %d of %d" % (seed % CHAIN_BLOCKS, CHAIN_BLOCKS) if tier == "quick" else "")
                    + "; every single result must equal the reference"))
    sp.append(Space("key-sweeps", _keysweep_cases, True,
                    "long call histories in one fresh process: fifths -22..22 x 6 accepted mode spellings + 4 unknown modes, in 7 orders "
                    "(all valid keys then all invalid queries, invalid then valid, valid-invalid-valid, ascending, descending, inside-out, "
                    "outside-in) x api {fifths_mode_to_key_name, KeySignature.name, mixed incl. key_name_to_fifths_mode} x number form "
                    "{int, numpy int64, alternating int/int64/int32}: every single result equals the reference"))
    sp.append(Space("interval-edits", _ivedit_cases(tier), True,
                    "one Interval object edited in place: 39 classes (number 1..7 x its qualities) x direction {up,down} x edits {change_quality(n) "
                    "n=-5..5; two changes (n1,n2) in %s; .quality=q2 for every quality of the number, alone and followed by change_quality(+-1); "
                    ".number=n2 for every number that has the quality; assignments with and without validate()} x every pattern of reading the size "
                    "before each edit {not read, .semitones, transpose_note over 9 (step, alter) probes}; after the edits .semitones and transpose_note "
                    "must give the size of the class the interval has now"
                    % ("(-3..3)^2" if tier == "quick" else "(-5..5)^2; three changes in (-2..2)^3")))
    blk = lambda B: (" of which hash block %d of %d" % (seed % B, B)) if tier == "quick" else ""  # noqa
    sp.append(Space("note-edits", _noteedit_cases(tier, seed), True,
                    "one Note object whose step / alter / octave are assigned in place (.step=s, .alter=a, .octave=o, .octave+=d; histories that "
                    "leave octave -1..9 are not generated) x every pattern of reading it before each assignment {not read, properties, on a "
                    "copy.copy, on a copy.deepcopy - the history continues on the copy}; after the last assignment the object, a copy and a deep copy "
                    "are read: .midi_pitch = 12(octave+1)+pc(step)+alter, .alter_sign worth alter semitones (|alter|<=2), .step/.alter/.octave as assigned. "
                    "(1) one assignment: Note with 7 steps x alter {None,-3..3} x octave -1..9 (616 spellings) x 30 assignments {7 steps, 8 alters, 11 octaves, "
                    "+=-2,-1,1,2}; GraceNote with 7 steps x alter {None,-1,0,2} x octave {-1,4,9} x the 30; (2) two assignments: Note from {C,E,B} x {None,-1,2} x "
                    "{0,4} (GraceNote from 3 of these) x (7 steps, alter {None,-2..2}, octave {-1,3,4,5,9}, +=-1,1)^2; (3) three assignments: Note from %d "
                    "spellings x ({D,B}, alter {None,-1,2}, octave {2,5}, +=1)^3; (4) two assignments wide: Note from the 84 spellings of (1b) x (30 assignments)^2%s"
                    % (2 if tier == "quick" else 6, blk(NE_BLOCKS))))
    sp.append(Space("tempo-edits", _tempoedit_cases(tier, seed), True,
                    "one Tempo object whose bpm / unit are assigned in place x every pattern of reading it before each assignment {not read, property, on a "
                    "copy, on a deep copy - continuing on the copy}; after the last assignment the object, a copy and a deep copy give "
                    "microseconds_per_quarter = round(60e6/(bpm*unit in quarters)) for the bpm and unit it has now. (1) one assignment: (57 units {None, 14 types x "
                    "dots 0..3} x 10 bpm) x %s; (2) two: 18 starts x (bpm {30,60,120,92.25} + units {None,q,h,h.,e..,256th...,long})^2; (3) three: "
                    "%d starts x (bpm {60,66.5} + units {None,h.,16th})^3; (4) two wide: the 18 starts x (67 assignments)^2%s"
                    % ("(4 bpm + 7 units of (2)), and the 18 starts of (2) x (10 bpm + 57 units)" if tier == "quick" else "(10 bpm + 57 units)",
                       3 if tier == "quick" else 18, blk(TE_BLOCKS))))
    sp.append(Space("part-edits", _partedit_cases(tier, seed), True,
                    "a part (4/4, three consecutive quarter notes, two Tempo objects at 0 and 2 quarters) whose notes / tempos are edited in place, read through "
                    "the library's consumers before each edit {not read, Part.note_array(include_pitch_spelling), save_score_midi} and through both after the "
                    "last: pitch/step/alter/octave columns, note_on pitches and set_tempo values are those of the objects as they are now. 2 note triples x 2 "
                    "tempo pairs x edits {every note.octave += -1,1,2; note i .octave in {1,7}, .step in {D,A}, .alter in {None,-1,1}; tempo j .bpm in {60,132}, "
                    ".unit in {None,h,q.}} (34; histories leaving MIDI 0..127 are not generated): (1) one edit, all; (2) two edits from 11 core edits on 2 starts; "
                    "(3) all pairs of the 34 on the 4 starts%s" % blk(PE_BLOCKS)))
    sp.append(Space("code-forms", _codeform_cases, True,
                    "clef codes 0..6 / 7 signs and mode codes +-1 / 6 mode spellings x number form {int, numpy int8/16/32/64, uint8, float, numpy "
                    "float16/32/64}: decode(encode) and encode(decode); mode codes in these forms as mode argument of fifths_mode_to_key_name and "
                    "KeySignature.name for fifths -7..7; numbers that are no code (clef -7..-1, 7..13, fractional; mode 0,2,-2,3, fractional); codes "
                    "handed out by the library: Part.clef_map and note feature clef_feature.clef_sign (float32) for all 49 clef pairs on one staff, the 7 "
                    "rotations of all signs on one and two staves, a staff without clef, a part without clef; Part.key_signature_map (float64) and "
                    "note array field ks_mode (int32) for fifths -7..7 x 6 mode spellings x following {major,minor}"))
    sp.append(Space("ticks-negative", _tick_cases_negative(PPQ_CORE + [1000000 // 1000], MPQ_CORE + [1000000], 1000 if tier == "quick" else 5000), True,
                    "negative times t=k/1000 s, k=-%d..-1 x ppq {1,96,480,960,1000} x mpq {250000,500000,600000,1000000}: the same clauses "
                    "(rounding is to nearest for negative values too; scalar and array branches agree)" % (1000 if tier == "quick" else 5000)))
    sp.append(Space("ticks-large", _tick_large_cases(tier, seed), True,
                    "magnitude dimension of the tick conversion (same clauses, scalars and arrays, both directions) over ppq {1,480,960,10080,15360} x "
                    "mpq {250000,400000,500000,600000,1000000}: (offset) the block of 250 grid times shifted to 10 min, 1 h, 2.5 h, 10 h, 24 h and "
                    "-2.5 h, grid step {1, 37} ms%s; (threshold) the 250 consecutive ms around the time whose tick value is 2^15, 2^16, 2^24, 2^31, 2^32, for "
                    "every pair where that time is within 24 h (77 of 125)%s; (long) one whole performance of N in {30,300,1100,2600} times from 0, "
                    "{371, 3461, 13841} ms apart (up to 10 h; tick values up to 2.2e9)%s. int32 forms of a tick only where it fits int32"
                    % ((" x parameter form {int,float,numpy int}", " x parameter form", ", parameter form cycled") if tier != "quick" else
                       (", step and parameter form (int/float/numpy int) cycled over consecutive cases", ", parameter form cycled",
                        ", parameter form cycled: N=2600 for ppq/mpq in {480/500000, 960/400000, 15360/500000} and of all 300 the hash block %d of %d"
                        % (seed % LONG_BLOCKS, LONG_BLOCKS)))))
    if tier == "quick":
        sp.append(Space("ticks-core", _tick_cases(PPQ_CORE, MPQ_CORE, 10000, False), True,
                        "t=k/1000 s, k=0..9999 (blocks of 250) x ppq {1,96,480,960} x mpq {250000,500000,600000}; parameter form "
                        "(int/float/numpy int) cycled over consecutive blocks; scalars float/np.float64/int/np.int64, arrays float64 1-D/2-D/strided/"
                        "empty, int64, int32; both directions"))
        more = _tick_more(4000)
        b = seed % TICK_BLOCKS
        sp.append(Space("ticks-more", lambda: (c for c in more() if block_of(c, TICK_BLOCKS) == b), True,
                        "hash block %d of %d of: remaining pairs of ppq {1,24,96,120,384,480,960,1024,10080} x mpq {200000,250000,333333,"
                        "400000,461538,500000,600000,750000,1000000}, k=0..3999" % (b, TICK_BLOCKS)))
    else:
        sp.append(Space("ticks-core", _tick_cases(PPQ_CORE, MPQ_CORE, 30000, True), True,
                        "t=k/1000 s, k=0..29999 x ppq {1,96,480,960} x mpq {250000,500000,600000} x parameter form {int,float,numpy int}"))
        sp.append(Space("ticks-more", _tick_more(20000), True,
                        "remaining pairs of ppq {1,24,96,120,384,480,960,1024,10080} x mpq {200000,...,1000000}, k=0..19999"))
    return sp


TRIGGERS = {}

if __name__ == "__main__":
    import checks.c12 as _m

    run_check(_m)
