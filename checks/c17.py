"""C17 - spelling, voice and key estimation are total, well-formed and pitch-preserving.

Bounded-exhaustive enumeration of small note arrays (every multiset of rows over small alphabets,
every row permutation), of periodic families of every length 1..120 (and a few up to 300 rows,
crossing the K_pre=10 / K_post=40 context windows of ps13), of all pitch pairs 21..108, of all
pitch-class sets of size <= 3, of long passages of low pitch-class variety (one pitch class 128..900
times: repeated notes, tremolos of every pitch-class pair, Alberti figures; 255..900 rows), of
histories of earlier key queries (plain / return_sorted_keys=True x profile set, depth <= 2 or 3)
followed by the key clauses on a probe, and of MIDI files written from such arrays, on the real
estimate_spelling / estimate_voices / estimate_key / load_score_midi.

Oracle (the statement, clause by clause; reference code in mc/c17_ref.py):
  spelling   every row gets step in A..G, integer alter with |alter| <= 2, integer octave and
             12*(octave+1) + pc(step) + alter == MIDI pitch; for every permutation of the rows the
             multiset of spellings given to rows of equal (onset, pitch) is the same (such rows
             cannot be told apart, so they are compared as a multiset); same input twice -> same output.
  voices     a 1-d integer array with one entry per row, all >= 1, set of values = {1..k}; with
             monophonic_voices=False rows with identical (onset, duration) have equal voices.
  key        a valid key name; where the Krumhansl-Schmuckler winner is defined (pitch-class
             distribution not constant, best correlation > second best by 1e-9 in the exact
             reference) the answer is unchanged by shifting all pitches by octaves and by
             multiplying all durations by an exactly representable factor, transposing by k moves
             the tonic pitch class by k and keeps the mode, and the answer is the reference winner
             for the selected profile set; all of this also after any history of earlier queries in
             the same process; a ranked answer (return_sorted_keys=True) is a sequence of valid key
             names whose first entry is the reference winner where that is defined.
  importer   load_score_midi(...) with every combination of estimate_voice_info / estimate_key
             returns a score whose notes (tie chains merged) have exactly the file's multiset of
             MIDI pitches, each pitch on the note (start tick, end tick) it has in the file; with
             estimate_key the parts carry the estimated key at time 0; with estimated voices every
             note has a positive voice, and under the assign modes that give no voices (1, 3, 4, 5)
             the stored voices partition the notes of every part exactly as the voices estimate_voices
             returned to the importer for the file's note array do (partitions, not numbers; tied
             continuations stay in the voice of their head).
"""
import itertools
import os
import tempfile
from collections import Counter
from fractions import Fraction

import numpy as np

from mc.core import CaseResult, Space, run_check, guarded, block_of
from mc import c17_ref as R

PID = "C17"
RULE = (
    "every multiset of <=k rows over the stated alphabets (rows = onset, duration, pitch) is one case "
    "and is evaluated under every distinct row permutation (k<=4) or five fixed permutations (longer "
    "inputs); periodic families are enumerated for every length; cases are distinct by construction; "
    "non-trivial = more than one row, or (key) a defined winner, or (importer) an estimation option on"
)
ASSUMPTIONS = [
    "rows with equal (onset, pitch) are indistinguishable for pitch spelling: order independence is compared per multiset of such rows",
    "key: 'the estimated key' is defined only where the best profile correlation is finite and exceeds the second best by 1e-9 in the exact reference (1e-4 for the layout with inexact float32 durations); elsewhere only the validity of the name is asserted",
    "key: profile tables are data read from partitura.utils.globals; the reference correlation is computed independently in exact arithmetic; profile names used are the ones accepted by both estimate_key and ks_kid (krumhansl_kessler, temperley, kostka_payne, kp, default)",
    "key: duration rescaling uses exactly representable factors (1/4, 1/2, 2, 3) so that float32 columns stay exact",
    "valid key names = the 15 major and 15 minor key-signature names (liberal reading)",
    "key: with return_sorted_keys=True 'the estimated key' is the first entry of the returned ranking; of the other entries only validity of the name is asserted (their order is not compared)",
    "key: the answer to a query is a function of that query alone: the clauses are asserted on a probe after every enumerated history of earlier plain/ranked queries in the same process",
    "importer: no two equal pitches touch or overlap inside one (track, channel) (note pairing is C04's subject); onsets/durations are whole quarters and serve only to identify which note carries which pitch; tie chains count once and every chain member must have the pitch of its head",
    "importer: estimate_voice_info fills voices only where the assign mode gives none (the code's reading of the docstring)",
    "importer: the voices estimated for the file are observed at the importer's own call analysis.estimate_voices(note_array) through a pass-through recorder (estimate_voices is not a pure function of its input: streams are ordered through a set of objects, so results on inputs with ties vary between calls and cannot be recomputed); the recorded (onset_div, pitch, duration_div) rows must be exactly the file's notes in ticks, otherwise (or without exactly one such call) the partition clause gives no verdict (outcome partition=unobserved)",
    "importer: stored voices are compared per part (notes sharing a part under modes 1/5 = same track and channel, 3 = same track, 4 = all), as partitions; notes equal in onset, duration and pitch are interchangeable",
    "mido (MIDI file format) and numpy are trusted",
]
CHUNK = 12


# ---------------------------------------------------------------------------------------------
# spelling


def _check_spelling(res, sp, prows, ctx):
    """Well-formedness and pitch preservation of one result; returns {row: sorted spellings}."""
    n = len(prows)
    names = getattr(getattr(sp, "dtype", None), "names", None)
    if not isinstance(sp, np.ndarray) or names is None or not all(f in names for f in ("step", "alter", "octave")):
        res.fail("spelling-well-formed", expected="structured array with step, alter, octave",
                 observed=repr(sp)[:200], where="estimate_spelling", detail=ctx)
        return None
    if sp.shape != (n,):
        res.fail("spelling-one-per-note", expected=[n], observed=list(sp.shape), where="estimate_spelling", detail=ctx)
        return None
    by = {}
    for i, row in enumerate(prows):
        step, alter, octave = sp["step"][i], sp["alter"][i], sp["octave"][i]
        step = str(step)
        try:
            fa, fo = float(alter), float(octave)
        except Exception:
            fa = fo = float("nan")
        if step not in R.STEP_PC or fa != fa or fo != fo or fa != int(fa) or fo != int(fo):
            res.fail("spelling-well-formed", expected="step in A..G, integer alter and octave",
                     observed=[step, repr(alter), repr(octave)], where="estimate_spelling", detail="%s row %d" % (ctx, i))
            return None
        a, o = int(fa), int(fo)
        snd = R.sounding_pitch(step, a, o)
        if snd != row[2]:
            res.fail("spelling-sounds-midi-pitch", expected=row[2], observed=dict(step=step, alter=a, octave=o, sounds=snd),
                     where="estimate_spelling", detail="%s row %d" % (ctx, i))
        if abs(a) > 2:
            res.fail("spelling-at-most-double-accidental", expected="|alter| <= 2", observed=dict(step=step, alter=a, octave=o),
                     where="estimate_spelling", detail="%s row %d" % (ctx, i))
        # ps13 sees onset and pitch only: rows equal in both are indistinguishable to it
        by.setdefault((row[0], row[2]), []).append((step, a, o))
    return {k: sorted(v) for k, v in by.items()}


def eval_spell(case):
    from partitura.musicanalysis import estimate_spelling

    rows, layout = case["rows"], case["layout"]
    k = len(rows)
    res = CaseResult(states=0, transitions=0, traces=0)
    perms = R.distinct_permutations(k, rows, case.get("perms", "all"))
    base = None
    names = set()
    for perm in perms:
        prows = [rows[i] for i in perm]
        arr, _, _ = R.build_array(prows, layout)
        ctx = "layout=%s rows=%r" % (layout, prows)
        res.transitions += 1
        ok, sp = guarded(res, "spelling-total", estimate_spelling, arr)
        if not ok:
            res.violations[-1]["detail"] = ctx
            break
        res.states += 1
        res.traces += 1
        by = _check_spelling(res, sp, prows, ctx)
        if by is None or res.violations:
            break
        if base is None:
            base = by
            for v in by.values():
                names.update(v)
            # same input twice (stale state between calls)
            arr2, _, _ = R.build_array(prows, layout)
            res.transitions += 1
            ok, sp2 = guarded(res, "spelling-total", estimate_spelling, arr2)
            if ok:
                by2 = _check_spelling(res, sp2, prows, ctx + " (second call)")
                if by2 is not None and by2 != by:
                    res.fail("spelling-order-independent", expected=_fmt_by(by), observed=_fmt_by(by2),
                             where="estimate_spelling", detail="same input twice: " + ctx)
        elif by != base:
            res.fail("spelling-order-independent", expected=_fmt_by(base), observed=_fmt_by(by),
                     where="estimate_spelling", detail="%s vs first order %r" % (ctx, rows))
            break
    res.nontrivial = k > 1
    alts = sorted(set(a for _, a, _ in names))
    res.outcome = "spell n=%s alters=%s" % ("1" if k == 1 else ("2-5" if k <= 5 else ">5"), alts)
    return res


def _fmt_by(by):
    return [[list(k), [list(x) for x in v]] for k, v in sorted(by.items())]


# ---------------------------------------------------------------------------------------------
# voices


def _check_voices(res, v, arr, oc, dc, mono, ctx):
    n = len(arr)
    mode = "monophonic" if mono else "chord"
    if not isinstance(v, np.ndarray):
        try:
            v = np.asarray(v)
        except Exception:
            res.fail("voices-one-per-note", expected="array of %d voices" % n, observed=repr(v)[:200],
                     where="estimate_voices", detail=ctx)
            return None
    if v.shape != (n,):
        res.fail("voices-one-per-note", expected=[n], observed=list(v.shape), where="estimate_voices", detail="%s %s" % (mode, ctx))
        return None
    if v.dtype.kind not in "iu":
        if v.dtype.kind != "f" or not np.all(np.isfinite(v)) or not np.all(v == np.round(v)):
            res.fail("voices-positive-integers", expected="integers >= 1", observed=v.tolist(), where="estimate_voices",
                     detail="%s %s" % (mode, ctx))
            return None
    vals = [int(x) for x in v.tolist()]
    if min(vals) < 1:
        res.fail("voices-positive-integers", expected="integers >= 1", observed=vals, where="estimate_voices",
                 detail="%s %s" % (mode, ctx))
        return vals
    if sorted(set(vals)) != list(range(1, max(vals) + 1)):
        res.fail("voices-numbered-from-1-without-gaps", expected="set of voices = {1..%d}" % len(set(vals)), observed=vals,
                 where="estimate_voices", detail="%s %s" % (mode, ctx))
    if not mono:
        seen = {}
        for i in range(n):
            key = (float(arr[oc][i]), float(arr[dc][i]))
            if seen.setdefault(key, vals[i]) != vals[i]:
                res.fail("voices-chord-mode-same-voice", expected="equal voices for rows with onset=%r duration=%r" % key,
                         observed=vals, where="estimate_voices", detail=ctx)
                break
    return vals


def eval_voices(case):
    from partitura.musicanalysis import estimate_voices

    rows, layout = case["rows"], case["layout"]
    k = len(rows)
    res = CaseResult(states=0, transitions=0, traces=0)
    perms = R.distinct_permutations(k, rows, case.get("perms", "all"))
    nv = set()
    first = True
    for perm in perms:
        prows = [rows[i] for i in perm]
        for mono in (True, False):
            arr, oc, dc = R.build_array(prows, layout)
            ctx = "layout=%s monophonic_voices=%r rows=%r" % (layout, mono, prows)
            res.transitions += 1
            ok, v = guarded(res, "voices-total", estimate_voices, arr, monophonic_voices=mono)
            if not ok:
                res.violations[-1]["detail"] = ctx
                continue
            res.states += 1
            res.traces += 1
            vals = _check_voices(res, v, arr, oc, dc, mono, ctx)
            if vals:
                nv.add(max(vals))
            if first and vals and not res.violations and case.get("twice", True):
                # default mode argument and repeatability (stale shared state between calls)
                arr2, _, _ = R.build_array(prows, layout)
                res.transitions += 1
                if mono:
                    ok, v2 = guarded(res, "voices-total", estimate_voices, arr2)
                else:
                    ok, v2 = guarded(res, "voices-total", estimate_voices, arr2, monophonic_voices=False)
                if ok:
                    _check_voices(res, v2, arr2, oc, dc, mono, ctx + " (second call)")
        first = False
        if res.violations:
            break
    res.nontrivial = k > 1
    zero = any(r[1] == 0 for r in rows)
    res.outcome = "voices n=%s zero-length=%s max=%s" % ("1" if k == 1 else ("2-5" if k <= 5 else ">5"), zero, sorted(nv))
    return res


# ---------------------------------------------------------------------------------------------
# key

KEY_PROFILES = ["krumhansl_kessler", "temperley", "kostka_payne"]
GAP = 1e-9


def _call_key(res, estimate_key, arr, prof, ctx):
    res.transitions += 1
    if prof is None:
        ok, name = guarded(res, "key-total", estimate_key, arr)
    else:
        ok, name = guarded(res, "key-total", estimate_key, arr, key_profiles=prof)
    if not ok:
        res.violations[-1]["detail"] = ctx
        return None
    res.states += 1
    if isinstance(name, np.str_):
        name = str(name)
    pk = R.parse_key(name)
    if pk is None:
        res.fail("key-valid-name", expected="one of the 30 key names", observed=repr(name)[:100], where="estimate_key", detail=ctx)
        return None
    return name, pk


def _ranked_query(res, estimate_key, rows, layout, prof, ctx):
    """estimate_key(..., return_sorted_keys=True): the candidates from the best to the worst.  The
    statement speaks of the estimated key only: every entry must be a valid key name and, where the
    winner is defined, the first entry (the estimate) must be the reference winner."""
    arr, _, dc = R.build_array(rows, layout)
    res.transitions += 1
    kw = {} if prof is None else {"key_profiles": prof}
    ok, names = guarded(res, "key-total", estimate_key, arr, return_sorted_keys=True, **kw)
    if not ok:
        res.violations[-1]["detail"] = ctx
        return None
    res.states += 1
    if isinstance(names, np.ndarray):
        names = names.tolist()
    if not isinstance(names, (list, tuple)) or len(names) == 0:
        res.fail("key-valid-name", expected="non-empty sequence of key names, best first", observed=repr(names)[:200],
                 where="estimate_key", detail=ctx)
        return None
    names = [str(x) if isinstance(x, np.str_) else x for x in names]
    bad = [repr(x)[:40] for x in names if R.parse_key(x) is None]
    if bad:
        res.fail("key-valid-name", expected="every ranked entry one of the 30 key names", observed=bad[:6], where="estimate_key", detail=ctx)
        return None
    weights = [Fraction(float(x)) for x in arr[dc]]
    best, gap, ranking = R.key_model([r[2] for r in rows], weights, R.profile_fractions(prof))
    res.traces += 1
    if best is not None and gap > (1e-4 if layout == "sec-odd" else GAP) and R.parse_key(names[0]) != best:
        res.fail("key-best-profile-correlation", expected="first ranked key: tonic pc %d %s (r=%.6f, next %.6f)" % (best[0], best[1], ranking[0][0], ranking[1][0]),
                 observed=names[:3], where="estimate_key", detail=ctx)
    return names


def _run_key_history(res, estimate_key, history, layout):
    """Earlier key queries made in the same process (plain or ranked, any profile set) before the
    probe of the case is evaluated: each must itself be valid; the clauses of the probe then show
    whether a query left anything behind."""
    done = []
    for hrows, hprof, ranked in history:
        ctx = "history query %d after %r: profiles=%r return_sorted_keys=%r layout=%s rows=%r" % (len(done) + 1, done, hprof, bool(ranked), layout, hrows)
        if ranked:
            _ranked_query(res, estimate_key, hrows, layout, hprof, ctx)
        else:
            arr, _, dc = R.build_array(hrows, layout)
            got = _call_key(res, estimate_key, arr, hprof, ctx)
            if got is not None:
                best, gap, ranking = R.key_model([r[2] for r in hrows], [Fraction(float(x)) for x in arr[dc]], R.profile_fractions(hprof))
                res.traces += 1
                if best is not None and gap > (1e-4 if layout == "sec-odd" else GAP) and got[1] != best:
                    res.fail("key-best-profile-correlation", expected="tonic pc %d %s" % best, observed=got[0], where="estimate_key", detail=ctx)
        done.append("%s(%s)" % ("ranked" if ranked else "plain", hprof))
    return done


def eval_key(case):
    from partitura.musicanalysis import estimate_key

    rows, layout = case["rows"], case["layout"]
    res = CaseResult(states=0, transitions=0, traces=0)
    hist = ""
    if case.get("history"):
        hist = " after queries %r" % (_run_key_history(res, estimate_key, case["history"], layout),)
    pitches = [r[2] for r in rows]
    lo, hi = min(pitches), max(pitches)
    defined = 0
    profs = list(case.get("profiles", KEY_PROFILES))
    extra = list(case.get("alias", []))
    winners = []
    for prof in profs + extra:
        arr, oc, dc = R.build_array(rows, layout)
        ctx0 = "profiles=%r layout=%s rows=%r%s" % (prof, layout, rows, hist)
        if case.get("ranked_probe") and prof in profs:
            # the ranked form of the same query first, so that the plain queries below come after it
            _ranked_query(res, estimate_key, rows, layout, prof, ctx0 + " return_sorted_keys=True")
        got = _call_key(res, estimate_key, arr, prof, ctx0)
        if got is None:
            continue
        name, (tonic, mode) = got
        weights = [Fraction(float(x)) for x in arr[dc]]
        best, gap, ranking = R.key_model(pitches, weights, R.profile_fractions(prof))
        res.traces += 1
        # float32 sums of inexact values (layout sec-odd) carry ~1e-6 relative error: wider margin
        is_def = best is not None and gap > (1e-4 if layout == "sec-odd" else GAP)
        if not is_def:
            continue
        defined += 1
        winners.append(name)
        if (tonic, mode) != best:
            res.fail("key-best-profile-correlation", expected="tonic pc %d %s (r=%.6f, next %.6f)" % (best[0], best[1], ranking[0][0], ranking[1][0]),
                     observed=name, where="estimate_key", detail=ctx0)
        if prof in extra:
            continue
        # octave shifts of the whole input
        shifts = [s for s in (12, -12, 24, -24, 36, -36) if lo + s >= 21 and hi + s <= 108][:2]
        for s in shifts:
            r2 = [[o, d, p + s] for o, d, p in reversed(rows)]
            a2, _, _ = R.build_array(r2, layout)
            g2 = _call_key(res, estimate_key, a2, prof, ctx0 + " shifted by %d" % s)
            if g2 is not None and g2[0] != name:
                res.fail("key-octave-invariant", expected=name, observed=g2[0], where="estimate_key",
                         detail="%s: all pitches shifted by %d" % (ctx0, s))
        # rescaling all durations
        for f in case.get("scales", (2, 0.5, 3)):
            if layout == "sec-odd" and f not in (2, 0.5, 0.25, 4):
                f = 4  # inexact float32 base values: only powers of two keep the proportions exact
            a2, _, _ = R.build_array(rows, layout, dur_scale=f)
            g2 = _call_key(res, estimate_key, a2, prof, ctx0 + " durations x %r" % f)
            if g2 is not None and g2[0] != name:
                res.fail("key-duration-scale-invariant", expected=name, observed=g2[0], where="estimate_key",
                         detail="%s: all durations multiplied by %r" % (ctx0, f))
        # transposition by every k = 1..11 (down by 12 - k where k does not fit the range)
        ks = case.get("transpositions", range(1, 12))
        if case.get("full_profile") not in (None, prof):
            ks = case["few"]
        for k in ks:
            s = k if hi + k <= 108 else k - 12
            if lo + s < 21 or hi + s > 108:
                continue
            r2 = [[o, d, p + s] for o, d, p in rows]
            a2, _, _ = R.build_array(r2, layout)
            g2 = _call_key(res, estimate_key, a2, prof, ctx0 + " transposed by %d" % s)
            if g2 is not None and g2[1] != ((tonic + s) % 12, mode):
                res.fail("key-transposition-equivariant",
                         expected="tonic pc %d %s" % ((tonic + s) % 12, mode), observed=g2[0], where="estimate_key",
                         detail="%s: estimated %s, then all pitches transposed by %d" % (ctx0, name, s))
    res.nontrivial = defined > 0
    res.outcome = "key defined=%d/%d %s" % (defined, len(profs) + len(extra), ",".join(sorted(set(winners)))[:40])
    if case.get("history") is not None:
        res.outcome = "key history=%d ranked=%d defined=%d/%d" % (
            len(case["history"]), sum(1 for h in case["history"] if h[2]), defined, len(profs) + len(extra))
    return res


# ---------------------------------------------------------------------------------------------
# MIDI importer


class _VoiceCallRecorder:
    """Pass-through observer of the importer's estimate_voices call (the property's mechanism
    "use by the MIDI score importer"): records the array passed and a copy of the voices returned.
    estimate_voices is not a function of its input alone where notes tie (streams are ordered through
    a set of objects), so the voices the importer got can only be observed, not recomputed."""

    def __init__(self):
        self.calls = []
        self.orig = None
        self.module = None

    def __enter__(self):
        import partitura.musicanalysis as A

        self.module = A
        self.orig = A.estimate_voices
        orig, calls = self.orig, self.calls

        def estimate_voices(note_info, *args, **kwargs):
            out = orig(note_info, *args, **kwargs)
            try:
                calls.append((np.array(note_info, copy=True), np.array(out, copy=True)))
            except Exception:
                calls.append((None, None))
            return out

        A.estimate_voices = estimate_voices
        return self

    def __exit__(self, *exc):
        self.module.estimate_voices = self.orig
        return False


def _recorded_rows(calls):
    """[((start tick, end tick, pitch), voice)] of the one recorded call, or None."""
    if len(calls) != 1 or calls[0][0] is None:
        return None
    arr, v = calls[0]
    names = getattr(arr.dtype, "names", None) or ()
    if not all(f in names for f in ("onset_div", "pitch", "duration_div")) or v.shape != arr.shape or v.dtype.kind not in "iu":
        return None
    return [((int(o), int(o) + int(d), int(p)), int(x)) for o, p, d, x in
            zip(arr["onset_div"].tolist(), arr["pitch"].tolist(), arr["duration_div"].tolist(), v.tolist())]


def _check_importer_partition(res, tracks, ppq, mode, part_voices, calls, ctx):
    """The voices stored in the score partition the notes of every part exactly as the voices that
    estimate_voices returned to the importer for the file's note array do (numbers are not compared;
    notes equal in onset, duration and pitch are interchangeable)."""
    for pv in part_voices:
        for key, v, cont in pv:
            if any(c != v for c in cont):
                res.fail("importer-estimated-voices-partition", expected="tied continuations in the voice of the note they continue",
                         observed=dict(note=list(key), voice=int(v), continuations=[int(c) for c in cont]),
                         where="load_score_midi", detail=ctx)
                return " partition=tie"
    rows = _recorded_rows(calls)
    notes = R.file_note_order(tracks, ppq)
    fkeys = [(o, o + d, p) for o, p, d, _, _ in notes]
    if rows is None or Counter(k for k, _ in rows) != Counter(fkeys):
        # the importer estimated voices in another way than one call on the file's (onset_div, pitch,
        # duration_div) rows: nothing to compare the stored voices with
        return " partition=unobserved"
    groups = [R.part_group_of(mode, tr, ch) for _, _, _, tr, ch in notes]
    observed = Counter(R.canon_partition([k for k, _, _ in pv], [int(v) for _, v, _ in pv]) for pv in part_voices)
    # estimated voice of every file note: rows and notes of equal key are interchangeable, so every
    # distinct way of handing the voices of such rows to the notes of that key is tried
    idx_by_key, voices_by_key = {}, {}
    for i, k in enumerate(fkeys):
        idx_by_key.setdefault(k, []).append(i)
    for k, v in rows:
        voices_by_key.setdefault(k, []).append(v)
    options = []
    total = 1
    for k in sorted(idx_by_key):
        vs = voices_by_key[k]
        if len(set(vs)) == 1 or len(set(groups[i] for i in idx_by_key[k])) == 1:
            opts = [tuple(vs)]
        else:
            opts = sorted(set(itertools.permutations(vs)))
        total *= len(opts)
        options.append((idx_by_key[k], opts))
    if total > 2000:
        return " partition=ambiguous"
    first = None
    for choice in itertools.product(*[opts for _, opts in options]):
        lab = [None] * len(notes)
        for (idxs, _), vs in zip(options, choice):
            for i, v in zip(idxs, vs):
                lab[i] = v
        by_group = {}
        for i, g in enumerate(groups):
            by_group.setdefault(g, []).append(i)
        expected = Counter(R.canon_partition([fkeys[i] for i in g], [lab[i] for i in g]) for g in by_group.values())
        if first is None:
            first = expected
        if expected == observed:
            return " partition=ok/%d" % min(len(set(v for _, v in rows)), 3)
    res.fail("importer-estimated-voices-partition",
             expected=_fmt_partitions(first), observed=_fmt_partitions(observed), where="load_score_midi",
             detail="notes (start tick, end tick, pitch) of each part grouped by stored voice vs grouped by the voice "
                    "estimate_voices returned for them (rows %r); %s" % ([[list(k), v] for k, v in rows][:12], ctx))
    return " partition=differs"


def _fmt_partitions(counter):
    return [[[list(k) for k in block] for block in part] for part in sorted(counter.elements())]


def eval_midi(case):
    import partitura.score as S
    from partitura.io.importmidi import load_score_midi

    tracks, ppq = case["tracks"], case["ppq"]
    mode, ev, ek = case["mode"], case["voices"], case["key"]
    res = CaseResult(states=0, transitions=1, traces=1)
    fd, path = tempfile.mkstemp(prefix="c17-", suffix=".mid")  # removed again below, nothing is left behind
    os.close(fd)
    R.write_midi(path, tracks, ppq)
    ctx = "part_voice_assign_mode=%d estimate_voice_info=%r estimate_key=%r ppq=%d tracks=%r" % (mode, ev, ek, ppq, tracks)
    rec = _VoiceCallRecorder()
    try:
        with rec:
            ok, sc = guarded(res, "importer-total", load_score_midi, path, part_voice_assign_mode=mode,
                             estimate_voice_info=ev, estimate_key=ek)
    finally:
        try:
            os.remove(path)
        except OSError:
            pass
    res.outcome = "midi mode=%d voices=%r key=%r" % (mode, ev, ek)
    res.nontrivial = bool(ev or ek)
    if not ok:
        res.violations[-1]["detail"] = ctx
        res.outcome += " exception"
        return res
    res.states = 1
    want = Counter(p for notes in tracks for _, _, _, p in notes)
    want_at = Counter((o * ppq, (o + d) * ppq, p) for notes in tracks for _, o, d, p in notes)
    got = Counter()
    got_at = Counter()
    voices_bad = []
    chain_bad = []
    part_voices = []  # per part: [(start tick, end tick, pitch), voice of the head, voices of tied continuations]
    keys = []
    parts = list(sc.parts)
    for part in parts:
        pv = []
        part_voices.append(pv)
        for n in part.iter_all(S.Note, include_subclasses=True):
            if n.tie_prev is None:
                got[int(n.midi_pitch)] += 1
                m = n.tie_next
                last = n
                hops = 0
                cont = []
                while m is not None and hops < 1000:
                    if int(m.midi_pitch) != int(n.midi_pitch):
                        chain_bad.append((int(n.midi_pitch), int(m.midi_pitch)))
                    cont.append(m.voice)
                    last = m
                    m = m.tie_next
                    hops += 1
                got_at[(int(n.start.t), int(last.end.t), int(n.midi_pitch))] += 1
                pv.append(((int(n.start.t), int(last.end.t), int(n.midi_pitch)), n.voice, cont))
            if not (isinstance(n.voice, (int, np.integer)) and n.voice >= 1):
                voices_bad.append((n.id, n.voice))
        keys.append([(ks.start.t, ks.fifths, ks.mode) for ks in part.iter_all(S.KeySignature)])
    if got != want or chain_bad:
        res.fail("importer-exactly-the-file-pitches", expected=sorted(want.elements()),
                 observed=dict(pitches=sorted(got.elements()), tied_continuations_with_other_pitch=chain_bad),
                 where="load_score_midi", detail=ctx)
    elif got_at != want_at:
        # same multiset of pitches, but a pitch ended up on another note of the file
        res.fail("importer-pitch-stays-with-its-note", expected=sorted(want_at.elements()), observed=sorted(got_at.elements()),
                 where="load_score_midi", detail="(start tick, end tick, pitch) per note, tie chains merged; " + ctx)
    if ev and voices_bad:
        res.fail("importer-estimated-voices-positive", expected="every note has a voice >= 1", observed=voices_bad[:6],
                 where="load_score_midi", detail=ctx)
    if ev and mode in R.NO_VOICE_MODES and not res.violations:
        res.outcome += _check_importer_partition(res, tracks, ppq, mode, part_voices, rec.calls, ctx)
    if ek:
        # the key of all notes of the file, durations in ticks
        allnotes = [n for notes in tracks for n in notes]
        best, gap, ranking = R.key_model([p for _, _, _, p in allnotes], [Fraction(d * ppq) for _, _, d, _ in allnotes],
                                         R.profile_fractions(None))
        for pk in keys:
            if len(pk) != 1 or pk[0][0] != 0:
                res.fail("importer-estimated-key-signature", expected="one key signature per part, at time 0", observed=pk,
                         where="load_score_midi", detail=ctx)
                break
            t, fifths, kmode = pk[0]
            kmode = kmode or "major"
            if best is not None and gap > GAP and (R.fifths_mode_to_tonic(fifths, kmode), kmode) != best:
                res.fail("importer-estimated-key-signature", expected="tonic pc %d %s" % best,
                         observed=dict(fifths=fifths, mode=kmode), where="load_score_midi", detail=ctx)
                break
    res.outcome += " parts=%d" % len(parts)
    return res


# ---------------------------------------------------------------------------------------------


def eval_case(case):
    kind = case["k"]
    if kind == "spell":
        return eval_spell(case)
    if kind == "voices":
        return eval_voices(case)
    if kind == "key":
        return eval_key(case)
    if kind == "midi":
        return eval_midi(case)
    raise ValueError(kind)


# ---------------------------------------------------------------------------------------------
# generators

SP_PITCH = [21, 60, 61, 66, 70, 108]
VO_PITCH = [0, 60, 61, 127]
ON = [0, 1, 2]
DU = [0, 1, 2]


def _cycle_layout(i, layouts=R.LAYOUTS):
    return layouts[i % len(layouts)]


def gen_spell_small(kmax, quick_block=None, kmin=1):
    """multisets of <= kmax rows; onset x pitch full, duration cycled (it is not an input of ps13)."""
    def g():
        i = 0
        cells = [(o, p) for o in ON for p in SP_PITCH]
        for k in range(kmin, kmax + 1):
            for combo in itertools.combinations_with_replacement(cells, k):
                rows = [[o, DU[(i + j) % 3], p] for j, (o, p) in enumerate(combo)]
                case = dict(k="spell", rows=rows, layout=_cycle_layout(i), perms="all")
                i += 1
                if quick_block is not None and k == kmax and block_of(case, quick_block[0]) != quick_block[1]:
                    continue
                yield case
    return g


def gen_spell_pairs():
    def g():
        i = 0
        for p in range(21, 109):
            for q in range(21, 109):
                for onsets in ((0, 1), (0, 0)):
                    if onsets == (0, 0) and q < p:
                        continue  # same multiset as (q, p)
                    rows = [[onsets[0], 1, p], [onsets[1], 1 + (i % 2), q]]
                    yield dict(k="spell", rows=rows, layout=_cycle_layout(i), perms="all")
                    i += 1
    return g


def gen_spell_context(positions, quick_block=None):
    """two context pitch classes (all 144) and a third note at every pitch 21..108, placed before,
    between or after the context (the first note in onset order fixes the initial morph)."""
    def g():
        i = 0
        for a in range(60, 72):
            for b in range(60, 72):
                for p in range(21, 109):
                    for pos in positions(i):
                        on = {0: (1, 2, 0), 1: (0, 2, 1), 2: (0, 1, 2), 3: (0, 0, 0)}[pos]
                        rows = [[on[0], 1, a], [on[1], 1, b], [on[2], 1, p]]
                        case = dict(k="spell", rows=rows, layout=_cycle_layout(i), perms="all")
                        if quick_block is not None and block_of(case, quick_block[0]) != quick_block[1]:
                            continue
                        yield case
                    i += 1
    return g


def gen_spell_tonic(mult=4):
    """first note c0 (12 pitch classes), a dominant pitch class repeated `mult` times (12), and a
    probe note at every pitch 21..108: reaches the extreme spellings (double accidentals, names whose
    octave differs from the octave of the sounding pitch) that need a weighted context."""
    def g():
        i = 0
        for c0 in range(60, 72):
            for t in range(60, 72):
                for p in range(21, 109):
                    rows = [[0, 1, c0]] + [[1 + j, 1, t] for j in range(mult)] + [[1 + mult, 1, p]]
                    yield dict(k="spell", rows=rows, layout=_cycle_layout(i), perms="some")
                    i += 1
    return g


def gen_spell_chroma(n, quick_block=None):
    """every sequence of n pitch classes (octave 60..71), one note per onset."""
    def g():
        i = 0
        for seq in itertools.product(range(60, 72), repeat=n):
            rows = [[j, 1, p] for j, p in enumerate(seq)]
            case = dict(k="spell", rows=rows, layout=_cycle_layout(i), perms="some")
            i += 1
            if quick_block is not None and block_of(case, quick_block[0]) != quick_block[1]:
                continue
            yield case
    return g


MOTIFS = [[60, 61], [66, 70], [21, 108], [60, 66, 61], [70, 61, 108], [21, 66, 60]]
TIME_SHAPES = ["seq", "chords3", "same", "overlap", "grace"]


def _periodic_rows(motif, shape, n):
    rows = []
    for i in range(n):
        p = motif[i % len(motif)]
        if shape == "seq":
            rows.append([i, 1, p])
        elif shape == "chords3":
            rows.append([i // 3, 1, p])
        elif shape == "same":
            rows.append([0, 1, p])
        elif shape == "overlap":  # two interleaved layers with long and short notes
            rows.append([i // 2, 3 if i % 2 else 1, p + (12 if (i % 2 and p <= 96) else 0)])
        elif shape == "grace":  # every third note has zero duration
            rows.append([i // 2, 0 if i % 3 == 2 else 2, p])
    return rows


def gen_periodic(kind, lengths, shapes, motifs=MOTIFS, twice=False):
    def g():
        i = 0
        for mi, motif in enumerate(motifs):
            for shape in shapes:
                for n in lengths:
                    rows = _periodic_rows(motif, shape, n)
                    # inputs of several hundred rows: two row orders (cost), otherwise five
                    c = dict(k=kind, rows=rows, layout=_cycle_layout(i), perms="some" if n <= 120 else "two")
                    if kind == "voices":
                        c["twice"] = twice
                    yield c
                    i += 1
    return g


LONG_SHAPES = ["seq", "chord", "same"]


def long_families(quick):
    """(family, motifs, lengths): passages of low pitch-class variety, long enough for the running
    count of one pitch class to pass 127/128 (8-bit signed) and 255/256 (8-bit unsigned) inside the
    K_pre/K_post context of some note.  Lengths are the numbers of rows."""
    one = [255, 256, 257, 258, 266, 296, 297, 300, 400, 513, 600, 800] if quick else \
        list(range(120, 140)) + list(range(250, 310)) + [400, 500] + list(range(505, 530)) + [600, 700, 800, 900]
    two = [512, 513, 600] if quick else [256, 300, 511, 512, 513, 514, 552, 553, 600, 900]
    four = [512, 520, 800] if quick else [511, 512, 513, 520, 552, 600, 800, 900]
    fams = [
        ("repeated note", [[p] for p in range(60, 72)] + [[21], [108]], one),
        ("octave tremolo", [[p, p + 12] for p in range(48, 60)] + [[21, 105], [108, 24]], one),
        ("tremolo", [[60 + a, 60 + a + iv] for a in range(12) for iv in range(1, 12)], two),
        ("alberti", [[48 + r, 55 + r, 51 + r + maj, 55 + r] for r in range(12) for maj in (1, 0)], four),
    ]
    return fams


def _long_rows(motif, shape, n):
    m = len(motif)
    if shape == "seq":
        return [[i, 1, motif[i % m]] for i in range(n)]
    if shape == "chord":  # the motif as a repeated chord (repeated note: pairs of simultaneous notes)
        return [[i // max(m, 2), 1, motif[i % m]] for i in range(n)]
    return [[0, 1, motif[i % m]] for i in range(n)]  # all simultaneous


def gen_spell_long(quick):
    """shape: every one of LONG_SHAPES (thorough) / cycled over the cases (quick)."""
    def g():
        i = 0
        for fam, motifs, lengths in long_families(quick):
            for motif in motifs:
                for n in lengths:
                    shapes = [LONG_SHAPES[i % 3]] if quick else LONG_SHAPES
                    for shape in shapes:
                        yield dict(k="spell", rows=_long_rows(motif, shape, n), layout=_cycle_layout(i), perms="two", family=fam)
                    i += 1
    return g


def gen_voices_small(kmax, pitches, perms="all", kmin=1, quick_block=None, layouts=R.LAYOUTS):
    def g():
        i = 0
        cells = [(o, d, p) for o in ON for d in DU for p in pitches]
        for k in range(kmin, kmax + 1):
            for rows in R.multisets(cells, k):
                case = dict(k="voices", rows=rows, layout=_cycle_layout(i, layouts), perms=perms, twice=(k <= 2))
                i += 1
                if quick_block is not None and k == kmax and block_of(case, quick_block[0]) != quick_block[1]:
                    continue
                yield case
    return g


def gen_key_small(kmax, quick_block=None, kmin=1, full=False):
    """multisets of <= kmax (pitch, duration) rows; onsets cycled (not an input of the method)."""
    def g():
        i = 0
        cells = [(p, d) for p in SP_PITCH for d in DU]
        for k in range(kmin, kmax + 1):
            for combo in itertools.combinations_with_replacement(cells, k):
                rows = [[ON[(i + j) % 3], d, p] for j, (p, d) in enumerate(combo)]
                case = dict(k="key", rows=rows, layout=_cycle_layout(i))
                if not full:
                    # all 11 transpositions for one profile set (cycled), three for the other two
                    case["full_profile"] = KEY_PROFILES[i % 3]
                    case["few"] = [[1, 6, 11], [2, 5, 9], [3, 7, 10], [4, 8, 1]][i % 4]
                    case["scales"] = [[2, 0.5], [3, 0.25], [0.5, 3]][i % 3]
                if i % 4 == 0:
                    case["alias"] = ["kp", None]
                i += 1
                if quick_block is not None and k == kmax and block_of(case, quick_block[0]) != quick_block[1]:
                    continue
                yield case
    return g


def gen_key_pcsets(maxsize, weights, heavy=3):
    """every pitch-class set of size <= maxsize (octave 60..71) with every assignment of the given
    weights; transpositions 1, 5 and 11 (the other tonics are other cases of the same space)."""
    def g():
        i = 0
        for size in range(1, maxsize + 1):
            for pcs in itertools.combinations(range(12), size):
                for ws in itertools.product(weights, repeat=size):
                    if size == 3 and sum(1 for w in ws if w != 1) > heavy:
                        continue
                    rows = [[j, w, 60 + pc] for j, (pc, w) in enumerate(zip(pcs, ws))]
                    yield dict(k="key", rows=rows, layout=_cycle_layout(i), transpositions=[1, 5, 11], scales=[2, 0.25],
                               profiles=KEY_PROFILES)
                    i += 1
    return g


def gen_key_periodic(lengths):
    def g():
        i = 0
        for motif in MOTIFS + [[60, 62, 64, 65, 67, 69, 71], [57, 59, 60, 62, 64, 65, 68]]:
            for n in lengths:
                rows = [[j, 1 + (j % 3 == 0), motif[j % len(motif)]] for j in range(n)]
                yield dict(k="key", rows=rows, layout=_cycle_layout(i), transpositions=[2, 7], scales=[3],
                           profiles=[KEY_PROFILES[i % 3]])
                i += 1
    return g


# probes and earlier inputs of the query histories: [pitch, duration] rows of tonally clear material
KEY_PROBES = [
    [[60, 2], [64, 1], [67, 1]],                                            # major triad
    [[57, 2], [60, 1], [64, 1]],                                            # minor triad
    [[62, 4], [64, 1], [66, 2], [67, 1], [69, 3], [71, 1], [73, 1]],        # major scale, weighted
    [[57, 4], [59, 1], [60, 2], [62, 1], [64, 3], [65, 1], [68, 1]],        # harmonic minor scale, weighted
    [[66, 1]],                                                              # one note
    [[61, 2], [68, 1]],                                                     # fifth
    [[58, 1], [62, 1], [65, 1], [68, 2]],                                   # dominant seventh chord
    [[63, 3], [66, 1], [70, 2], [75, 0]],                                   # minor triad with a zero-length note
]
HIST_PROFILES = KEY_PROFILES + [None]


def gen_key_history(depth, probes, quick_block=None):
    """every history of 0..depth earlier queries over the alphabet {plain, ranked} x {3 profile sets,
    default} (8 letters), followed by the full clause set on a probe input."""
    def g():
        letters = [(ranked, prof) for ranked in (False, True) for prof in HIST_PROFILES]
        i = 0
        for pi, probe in enumerate(probes):
            rows = [[j, d, p] for j, (p, d) in enumerate(probe)]
            for m in range(depth + 1):
                for word in itertools.product(letters, repeat=m):
                    history = []
                    for j, (ranked, prof) in enumerate(word):
                        # earlier inputs: the other probes in turn, transposed by 3, 6, ... semitones
                        src = probes[(pi + 1 + j) % len(probes)]
                        history.append([[[jj, d, p + 3 * (j + 1)] for jj, (p, d) in enumerate(src)], prof, ranked])
                    case = dict(k="key", rows=rows, layout=_cycle_layout(i), history=history, ranked_probe=(i % 2 == 0),
                                transpositions=[[1, 6, 11], [2, 5, 9], [3, 7, 10], [4, 8]][i % 4], scales=[[2], [0.5], [3]][i % 3],
                                profiles=KEY_PROFILES)
                    i += 1
                    if quick_block is not None and m == depth and block_of(case, quick_block[0]) != quick_block[1]:
                        continue
                    yield case
    return g


MIDI_PITCH = [21, 60, 61, 108]
OPTS = [(False, False), (True, False), (False, True), (True, True)]


def _split(rows, how):
    """rows [o, d, p] -> tracks of [ch, o, d, p]"""
    if how == "single":
        return [[[0, o, d, p] for o, d, p in rows]]
    if how == "two-ch":
        return [[[j % 2, o, d, p] for j, (o, d, p) in enumerate(rows)]]
    if how == "two-tr":
        a = [[0, o, d, p] for j, (o, d, p) in enumerate(rows) if j % 2 == 0]
        b = [[1, o, d, p] for j, (o, d, p) in enumerate(rows) if j % 2 == 1]
        return [t for t in (a, b) if t]
    raise ValueError(how)


def gen_midi(kmin, kmax, pitches, plans, quick_block=None, block_splits=("single", "two-ch", "two-tr")):
    """plans: list of (split, modes)."""
    def g():
        cells = [(o, d, p) for o in ON for d in DU for p in pitches]
        for k in range(kmin, kmax + 1):
            for rows in R.multisets(cells, k):
                for how, modes in plans:
                    if how != "single" and k < 2:
                        continue
                    tracks = _split(rows, how)
                    if not R.midi_precondition(tracks):
                        continue
                    for mode in modes:
                        for ev, ek in OPTS:
                            case = dict(k="midi", tracks=tracks, ppq=4, mode=mode, voices=ev, key=ek)
                            if quick_block is not None and how in block_splits and block_of(case, quick_block[0]) != quick_block[1]:
                                continue
                            yield case
    return g


def gen_midi_periodic(lengths):
    def g():
        i = 0
        for motif in MOTIFS[:4]:
            for shape in ("seq", "chords3", "overlap", "grace"):
                for n in lengths:
                    rows = _periodic_rows(motif, shape, n)
                    how = ["single", "two-ch", "two-tr"][i % 3]
                    tracks = _split(rows, how)
                    i += 1
                    if not R.midi_precondition(tracks):
                        continue
                    ev, ek = OPTS[1 + i % 3]
                    yield dict(k="midi", tracks=tracks, ppq=[4, 480, 6][i % 3], mode=[4, 0, 2, 5, 3, 1][i % 6], voices=ev, key=ek)
    return g


VOICE_PITCH = [48, 60, 72]
NV_MODES = list(R.NO_VOICE_MODES)


def gen_midi_voices(kmax, pitches, all_modes_upto, quick_block=None):
    """estimate_voice_info=True under the assign modes that give no voices: all multisets of
    1..kmax notes, three track/channel splits; every no-voice mode for <= all_modes_upto notes,
    the mode cycled for more notes; estimate_key cycled."""
    def g():
        i = 0
        cells = [(o, d, p) for o in ON for d in DU for p in pitches]
        for k in range(1, kmax + 1):
            for rows in R.multisets(cells, k):
                for how in ("single", "two-ch", "two-tr"):
                    if how != "single" and k < 2:
                        continue
                    tracks = _split(rows, how)
                    if not R.midi_precondition(tracks):
                        continue
                    modes = NV_MODES if k <= all_modes_upto else [NV_MODES[i % 4]]
                    for mode in modes:
                        case = dict(k="midi", tracks=tracks, ppq=4, mode=mode, voices=True, key=(i % 3 == 0))
                        i += 1
                        if quick_block is not None and k > all_modes_upto and block_of(case, quick_block[0]) != quick_block[1]:
                            continue
                        yield case
    return g


LINE_BASE = [72, 48, 60]
LINE_STEPS = [0, 2, 4, 5]
LINE_SPLITS = ["single", "line-ch", "line-tr", "alt-ch"]


def gen_midi_lines(shapes, full_shapes=()):
    """polyphonic textures: L lines (line l around pitch LINE_BASE[l], step t at LINE_BASE[l] +
    LINE_STEPS[t]) over T onsets; every cell is a rest, a quarter, a half note (overlapping the next
    onset) or a zero-length note: all 4^(L*T) textures with at least one note."""
    def g():
        i = 0
        for L, T in shapes:
            for cells in itertools.product((None, 1, 2, 0), repeat=L * T):
                notes = []  # (line, onset, duration, pitch)
                for l in range(L):
                    for t in range(T):
                        d = cells[l * T + t]
                        if d is not None:
                            notes.append((l, t, d, LINE_BASE[l] + LINE_STEPS[t]))
                if not notes:
                    continue
                notes.sort(key=lambda x: (x[1], x[0]))
                combos = [(h, m) for h in LINE_SPLITS for m in NV_MODES]
                if (L, T) not in full_shapes:
                    combos = [combos[i % len(combos)]]
                for how, mode in combos:
                    if how == "single":
                        tracks = [[[0, o, d, p] for l, o, d, p in notes]]
                    elif how == "line-ch":
                        tracks = [[[l, o, d, p] for l, o, d, p in notes]]
                    elif how == "alt-ch":
                        tracks = [[[j % 2, o, d, p] for j, (l, o, d, p) in enumerate(notes)]]
                    else:
                        tracks = [[[0, o, d, p] for l, o, d, p in notes if l == ll] for ll in range(L)]
                        tracks = [t for t in tracks if t]
                    if not R.midi_precondition(tracks):
                        continue
                    yield dict(k="midi", tracks=tracks, ppq=[4, 480, 6][i % 3], mode=mode, voices=True, key=(i % 5 == 0))
                i += 1
    return g


def spaces(tier, seed):
    quick = tier == "quick"
    sp = []
    L120 = list(range(1, 121)) + [150, 200, 300]
    if quick:
        sp.append(Space("spell-small", gen_spell_small(4), True,
                        "all multisets of 1..4 rows, onset {0,1,2} x pitch {21,60,61,66,70,108}, durations {0,1,2} and 8 array layouts cycled; every distinct row permutation"))
        sp.append(Space("spell-five", gen_spell_small(5, (48, seed % 48), kmin=5), True,
                        "as spell-small with 5 rows: hash block seed%48 of 48 of the 5-row multisets, every permutation"))
    else:
        sp.append(Space("spell-small", gen_spell_small(5), True,
                        "all multisets of 1..5 rows, onset {0,1,2} x pitch {21,60,61,66,70,108}, durations/layouts cycled; every distinct row permutation"))
    sp.append(Space("spell-pairs", gen_spell_pairs(), True,
                    "all ordered pairs of pitches 21..108, successive and simultaneous, both row orders"))
    if quick:
        sp.append(Space("spell-context", gen_spell_context(lambda i: [i % 4], (2, seed % 2)), True,
                        "hash block seed%2 of 2 of: all 144 two-note contexts x third note at every pitch 21..108; position of the third note (before/between/after/simultaneous) cycled; every permutation"))
        sp.append(Space("spell-chroma4", gen_spell_chroma(4, (4, seed % 4)), True,
                        "hash block seed%4 of 4 of all 12^4 pitch-class sequences of 4 successive notes; 5 fixed row orders"))
    else:
        sp.append(Space("spell-context", gen_spell_context(lambda i: [0, 1, 2, 3]), True,
                        "all 144 two-note contexts x third note at every pitch 21..108 x 4 positions; every permutation"))
        sp.append(Space("spell-chroma4", gen_spell_chroma(4), True, "all 12^4 pitch-class sequences of 4 successive notes; 5 fixed row orders"))
    sp.append(Space("spell-tonic", gen_spell_tonic(), True,
                    "first note (12 pitch classes) x dominant pitch class repeated 4 times (12) x probe note at every pitch 21..108, successive onsets; 5 fixed row orders"))
    sp.append(Space("spell-periodic", gen_periodic("spell", L120, ["seq", "chords3", "same", "grace"]), True,
                    "6 motifs of 2-3 pitches repeated to every length 1..120 and 150, 200, 300; 4 time shapes (successive, chords of 3, all simultaneous, with zero-length notes); 5 fixed row orders"))
    sp.append(Space("spell-long", gen_spell_long(quick), True,
                    "long passages of low pitch-class variety (one pitch class occurs 128..900 times): repeated note (12 pitch classes, 21, 108) and octave tremolo "
                    "(12 + 2) at lengths 255-258, 266, 296, 297, 300, 400, 513, 600, 800 rows; tremolo of every ordered pair of distinct pitch classes (132) at 512, 513, 600 rows; "
                    "major/minor Alberti figure on 12 roots at 512, 520, 800 rows (quick; thorough: every length 120..139, 250..309, 505..529 and 400-900 in hundreds for one "
                    "pitch class, 10 / 8 lengths 256..900 for the others); time shape successive / motif as chords / all simultaneous cycled (thorough: all three); "
                    "2 row orders (given, stride shuffle) and a second call"))

    if quick:
        sp.append(Space("voices-pairs", gen_voices_small(2, [0, 21, 60, 61, 66, 70, 108, 127]), True,
                        "all multisets of 1..2 rows over onset {0,1,2} x duration {0,1,2} x pitch {0,21,60,61,66,70,108,127}; both row orders; both voice modes; layouts cycled"))
        sp.append(Space("voices-small", gen_voices_small(3, [0, 60, 127], kmin=3), True,
                        "all multisets of 3 rows over onset {0,1,2} x duration {0,1,2} x pitch {0,60,127}; every distinct row permutation; both voice modes; layouts cycled"))
        sp.append(Space("voices-four", gen_voices_small(4, [60, 66], perms="some", kmin=4), True,
                        "all multisets of 4 rows over onset {0,1,2} x duration {0,1,2} x pitch {60,66}; 5 fixed row orders; both modes"))
        sp.append(Space("voices-four-perm", gen_voices_small(4, [60, 66], perms="all", kmin=4, quick_block=(24, seed % 24)), True,
                        "hash block seed%24 of 24 of the same 4-row multisets under every row permutation"))
        VL = list(range(1, 41)) + list(range(44, 121, 8)) + [200, 300]
    else:
        sp.append(Space("voices-small", gen_voices_small(3, [0, 21, 60, 61, 66, 70, 108, 127]), True,
                        "all multisets of 1..3 rows over onset {0,1,2} x duration {0,1,2} x 8 pitches; every permutation; both modes"))
        sp.append(Space("voices-four", gen_voices_small(4, [60, 66], perms="all", kmin=4), True,
                        "all multisets of 4 rows over onset {0,1,2} x duration {0,1,2} x pitch {60,66}; every permutation; both modes"))
        VL = L120
    sp.append(Space("voices-periodic", gen_periodic("voices", VL, ["seq", "chords3", "overlap", "grace"], motifs=MOTIFS[:3] if quick else MOTIFS), True,
                    "motifs repeated to every length 1..40 (quick; then every 8th to 120, 200, 300) / 1..120, 150, 200, 300 (thorough); time shapes successive, chords of 3, two overlapping layers, with zero-length notes; 5 fixed row orders; both modes"))

    if quick:
        sp.append(Space("key-small", gen_key_small(3), True,
                        "all multisets of 1..3 (pitch, duration) rows over pitch {21,60,61,66,70,108} x duration {0,1,2}; 3 profile sets (+ alias 'kp' and default on every 4th); up to 2 octave shifts, 2 of the duration factors {2, 1/2, 3, 1/4} (cycled), transpositions 1..11 for one profile set (cycled) and 3 transpositions (cycled) for the other two"))
        sp.append(Space("key-four", gen_key_small(4, (16, seed % 16), kmin=4), True,
                        "hash block seed%16 of 16 of the 4-row multisets, variants as key-small"))
    else:
        sp.append(Space("key-small", gen_key_small(4, full=True), True,
                        "all multisets of 1..4 (pitch, duration) rows over pitch {21,60,61,66,70,108} x duration {0,1,2}; 3 profile sets; octave shifts, duration factors, transpositions 1..11"))
    sp.append(Space("key-pcsets", gen_key_pcsets(3, [1, 2] if quick else [1, 2, 3], heavy=1 if quick else 3), True,
                    "every pitch-class set of size 1..3 with every assignment of weights {1,2} (size 3 in quick: at most one weight 2; thorough: weights {1,2,3}); 3 profile sets; octave shifts, duration factors 2 and 1/4, transpositions 1, 5, 11"))
    sp.append(Space("key-periodic", gen_key_periodic(list(range(1, 61)) + [120, 300] if quick else L120), True,
                    "8 motifs (incl. a major and a harmonic minor scale) repeated to every length; profile set cycled"))

    if quick:
        sp.append(Space("key-history", gen_key_history(2, KEY_PROBES, (2, seed % 2)), True,
                        "query histories: every sequence of 0..2 earlier estimate_key calls over {plain, return_sorted_keys=True} x {3 profile sets, default} "
                        "(2-call sequences: hash block seed%2 of 2) on transposed tonal inputs, then the full clause set (3 profile sets; reference winner, octave shifts, "
                        "one duration factor, 2-3 transpositions, cycled) on each of 8 probe inputs (triads, weighted major / harmonic minor scale, one note, fifth, "
                        "seventh chord, triad with a zero-length note); on every second case the probe is also queried ranked first; ranked answers: valid names, first = reference winner"))
    else:
        sp.append(Space("key-history", gen_key_history(3, KEY_PROBES[:4], (4, seed % 4)), True,
                        "query histories: every sequence of 0..2 earlier estimate_key calls over {plain, return_sorted_keys=True} x {3 profile sets, default} and hash block "
                        "seed%4 of 4 of the 512 3-call sequences, then the full clause set on each of 4 probe inputs; plus (key-history-probes) depth 0..2 on all 8 probes"))
        sp.append(Space("key-history-probes", gen_key_history(2, KEY_PROBES), True,
                        "every sequence of 0..2 earlier estimate_key calls over {plain, ranked} x {3 profile sets, default}, then the full clause set on each of 8 probe inputs"))
    base_plans = [("single", [0, 4]), ("two-ch", [0, 1, 5]), ("two-tr", [2, 3])]
    if quick:
        sp.append(Space("midi-small", gen_midi(1, 2, MIDI_PITCH, base_plans, (3, seed % 3), block_splits=("two-ch", "two-tr")), True,
                        "MIDI files from all multisets of 1..2 notes over onset {0,1,2} x duration {0,1,2} quarters x pitch {21,60,61,108}; one track (all) / two channels / two tracks (hash block seed%3 of 3); assign modes 0,4 / 0,1,5 / 2,3; all 4 combinations of estimate_voice_info x estimate_key"))
        sp.append(Space("midi-three", gen_midi(3, 3, [60, 61], [("single", [4]), ("two-ch", [5]), ("two-tr", [2])], (3, seed % 3)), True,
                        "hash block seed%3 of 3: files from all multisets of 3 notes over onset x duration x pitch {60,61}; modes 4/5/2; all 4 option combinations"))
        ML = list(range(1, 31)) + [60, 120]
    else:
        sp.append(Space("midi-small", gen_midi(1, 2, MIDI_PITCH, [("single", [0, 1, 2, 3, 4, 5]), ("two-ch", [0, 1, 2, 3, 4, 5]), ("two-tr", [0, 1, 2, 3, 4, 5])]), True,
                        "MIDI files from all multisets of 1..2 notes; 3 track/channel splits x all 6 assign modes x 4 option combinations"))
        sp.append(Space("midi-three", gen_midi(3, 3, [60, 61, 108], base_plans), True,
                        "files from all multisets of 3 notes over onset x duration x pitch {60,61,108}; splits and modes as quick midi-small; 4 option combinations"))
        ML = list(range(1, 121))
    if quick:
        sp.append(Space("midi-voices", gen_midi_voices(3, VOICE_PITCH, 2, (4, seed % 4)), True,
                        "estimate_voice_info=True under the assign modes without voices (1, 3, 4, 5): files from all multisets of 1..3 notes over onset {0,1,2} x duration {0,1,2} quarters x pitch {48,60,72}; one track / two channels / two tracks; 1..2 notes: every no-voice mode; 3 notes: mode cycled, hash block seed%4 of 4; estimate_key on for every third; stored voices compared as a partition of each part's notes with estimate_voices on the file's note array"))
        sp.append(Space("midi-voices-lines", gen_midi_lines([(2, 3)]), True,
                        "estimate_voice_info=True, no-voice assign modes: all 4^6 - 1 textures of 2 lines (around pitch 72 and 48) x 3 onsets, each cell rest / quarter / half note overlapping the next onset / zero-length note; split (one track-channel, channel per line, track per line, alternating channels) x mode (1,3,4,5) cycled over the 16 combinations; ppq {4,480,6} cycled"))
    else:
        sp.append(Space("midi-voices", gen_midi_voices(4, VOICE_PITCH, 3), True,
                        "estimate_voice_info=True under the assign modes without voices (1, 3, 4, 5): files from all multisets of 1..4 notes over onset {0,1,2} x duration {0,1,2} quarters x pitch {48,60,72}; one track / two channels / two tracks; 1..3 notes: every no-voice mode; 4 notes: mode cycled; stored voices compared as a partition of each part's notes with estimate_voices on the file's note array"))
        sp.append(Space("midi-voices-lines", gen_midi_lines([(2, 3), (3, 2), (2, 4)], full_shapes=[(2, 3)]), True,
                        "estimate_voice_info=True, no-voice assign modes: all textures of 2 lines x 3 onsets (every one of 4 splits x 4 modes), 3 lines x 2 onsets and 2 lines x 4 onsets (split x mode cycled); cells rest / quarter / overlapping half note / zero-length note; ppq cycled"))
    sp.append(Space("midi-periodic", gen_midi_periodic(ML), True,
                    "4 motifs x 4 time shapes repeated to every length; split, ppq {4,480,6}, assign mode and option combination cycled"))
    return sp


TRIGGERS = {}

if __name__ == "__main__":
    import checks.c17 as _m

    run_check(_m)
