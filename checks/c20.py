"""C20 - exports, views and analyses never modify their argument and are repeatable; containers
iterate re-entrantly.

(a) every ordered sequence of <= 2 read-only entry points on every object of an enumerated family
    of scores / performances: the argument's fingerprint stays the initial one, a repeated call
    returns an identical result, and the result of g after f equals the result of g on a fresh object.
(b) every interleaving of k clients iterating over the same Score / Performance: each client sees
    each part exactly once, in order; len / indexing / list() agree.
"""
import itertools
import os

from mc.core import CaseResult, Space, run_check, innermost_partitura_frame, exc_text
from mc import fingerprint as F
from mc import ir, interleave

PID = "C20"
RULE = ("(a) object family x ordered call sequences (singles and pairs) of read-only entry points; non-trivial = "
        "both calls returned; (b) all interleavings of k iteration clients; distinct by (object, sequence/schedule)")
ASSUMPTIONS = [
    "pure caches and cursors (Part._number_of_staves, Part._quarter_map, iter_idx) are not part of an object's state; "
    "their effect on later results is checked by the g-after-f == g-fresh clause",
    "empty per-class registries created by read access to a defaultdict are not a modification",
    "an entry point that raises is recorded as an outcome; non-mutation is still required of it",
]
CHUNK = 10

# ---------------------------------------------------------------------------------------------
# object family

FEATURES = ["tie", "slur", "tuplet", "grace", "repeat", "volta", "nav", "two_parts", "div_change", "staff2", "pickup", "dirs",
            "overlap", "chord_unequal", "marks", "bare", "open_dirs", "long", "empty_part"]


def score_spec(feats):
    """A small score (1-2 parts, 3 measures of 2/4 at 4 divisions) with the requested features."""
    f = set(feats)
    d = 4
    objs = [
        {"k": "page", "s": 0, "number": 1}, {"k": "system", "s": 0, "number": 1},
        {"k": "ts", "s": 0, "beats": 2, "beat_type": 4},
        {"k": "ks", "s": 0, "fifths": -1, "mode": "major"},
        {"k": "clef", "s": 0, "staff": 1, "sign": "G", "line": 2, "oct": 0},
    ]
    off = 0
    mnum = 1
    if "pickup" in f:
        objs.append({"k": "measure", "s": 0, "e": 4, "number": 0, "name": "0"})
        objs.append({"k": "note", "s": 0, "e": 4, "id": "p0", "step": "G", "oct": 4, "voice": 1, "staff": 1, "sym": {"type": "quarter"}})
        off = 4
    bars = []
    for i in range(3):
        s = off + 8 * i
        objs.append({"k": "measure", "s": s, "e": s + 8, "number": mnum, "name": str(mnum)})
        bars.append(s)
        mnum += 1
    end = off + 24
    b0, b1, b2 = bars
    # bar 1: C4 quarter, D4 quarter (tie from D4 into bar 2 if requested)
    objs.append({"k": "note", "s": b0, "e": b0 + 4, "id": "n1", "step": "C", "oct": 4, "voice": 1, "staff": 1, "sym": {"type": "quarter"},
                 "art": ["staccato"] if "dirs" in f else None})
    n2 = {"k": "note", "s": b0 + 4, "e": b0 + 8, "id": "n2", "step": "D", "oct": 4, "voice": 1, "staff": 1, "sym": {"type": "quarter"}}
    n3 = {"k": "note", "s": b1, "e": b1 + 4, "id": "n3", "step": "D", "oct": 4, "voice": 1, "staff": 1, "sym": {"type": "quarter"}}
    if "tie" in f:
        n2["tie"] = "n3"
    objs += [n2, n3]
    if "tuplet" in f:
        # eighth triplet cannot be written at 4 divisions: use three notes of 1 div? use sixteenth-ish run with tuplet object
        objs.append({"k": "note", "s": b1 + 4, "e": b1 + 6, "id": "n4", "step": "E", "oct": 4, "voice": 1, "staff": 1, "sym": {"type": "eighth"}})
        objs.append({"k": "note", "s": b1 + 6, "e": b1 + 8, "id": "n5", "step": "F", "oct": 4, "alter": 1, "voice": 1, "staff": 1, "sym": {"type": "eighth"}})
        objs.append({"k": "tuplet", "a": "n4", "b": "n5", "actual": 2, "normal": 2})
    else:
        objs.append({"k": "note", "s": b1 + 4, "e": b1 + 8, "id": "n4", "step": "E", "oct": 4, "voice": 1, "staff": 1, "sym": {"type": "quarter"}})
    # bar 3: chord G4+B4(b) half, second voice rest
    objs.append({"k": "note", "s": b2, "e": b2 + 8, "id": "n6", "step": "G", "oct": 4, "voice": 1, "staff": 1, "sym": {"type": "half"}})
    objs.append({"k": "note", "s": b2, "e": b2 + 8, "id": "n7", "step": "B", "oct": 4, "alter": -1, "voice": 1, "staff": 1, "sym": {"type": "half"}})
    if "overlap" in f:
        # a note still sounding at the next onset of its own voice (the exporters must re-voice it on the fly)
        objs.append({"k": "note", "s": b0 + 2, "e": b0 + 6, "id": "o1", "step": "E", "oct": 5, "voice": 1, "staff": 1, "sym": {"type": "quarter"}})
    if "chord_unequal" in f:
        # same onset and voice as n3 but another duration
        objs.append({"k": "note", "s": b1, "e": b1 + 8, "id": "c1", "step": "A", "oct": 5, "voice": 1, "staff": 1, "sym": {"type": "half"}})
    if "staff2" in f:
        objs.append({"k": "clef", "s": 0, "staff": 2, "sign": "F", "line": 4, "oct": 0})
        objs.append({"k": "note", "s": b0, "e": b0 + 8, "id": "l1", "step": "C", "oct": 3, "voice": 2, "staff": 2, "sym": {"type": "half"}})
        objs.append({"k": "rest", "s": b1, "e": b1 + 8, "id": "lr", "voice": 2, "staff": 2, "sym": {"type": "half"}})
    if "slur" in f:
        objs.append({"k": "slur", "a": "n1", "b": "n3"})
    if "grace" in f:
        objs.append({"k": "grace", "s": b2, "e": b2, "id": "g1", "step": "A", "oct": 4, "voice": 1, "staff": 1, "gtype": "acciaccatura",
                     "sym": {"type": "eighth"}, "next": "n6"})
    if "repeat" in f:
        objs.append({"k": "repeat", "s": b0, "e": b1 if "volta" not in f else b2})
    if "volta" in f:
        if "repeat" not in f:
            objs.append({"k": "repeat", "s": b0, "e": b2})
        objs.append({"k": "ending", "s": b1, "e": b2, "number": 1})
        objs.append({"k": "ending", "s": b2, "e": end, "number": 2})
    if "nav" in f:
        objs.append({"k": "fine", "s": b1})
        objs.append({"k": "dacapo", "s": end})
    if "dirs" in f:
        objs.append({"k": "dyn", "s": b0, "e": None, "text": "p", "staff": 1})
        objs.append({"k": "wedge", "s": b1, "e": b2, "dir": "+", "staff": 1})
        objs.append({"k": "words", "s": b0, "text": "dolce", "staff": 1})
        objs.append({"k": "tempo", "s": b0, "bpm": 90, "unit": "q"})
    if "long" in f:
        # magnitude: 120 more measures with a repeat around the first 60 of them - several hundred time points, more than
        # copy.deepcopy can follow within the default recursion limit (the library raises the limit where it copies)
        for i in range(120):
            s0 = end + 8 * i
            objs.append({"k": "measure", "s": s0, "e": s0 + 8, "number": mnum + i, "name": str(mnum + i)})
            objs.append({"k": "note", "s": s0, "e": s0 + 4, "id": "L%da" % i, "step": "C", "oct": 4, "voice": 1, "staff": 1, "sym": {"type": "quarter"}})
            objs.append({"k": "note", "s": s0 + 4, "e": s0 + 8, "id": "L%db" % i, "step": "E", "oct": 4, "voice": 1, "staff": 1, "sym": {"type": "quarter"}})
        objs.append({"k": "repeat", "s": end, "e": end + 8 * 60})
    if "marks" in f:
        # every kind of marking the exporters turn into attribute lists: articulations, ornaments, fingering, fermata
        for o in objs:
            if o.get("id") == "n1":
                o["art"] = ["staccato", "accent"]
                o["orn"] = ["trill"]
                o["fing"] = 2
            if o.get("id") == "n2":
                o["orn"] = ["mordent"]
        objs.append({"k": "fermata", "s": b0, "ref": "n1"})
    if "open_dirs" in f:
        # directions without an end (the exporters have to make one up - for the file, not for the argument)
        objs.append({"k": "pedal", "s": b0, "e": None, "staff": 1})
        objs.append({"k": "pedal", "s": b1, "e": None, "line": True, "staff": 1})
        objs.append({"k": "wedge", "s": b2, "e": None, "dir": "-", "staff": 1})
        objs.append({"k": "tempodir", "s": b1, "e": None, "text": "rit.", "staff": 1})
    if "bare" in f:
        # a part built by hand: no voice and no staff on its notes and rests
        for o in objs:
            if o["k"] in ("note", "rest", "grace") and o.get("staff") == 1:
                o["voice"] = None
                o["staff"] = None
    divs = [[0, d]]
    p1 = {"id": "P1", "name": "Piano", "divs": divs, "objs": objs}
    if "div_change" in f:
        # same music, but bar 3 written at 8 divisions: rebuild bar 3 objects
        divs.append([b2, 8])
        for o in objs:
            if o.get("s") is not None and o["s"] > b2:
                o["s"] = b2 + (o["s"] - b2) * 2
            if o.get("e") is not None and o["e"] > b2:
                o["e"] = b2 + (o["e"] - b2) * 2
    parts = [p1]
    if "two_parts" in f:
        q = 6
        o2 = [
            {"k": "page", "s": 0, "number": 1}, {"k": "system", "s": 0, "number": 1},
            {"k": "ts", "s": 0, "beats": 2, "beat_type": 4}, {"k": "ks", "s": 0, "fifths": -1, "mode": "major"},
            {"k": "clef", "s": 0, "staff": 1, "sign": "F", "line": 4, "oct": 0},
        ]
        off2 = 6 if "pickup" in f else 0
        if "pickup" in f:
            o2.append({"k": "measure", "s": 0, "e": 6, "number": 0, "name": "0"})
            o2.append({"k": "rest", "s": 0, "e": 6, "id": "q0", "voice": 1, "staff": 1, "sym": {"type": "quarter"}})
        for i in range(3):
            s = off2 + 12 * i
            o2.append({"k": "measure", "s": s, "e": s + 12, "number": i + 1, "name": str(i + 1)})
            o2.append({"k": "note", "s": s, "e": s + 4, "id": "b%da" % i, "step": "F", "oct": 2, "voice": 1, "staff": 1,
                       "sym": {"type": "eighth", "actual_notes": 3, "normal_notes": 2}})
            o2.append({"k": "note", "s": s + 4, "e": s + 12, "id": "b%db" % i, "step": "A", "oct": 2, "voice": 1, "staff": 1})
        p2 = {"id": "P2", "name": "Bass", "divs": [[0, q]], "objs": o2}
        kids = [p1, p2] + ([{"id": "P9", "name": "Tacet", "divs": [[0, 4]], "objs": []}] if "empty_part" in f else [])
        return {"parts": [{"group": {"symbol": "bracket", "name": "grp", "number": 1}, "children": kids}]}
    if "empty_part" in f:
        # a part without any time point (last, so that parts[0] stays the part with the music)
        parts.append({"id": "P9", "name": "Tacet", "divs": [[0, 4]], "objs": []})
    return {"parts": parts}


def perf_spec(variant):
    notes = [
        dict(id="p1", midi_pitch=60, note_on=0.0, note_off=0.5, velocity=64, track=0, channel=0),
        dict(id="p2", midi_pitch=62, note_on=0.5, note_off=1.0, velocity=70, track=0, channel=0),
        dict(id="p3", midi_pitch=62, note_on=1.0, note_off=1.5, velocity=50, track=0, channel=0),
        dict(id="p4", midi_pitch=64, note_on=1.5, note_off=2.0, velocity=60, track=0, channel=0),
        dict(id="p5", midi_pitch=67, note_on=2.0, note_off=3.0, velocity=64, track=0, channel=0),
        dict(id="p6", midi_pitch=70, note_on=2.0, note_off=3.0, velocity=64, track=0, channel=0),
    ]
    controls = []
    if variant in ("pedal", "two", "two_rev", "stale"):
        controls = [dict(number=64, value=100, time=0.4, track=0, channel=0), dict(number=64, value=0, time=1.2, track=0, channel=0),
                    dict(number=67, value=127, time=0.1, track=0, channel=0)]
    return dict(notes=notes, controls=controls, two=(variant in ("two", "two_rev", "tuple")), rev=(variant == "two_rev"), stale=(variant == "stale"),
                bare=(variant == "tuple"))


def build_perf(spec):
    import copy
    import partitura.performance as P

    kw = dict(track=1) if spec.get("rev") else {}
    ctl = copy.deepcopy(spec["controls"])
    pp = P.PerformedPart(copy.deepcopy(spec["notes"]), id="PP1", part_name="perf", controls=[] if spec.get("stale") else ctl,
                         programs=[dict(program=0, time=0.0, track=0, channel=0)], **kw)
    if spec.get("stale"):
        # the pedal is added (and a note is lengthened) after the part was made, without assigning the threshold again:
        # the stored sound_off values are those of the part without pedal; reading entry points must leave them alone
        pp.controls.extend(ctl)
        pp.notes[1]["note_off"] = 1.1
    parts = [pp]
    if spec["two"]:
        n2 = [dict(id="q1", midi_pitch=40, note_on=0.0, note_off=1.0, velocity=30, track=0, channel=1)]
        parts.append(P.PerformedPart(n2, id="PP2", part_name="perf2"))  # (track attribute 0: after PP1 when rev)
    if spec.get("bare"):
        # independently built parts handed over as a plain sequence: both use track 0, nothing has renumbered them
        return tuple(parts)
    return P.Performance(parts, id="perf")


ALIGN = [("n1", "p1"), ("n2", "p2"), ("n4", "p4"), ("n6", "p5"), ("n7", "p6")]

# ---------------------------------------------------------------------------------------------
# entry points


def digest(x):
    import numpy as np
    import mido
    import scipy.sparse as sp
    import partitura.score as S
    import partitura.performance as P

    if isinstance(x, (bytes, str, int, float, bool)) or x is None:
        return x
    if isinstance(x, np.ndarray):
        return ("nd", str(x.dtype), x.shape, x.tobytes())
    if sp.issparse(x):
        return digest(x.toarray())
    if isinstance(x, mido.MidiFile):
        return ("midi", x.ticks_per_beat, tuple(tuple(sorted(m.dict().items(), key=repr) if not m.is_meta else repr(m) for m in tr) for tr in x.tracks))
    if isinstance(x, (S.Score, S.Part, S.PartGroup, P.Performance, P.PerformedPart)):
        return F.fp_any(x)
    if isinstance(x, S.ScoreVariant):
        return ("sv", tuple(x.segment_times))
    if type(x).__name__ == "MatchFile":
        return ("match", tuple(str(l.matchline) for l in x.lines))
    if isinstance(x, (list, tuple)):
        return tuple(digest(y) for y in x)
    if isinstance(x, dict):
        return tuple(sorted((repr(k), digest(v)) for k, v in x.items()))
    if isinstance(x, (np.integer, np.floating)):
        return x.item()
    return repr(x)


def _times(part):
    return list(range(int(part._points[0].t), int(part._points[-1].t) + 1))


def _maps(name):
    def f(sc):
        import numpy as np

        p = sc.parts[0]
        m = getattr(p, name)
        ts = _times(p)
        out = [digest(m(t)) for t in ts]
        out.append(digest(m(np.array(ts))))
        return out

    return f


def _inv_maps(name, fwd):
    def f(sc):
        import numpy as np

        p = sc.parts[0]
        ts = _times(p)
        vals = [getattr(p, fwd)(t) for t in ts]
        m = getattr(p, name)
        return [digest(m(v)) for v in vals] + [digest(m(np.array(vals, dtype=float)))]

    return f


def score_entry_points():
    import partitura
    import partitura.score as S
    from partitura.utils.music import compute_pianoroll, transpose
    from partitura.musicanalysis import estimate_spelling, estimate_voices, estimate_key

    EP = {}
    EP["save_musicxml"] = lambda sc: partitura.save_musicxml(sc, None)
    EP["save_musicxml[part]"] = lambda sc: partitura.save_musicxml(sc.parts[0], None)
    for mode in (0, 3, 5):
        EP["save_score_midi[mode=%d]" % mode] = (lambda m: lambda sc: partitura.save_score_midi(sc, None, part_voice_assign_mode=m))(mode)
    EP["save_score_midi[pad_bar]"] = lambda sc: partitura.save_score_midi(sc, None, anacrusis_behavior="pad_bar")
    EP["note_array"] = lambda sc: sc.note_array()
    for flag in ("include_pitch_spelling", "include_key_signature", "include_time_signature", "include_metrical_position",
                 "include_grace_notes", "include_staff", "include_divs_per_quarter"):
        EP["note_array[%s]" % flag] = (lambda fl: lambda sc: sc.note_array(**{fl: True}))(flag)
        EP["part.note_array[%s]" % flag] = (lambda fl: lambda sc: sc.parts[0].note_array(**{fl: True}))(flag)
    EP["part.note_array"] = lambda sc: sc.parts[0].note_array()
    EP["part.rest_array"] = lambda sc: sc.parts[0].rest_array()
    EP["part.rest_array[all]"] = lambda sc: sc.parts[0].rest_array(include_pitch_spelling=True, include_key_signature=True,
                                                                 include_time_signature=True, include_metrical_position=True,
                                                                 include_grace_notes=True, include_staff=True)
    EP["compute_pianoroll"] = lambda sc: compute_pianoroll(sc)
    EP["compute_pianoroll[part,idxs]"] = lambda sc: compute_pianoroll(sc.parts[0], return_idxs=True, time_unit="div", time_div=1)
    for name in ("time_signature_map", "key_signature_map", "clef_map", "measure_map", "measure_number_map",
                 "metrical_position_map", "beat_map", "quarter_map", "quarter_duration_map"):
        EP["part." + name] = _maps(name)
    EP["part.inv_beat_map"] = _inv_maps("inv_beat_map", "beat_map")
    EP["part.inv_quarter_map"] = _inv_maps("inv_quarter_map", "quarter_map")
    EP["part.pretty"] = lambda sc: sc.parts[0].pretty()
    EP["group.pretty"] = lambda sc: [g.pretty() for g in sc.part_structure]
    EP["part.collections"] = lambda sc: [len(sc.parts[0].notes), len(sc.parts[0].notes_tied), len(sc.parts[0].measures),
                                         len(sc.parts[0].rests), sc.parts[0].number_of_staves]
    EP["unfold_part_maximal"] = lambda sc: S.unfold_part_maximal(sc)
    EP["unfold_part_maximal[score,noids]"] = lambda sc: S.unfold_part_maximal(sc, update_ids=False)
    EP["unfold_part_maximal[score,leaps]"] = lambda sc: S.unfold_part_maximal(sc, ignore_leaps=False)
    EP["unfold_part_maximal[part]"] = lambda sc: S.unfold_part_maximal(sc.parts[0], update_ids=False)
    EP["unfold_part_maximal[part,leaps]"] = lambda sc: S.unfold_part_maximal(sc.parts[0], ignore_leaps=False)
    EP["unfold_part_minimal"] = lambda sc: S.unfold_part_minimal(sc)
    EP["unfold_part_minimal[part]"] = lambda sc: S.unfold_part_minimal(sc.parts[0])
    EP["iter_unfolded_parts"] = lambda sc: list(S.iter_unfolded_parts(sc.parts[0]))
    EP["make_score_variants"] = lambda sc: S.make_score_variants(sc.parts[0])
    EP["estimate_spelling"] = lambda sc: estimate_spelling(sc.parts[0])
    EP["estimate_voices"] = lambda sc: estimate_voices(sc.parts[0])
    EP["estimate_key"] = lambda sc: estimate_key(sc.parts[0])
    EP["estimate_key[note_array]"] = lambda sc: estimate_key(sc.note_array())
    EP["transpose[score]"] = lambda sc: transpose(sc, S.Interval(3, "M"))
    EP["container"] = lambda sc: [len(sc), [p.id for p in sc], sc[0].id, sc[len(sc) - 1].id, [p.id for p in list(sc)]]
    return EP


# entry points that also accept a plain sequence of PerformedPart objects (or only look at its first element)
PERF_SEQUENCE_EPS = ("save_performance_midi", "save_performance_midi[part]", "save_performance_midi[merge]", "ppart.note_array", "compute_pianoroll[ppart]")


def perf_entry_points():
    import partitura
    from partitura.utils.music import compute_pianoroll

    EP = {}
    EP["save_performance_midi"] = lambda pf: partitura.save_performance_midi(pf, None)
    EP["save_performance_midi[part]"] = lambda pf: partitura.save_performance_midi(pf[0], None, ppq=96, mpq=600000)
    EP["save_performance_midi[merge]"] = lambda pf: partitura.save_performance_midi(pf, None, merge_tracks_save=True)
    EP["perf.note_array"] = lambda pf: pf.note_array()
    EP["ppart.note_array"] = lambda pf: pf[0].note_array()
    EP["compute_pianoroll[ppart]"] = lambda pf: compute_pianoroll(pf[0])
    EP["compute_pianoroll[perf,idxs]"] = lambda pf: compute_pianoroll(pf, return_idxs=True)
    EP["perf.container"] = lambda pf: [len(pf), [p.id for p in pf], pf[0].id, [p.id for p in list(pf)]]
    EP["perf.num_tracks"] = lambda pf: [pf.num_tracks, pf[0].num_tracks]
    return EP


def match_entry_points():
    import partitura

    def sm(pair):
        sc, pf = pair
        al = [dict(label="match", score_id=s, performance_id=p) for s, p in ALIGN]
        al.append(dict(label="deletion", score_id="n3"))
        al.append(dict(label="insertion", performance_id="p3"))
        return partitura.save_match(al, pf[0], sc.parts[0], None)

    def sm2(pair):
        sc, pf = pair
        al = [dict(label="match", score_id=s, performance_id=p) for s, p in ALIGN]
        return partitura.save_match(al, pf, sc, None, assume_unfolded=True)

    EP = {"save_match": sm, "save_match[score,perf]": sm2}
    EP["note_array+perf"] = lambda pair: [pair[0].note_array(), pair[1].note_array()]
    return EP


def array_entry_points():
    from partitura.utils.music import compute_pianoroll, slice_notearray_by_time, ensure_notearray
    from partitura.musicanalysis import estimate_spelling, estimate_voices, estimate_key

    EP = {}
    for name, (a, b) in {"all": (0, 100), "clip-end": (0, 5), "clip-start": (1, 100), "clip-both": (1, 5), "inside": (2, 4),
                         "exact": (0, 6)}.items():
        EP["slice_notearray_by_time[%s]" % name] = (lambda a, b: lambda na: slice_notearray_by_time(na, a, b))(a, b)
        EP["slice_notearray_by_time[%s,noclip]" % name] = (lambda a, b: lambda na: slice_notearray_by_time(na, a, b, clip_onset_duration=False))(a, b)
    EP["slice_notearray_by_time[div]"] = lambda na: slice_notearray_by_time(na, 2, 20, time_unit="div")
    EP["compute_pianoroll[array]"] = lambda na: compute_pianoroll(na, return_idxs=True)
    EP["estimate_spelling[array]"] = lambda na: estimate_spelling(na)
    EP["estimate_voices[array]"] = lambda na: estimate_voices(na)
    EP["estimate_key[array]"] = lambda na: estimate_key(na)
    EP["ensure_notearray[array]"] = lambda na: ensure_notearray(na)
    return EP


_EP_CACHE = {}


def entry_points(kind):
    if kind not in _EP_CACHE:
        _EP_CACHE[kind] = {"score": score_entry_points, "perf": perf_entry_points, "match": match_entry_points, "array": array_entry_points}[kind]()
    return _EP_CACHE[kind]


def build_obj(case):
    kind = case["kind"]
    if kind == "score":
        return ir.build_score(score_spec(case["feats"]))
    if kind == "perf":
        return build_perf(perf_spec(case["variant"]))
    if kind == "match":
        return (ir.build_score(score_spec(case["feats"])), build_perf(perf_spec(case["variant"])))
    if kind == "array":
        import numpy as np

        sc = ir.build_score(score_spec(case["feats"]))
        v = case["variant"]
        if v == "score":
            return sc.note_array()
        if v == "part":
            return sc.parts[0].note_array(include_staff=True)
        na = sc.note_array()
        if v == "wide":
            # a hand-made array: the same fields declared with the platform's default types (int64 / float64)
            dt = [(n, "i8" if na.dtype[n].kind in "iu" else ("f8" if na.dtype[n].kind == "f" else na.dtype[n])) for n in na.dtype.names]
            return na.astype(dt)
        if v == "reversed":
            # rows in another order than (onset, pitch): what np.hstack of two parts' arrays gives
            return np.ascontiguousarray(na[::-1])
        raise ValueError(v)
    raise ValueError(kind)


def fp_obj(obj, ignore_segments=False):
    import numpy as np

    if isinstance(obj, np.ndarray):
        return ("ndarray", str(obj.dtype), obj.shape, obj.tobytes())
    if isinstance(obj, tuple):
        return tuple(fp_obj(o, ignore_segments) for o in obj)
    import partitura.score as S

    if isinstance(obj, S.Score) and ignore_segments:
        return ("Score*", tuple(F.fp_part(p, ignore_classes=("Segment",)) for p in obj.parts))
    return F.fp_any(obj)


def call(ep, obj):
    try:
        return True, digest(ep(obj))
    except Exception as e:  # noqa
        return False, "%s@%s" % (type(e).__name__, innermost_partitura_frame(e))


def eval_seq(case):
    res = CaseResult(states=1, transitions=0, traces=1)
    EP = entry_points(case["kind"])
    seq = case["seq"]
    obj = build_obj(case)
    fp0 = fp_obj(obj)
    fp0s = fp_obj(obj, True)
    results = []
    outs = []
    seg_only = False
    for i, name in enumerate(seq):
        ok, r = call(EP[name], obj)
        res.transitions += 1
        results.append((ok, r))
        outs.append("ok" if ok else r)
        fp1 = fp_obj(obj)
        if fp1 != fp0:
            if fp_obj(obj, True) == fp0s and _takes_part(name):
                seg_only = True
                res.fail("argument-unchanged", expected="fingerprint of the argument unchanged",
                         observed="Segment objects registered on the argument part", where="segments-left-on-argument",
                         detail="after %s (sequence %r)" % (name, seq))
                fp0 = fp1  # continue checking the rest of the sequence relative to this state
            else:
                d = F.diff(fp0, fp1)
                res.fail("argument-unchanged", expected="fingerprint of the argument unchanged", observed=d[:3],
                         where=name.split("[")[0], detail="after %s (sequence %r)" % (name, seq))
                break
    if len(seq) == 2 and len(results) == 2:
        (ok1, r1), (ok2, r2) = results
        if seq[0] == seq[1]:
            if ok1 and ok2 and r1 != r2:
                res.fail("repeatable", expected="second call returns an identical result", observed=_first_diff(r1, r2),
                         where=seq[0].split("[")[0], detail="sequence %r" % (seq,))
            elif ok1 != ok2:
                res.fail("repeatable", expected="same outcome", observed=[outs[0], outs[1]], where=seq[0].split("[")[0],
                         detail="sequence %r" % (seq,))
        else:
            fresh = build_obj(case)
            ok3, r3 = call(EP[seq[1]], fresh)
            res.transitions += 1
            if (ok2, r2) != (ok3, r3):
                where = seq[1].split("[")[0]
                if seg_only:
                    # is the difference explained by the Segment objects alone?  Re-run g on a fresh
                    # object on which only the segments were added.
                    fresh2 = build_obj(case)
                    _add_segments(fresh2)
                    ok4, r4 = call(EP[seq[1]], fresh2)
                    res.transitions += 1
                    if (ok4, r4) == (ok2, r2):
                        where = "segments-left-on-argument"
                res.fail("order-independent", expected="result of %s after %s equals its result on a fresh object" % (seq[1], seq[0]),
                         observed=_first_diff(r3, r2) if ok2 and ok3 else [r3 if not ok3 else "ok", r2 if not ok2 else "ok"],
                         where=where, detail="sequence %r" % (seq,))
    res.nontrivial = all(ok for ok, _ in results)
    res.outcome = "|".join(outs)
    return res


def _takes_part(name):
    """entry points that are handed a Part (the known Segment finding is about these): the unfold functions with
    a [part...] argument, iter_unfolded_parts / make_score_variants (Part only) and save_match (unfolds its part)"""
    return name.startswith(("iter_unfolded_parts", "make_score_variants", "save_match")) or \
        (name.startswith("unfold_part_") and "[part" in name)


def _add_segments(obj):
    import partitura.score as S

    sc = obj[0] if isinstance(obj, tuple) else obj
    for p in sc.parts:
        if len(p._points) > 0:  # (a part without time points has nothing to segment)
            S.add_segments(p)


def _first_diff(a, b):
    d = F.diff(a, b) if isinstance(a, tuple) and isinstance(b, tuple) else ["%r != %r" % (str(a)[:200], str(b)[:200])]
    return d[:3]


# ---------------------------------------------------------------------------------------------
# (b) iteration protocol


def eval_iter(case):
    import partitura.score as S
    import partitura.performance as P

    res = CaseResult(states=0, transitions=0, traces=0)
    n, k, kind = case["n"], case["k"], case["container"]

    def make_container():
        if kind == "score":
            return S.Score([S.Part("P%d" % i) for i in range(n)])
        return P.Performance([P.PerformedPart([dict(midi_pitch=60, note_on=0, note_off=1, velocity=64)], id="P%d" % i) for i in range(n)])

    holder = {}

    def make():
        cont = make_container()
        logs = [[] for _ in range(k)]
        holder["logs"] = logs
        holder["cont"] = cont

        def client(log):
            it = iter(cont)
            yield
            while True:
                try:
                    x = next(it)
                except StopIteration:
                    return
                log.append(x.id)
                yield

        return [client(logs[i]) for i in range(k)]

    want = ["P%d" % i for i in range(n)]
    scheds = interleave.all_schedules(make, max_preemptions=case.get("maxp"))
    outcomes = set()
    for sch in scheds:
        interleave.run_schedule(make, sch)
        res.states += 1
        res.transitions += len(sch)
        res.traces += 1
        logs = holder["logs"]
        outcomes.add(repr(logs))
        if any(l != want for l in logs):
            res.fail("iteration-reentrant", expected=[want] * k, observed=logs, where="%s.__iter__" % ("Score" if kind == "score" else "Performance"),
                     detail="schedule=%r" % (sch,))
            break
    # nested loops written the ordinary way + protocol agreement
    cont = make_container()
    nested = [(a.id, b.id) for a in cont for b in cont]
    res.transitions += 1
    if nested != [(a, b) for a in want for b in want]:
        res.fail("iteration-nested", expected="%d pairs" % (n * n), observed=nested[:6], where="%s.__iter__" % ("Score" if kind == "score" else "Performance"))
    ids = [x.id for x in list(cont)]
    if not (len(cont) == n and ids == want and [cont[i].id for i in range(n)] == want):
        res.fail("container-protocol", expected=want, observed=[len(cont), ids])
    res.states = max(res.states, 1)
    res.extra = {"schedules": len(scheds)}
    res.outcome = "iter-outcomes=%d" % len(outcomes)
    return res


def eval_container(case):
    """len / indexing / iteration agree (same objects, same order) on scores however they were made."""
    import copy
    import partitura.score as S
    import partitura.performance as P
    from partitura.utils.music import transpose

    res = CaseResult(states=0, transitions=0, traces=1)
    how = case["how"]
    base = ir.build_score(score_spec(case["feats"]))
    parts = list(base.parts)
    objs = {}

    def mk(name, fn):
        res.transitions += 1
        try:
            objs[name] = fn()
        except Exception as e:  # noqa: construction problems are other properties' business
            objs[name] = None

    if how == "constructed":
        fresh = lambda: ir.build_score(score_spec(case["feats"])).parts
        mk("list", lambda: S.Score(list(fresh())))
        mk("tuple", lambda: S.Score(tuple(fresh())))
        mk("generator", lambda: S.Score(p for p in fresh()))
        mk("iterator", lambda: S.Score(iter(fresh())))
        mk("single-part", lambda: S.Score(fresh()[0]))
        mk("structure", lambda: base)
    elif how == "derived":
        mk("unfold_maximal", lambda: S.unfold_part_maximal(base))
        mk("unfold_minimal", lambda: S.unfold_part_minimal(base))
        mk("transpose", lambda: transpose(base, S.Interval(2, "M")))
        mk("deepcopy", lambda: copy.deepcopy(base))
    elif how == "setitem":
        def f():
            sc = ir.build_score(score_spec(case["feats"]))
            other = ir.build_score(score_spec(case["feats"])).parts
            for i in range(len(sc)):
                sc[i] = other[i]
            return sc
        mk("setitem", f)
    elif how == "performance":
        pf = build_perf(perf_spec("two"))
        mk("performance", lambda: pf)
        def g():
            p2 = build_perf(perf_spec("two"))
            q = build_perf(perf_spec("two"))
            p2[0] = q[1]
            return p2
        mk("performance-setitem", g)
    for name, sc in objs.items():
        if sc is None:
            continue
        res.states += 1
        try:
            n = len(sc)
            by_index = [sc[i] for i in range(n)]
            by_iter = [p for p in sc]
            by_list = list(sc)
            flat = sc.parts if hasattr(sc, "parts") else sc.performedparts
            res.transitions += 4
        except Exception as e:  # noqa
            res.fail("container-protocol", kind="exception", where=innermost_partitura_frame(e), observed=exc_text(e), detail="%s %r" % (name, case))
            continue
        same = (len(by_iter) == n and len(by_list) == n and len(flat) == n
                and all(a is b for a, b in zip(by_index, by_iter)) and all(a is b for a, b in zip(by_index, by_list))
                and all(a is b for a, b in zip(by_index, flat)))
        if not same:
            res.fail("container-protocol", expected="len, indexing, iteration and the flat part list designate the same %d objects in the same order" % n,
                     observed=dict(len=n, by_index=[getattr(p, "id", None) for p in by_index], by_iter=[getattr(p, "id", None) for p in by_iter],
                                   identical_objects=bool(len(by_iter) == n and all(a is b for a, b in zip(by_index, by_iter)))),
                     where="%s.__iter__/__getitem__/__len__" % type(sc).__name__, detail="%s %r" % (name, case))
    res.states = max(res.states, 1)
    res.outcome = "container:%s:%d" % (how, len([o for o in objs.values() if o is not None]))
    return res


def eval_repeat(case):
    """an analysis called again on the same (equal) input gives the identical result: small note arrays with
    simultaneous notes, where an answer that depends on set/dict iteration order or object addresses shows up"""
    import numpy as np
    from partitura.musicanalysis import estimate_voices, estimate_spelling, estimate_key

    res = CaseResult(states=1, transitions=0, traces=1)
    rows = case["rows"]
    na = np.array([(o, d, p, "n%d" % i) for i, (o, d, p) in enumerate(rows)],
                  dtype=[("onset_beat", "f4"), ("duration_beat", "f4"), ("pitch", "i4"), ("id", "U8")])
    keep = na.copy()
    outs = []
    for name, fn in (("estimate_voices[mono]", lambda a: estimate_voices(a, monophonic_voices=True)),
                     ("estimate_voices[chord]", lambda a: estimate_voices(a, monophonic_voices=False)),
                     ("estimate_spelling", lambda a: estimate_spelling(a)),
                     ("estimate_key", lambda a: estimate_key(a))):
        seen = []
        for k in range(4):
            res.transitions += 1
            seen.append(call(fn, na if k % 2 == 0 else na.copy()))
        if any(x != seen[0] for x in seen[1:]):
            res.fail("repeatable", expected="identical result on every call", observed=[str(x[1])[:120] for x in seen],
                     where=name.split("[")[0], detail="%s on rows %r" % (name, rows))
        outs.append("ok" if seen[0][0] else seen[0][1])
    if na.tobytes() != keep.tobytes():
        res.fail("argument-unchanged", expected="note array unchanged", observed="changed", where="musicanalysis", detail=repr(rows))
    res.outcome = "repeat:" + "|".join(outs)
    return res


def eval_case(case):
    if case["kind"] == "repeat":
        return eval_repeat(case)
    if case["kind"] == "iter":
        return eval_iter(case)
    if case["kind"] == "container":
        return eval_container(case)
    return eval_seq(case)


# ---------------------------------------------------------------------------------------------


def feature_sets(tier):
    sets = [[]] + [[f] for f in FEATURES]
    pairs = [list(p) for p in itertools.combinations([x for x in FEATURES if x != "long"], 2)]  # ("long" alone: cost)
    return sets, pairs


PAIR_BASES = [["tie", "slur", "grace", "dirs", "overlap", "chord_unequal", "marks"], ["repeat", "tuplet"], ["volta", "two_parts", "pickup"], ["nav", "repeat", "staff2"],
              ["div_change", "tie", "tuplet"], ["two_parts", "div_change", "grace", "volta"]]


def spaces(tier, seed):
    names_s = sorted(_names("score"))
    names_p = sorted(_names("perf"))
    names_m = sorted(_names("match"))
    singles, fpairs = feature_sets(tier)
    sp = []
    # singles: every entry point called once and twice on every single-feature score and every feature pair
    fam = singles + fpairs
    if tier == "quick":
        B = 4
        fam = singles + [p for p in fpairs if (FEATURES.index(p[0]) + FEATURES.index(p[1]) + seed) % B == 0]
    sp.append(Space("score-twice", [dict(kind="score", feats=f, seq=[n, n]) for f in fam for n in names_s], True,
                    "scores: none, each of %d features, %s feature pairs; every entry point called twice" % (len(FEATURES), "all" if tier != "quick" else "1/4 (seed block) of the")))
    bases = PAIR_BASES if tier == "thorough" else [PAIR_BASES[0], PAIR_BASES[1 + seed % (len(PAIR_BASES) - 1)]]
    sp.append(Space("score-ordered-pairs", [dict(kind="score", feats=f, seq=[a, b]) for f in bases for a in names_s for b in names_s if a != b], True,
                    "%d feature-rich scores x all ordered pairs of distinct entry points (%d)" % (len(bases), len(names_s))))
    names_t = [n for n in names_p if n in PERF_SEQUENCE_EPS]
    sp.append(Space("perf-sequences", [dict(kind="perf", variant=v, seq=[a, b]) for v in ("plain", "pedal", "two", "two_rev", "stale") for a in names_p for b in names_p]
                    + [dict(kind="perf", variant="tuple", seq=[a, b]) for a in names_t for b in names_t], True,
                    "5 performances (plain, pedal, two parts, two parts with descending track attributes, pedal and a note edit added after construction; "
                    "and a plain tuple of two independently built parts that share track 0, for the entry points that take a sequence of parts) x all ordered pairs (incl. equal) of %d entry points" % len(names_p)))
    mf = [["tie"], ["tie", "grace", "pickup"], ["staff2", "dirs"], ["marks"], ["marks", "bare"], ["marks", "bare", "grace"]]
    PAIR_BASES[0].count("open_dirs") or PAIR_BASES[0].append("open_dirs")
    PAIR_BASES[0].count("empty_part") or PAIR_BASES[0].append("empty_part")
    sp.append(Space("match-sequences", [dict(kind="match", feats=f, variant=v, seq=[a, b]) for f in mf for v in ("plain", "pedal", "stale") for a in names_m for b in names_m], True,
                    "6 scores x 3 performances x all ordered pairs of %d entry points" % len(names_m)))
    it = []
    for kind in ("score", "perf"):
        for n, k in ((1, 2), (2, 2), (3, 2), (1, 3), (2, 3)):
            it.append(dict(kind="iter", container=kind, n=n, k=k))
        if tier == "thorough":
            it.append(dict(kind="iter", container=kind, n=4, k=2))
            it.append(dict(kind="iter", container=kind, n=3, k=3, maxp=4))
    grid = [(o, d, p) for o in (0, 1) for d in (0, 1, 2) for p in (48, 60, 72)]
    rep = [dict(kind="repeat", rows=[list(r) for r in c]) for n in (2, 3, 4) for c in itertools.combinations_with_replacement(grid, n)]
    if tier == "quick":
        rep = [c for i, c in enumerate(rep) if len(c["rows"]) < 4 or i % 3 == seed % 3]
    sp.append(Space("analyses-repeatable", rep, True,
                    "all multisets of 2-4 rows over onset {0,1} x duration {0,1,2} x pitch {48,60,72} (quick: 1/3 of the 4-row ones by seed): "
                    "estimate_voices (both modes), estimate_spelling, estimate_key called four times, alternately on the array and on a copy"))
    names_a = sorted(_names("array"))
    sp.append(Space("array-sequences", [dict(kind="array", feats=f, variant=v, seq=[a, b]) for f in ([], ["tie", "grace"], ["two_parts", "overlap"])
                                         for v in ("score", "part", "wide", "reversed") for a in names_a for b in names_a], True,
                    "note arrays of 3 scores (score-level, part-level, re-declared with int64/float64 fields, rows reversed) x all ordered pairs (incl. equal) of %d entry points that take a "
                    "note array (time slices with and without clipping, piano roll, spelling, voices, key)" % len(names_a)))
    cc = [dict(kind="container", how=h, feats=f) for f in ([], ["two_parts"], ["two_parts", "repeat"], ["two_parts", "volta", "nav"], ["repeat", "staff2"])
          for h in ("constructed", "derived", "setitem")] + [dict(kind="container", how="performance", feats=[])]
    sp.append(Space("container-consistency", cc, True,
                    "scores built from list/tuple/generator/iterator/single part/part group, derived by unfolding, transposing, deep copy, "
                    "changed by item assignment; performances: len, indexing, iteration and the flat list designate the same objects"))
    sp.append(Space("iteration-interleavings", it, True,
                    "k clients x n parts, all interleavings (n=3,k=3: <=4 preemptions); plus nested loops and len/index/list agreement"))
    return sp


def _names(kind):
    # entry point names without importing partitura at module import time
    from mc.core import ensure_repo_on_path

    ensure_repo_on_path()
    return list(entry_points(kind).keys())


TRIGGERS = {}


if __name__ == "__main__":
    import checks.c20 as _m

    run_check(_m)
