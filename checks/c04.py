"""C04 - score -> MIDI file -> score preserves every note's timing and pitch exactly.

Bounded-exhaustive enumeration of small scores (specs of mc/ir.py, generators in mc/c04_model.py)
x part/voice assign modes x pickup policies x minimum_ppq x velocity x output kinds.  For every
case the real `save_score_midi` writes a file, the file is read back raw with mido (trusted) and
with the real `load_score_midi` (same mode); both readings are compared with a reference model
computed in exact Fractions from the spec (mc/c04_model.py: Model.expected).

Compared observables and the sentence of the statement that licenses them
  ppq                 "ticks per quarter equal to the least common multiple of the score's divisions
                       (doubled up to the requested minimum)"
  note-ticks          "the same multiset of onset and duration ... and MIDI pitch, tied notes merged",
                      "every tick an exact integer image of the musical time"
  raw-pairing         a note-on for a pitch that is still sounding in the same track/channel, or a
                      note-off without note-on, means the file does not contain "exactly the score's
                      sounding notes" for any MIDI reader
  track-channel       "for each of the six part/voice to track/channel modes" (documented table,
                      compared as a partition: track/channel numbers themselves are free)
  velocity            "the requested note velocity is used"
  time/key/tempo      "Time signatures, key signatures and tempo marks appear at the same musical positions"
  reimport-*          "reading that file ... through the score importer", "the same mode on import
                      recovers the same grouping of notes into parts and voices"
"""
import os
import shutil
import tempfile
from fractions import Fraction

from mc.core import CaseResult, Space, run_check, block_of, innermost_partitura_frame, exc_text, Hang
from mc import c04_model as M
from mc.ir import build_score

PID = "C04"
RULE = (
    "one case = one score description with a list of configurations (mode, pickup policy, minimum_ppq, "
    "velocity, output kind, input kind); scores are enumerated exhaustively per named sub-space and are "
    "pairwise different by construction; non-trivial = the score has at least one sounding note and the "
    "export produced a file that could be compared"
)
ASSUMPTIONS = [
    "mido (file format layer) is trusted: the written file is read back with mido.MidiFile",
    "every part starts at timeline position 0 (the exporter evaluates the quarter map at 0)",
    "all parts of one score share measures and time signatures in musical time; key signatures differ per part "
    "(sub-space tempo-parts also has a pickup in some parts only: quarter 0 of every part is its first downbeat, "
    "as in Part.quarter_map, and time signatures are not compared for those scores)",
    "tempo marks are global: a mark of any part stands at the tick of its own musical position; two parts that "
    "carry a mark at one musical position are only generated with equal values",
    "a part without notes (tacet, sub-spaces modes and tempo-tacet) has no track of its own: its time and key "
    "signatures are not looked for, its tempo marks are (they are global); scores in which only tacet parts have a "
    "pickup, and scores without any note, are not generated",
    "track and channel numbers are free; only the partition of the notes into tracks and channels is compared",
    "pad_bar: the first time signature may stand at tick 0 (code's reading) or at the image of its position",
    "time_sig_change: checked as 'time signature in force at every measure start' = notated signature for "
    "complete measures, actual number of beats for incomplete/overlong ones (integral beats only); "
    "signature events may only stand on measure boundaries or notated positions",
    "tempo value: integer microseconds per quarter within 1 of 60e6/bpm (rounding direction free); a default "
    "tempo event at tick 0 is accepted when the score has no tempo mark there",
    "key mode None is read as major",
    "touching notes of equal pitch (one ends where the other starts) do not overlap and are generated; a "
    "zero-duration (grace) note is generated on an equal pitch only in the same voice, added before its main note "
    "(sub-space tick-order-grace also puts a grace note at the position where a note of its pitch ends or starts in "
    "ANOTHER voice or part: a zero-duration note overlaps nothing; in the file it must stand after the note-off and "
    "before the note-on of that pitch in its track/channel, which is what the raw pairing reads)",
    "sub-spaces tick-order*: a key signature / time signature placed at a hand-over stands in every part of the score",
    "configurations whose pad_bar padding is not a whole number of ticks are not generated",
    "the divisions value chosen by the importer is free: imported positions are compared in quarters",
    "import variant 'zerovel' (sub-spaces touch, modes): the written file with every note_off re-encoded as a "
    "note_on of velocity 0 is the same MIDI content (anchored mechanism 'zero-velocity note on as off'); the raw "
    "comparison always uses the file as written",
    "time_sig_change on a measure with a fractional number of beats (documented TODO of the exporter) is only "
    "generated in sub-space tsc-fractional, where the signature of that measure is not compared",
    "hang detection: 5 s of CPU time per export/import call (ITIMER_PROF), not wall-clock",
]
CHUNK = 4
CALL_CPU_LIMIT = 5.0  # seconds of CPU per export/import call (normal: < 0.05 s)
CASE_WALL_LIMIT = 300.0  # wall-clock backstop per case
PR_QUICK_WIDTH = 4  # sub-space pitch-range, quick tier: complete block of the 4 highest x the 4 lowest MIDI pitches

_TMP = None


def _tmpdir():
    global _TMP
    if _TMP is None or not os.path.isdir(_TMP):
        _TMP = tempfile.mkdtemp(prefix="c04-")
    return _TMP


def _cleanup():
    global _TMP
    if _TMP is not None:
        shutil.rmtree(_TMP, ignore_errors=True)
        _TMP = None


def _on_cpu_limit(signum, frame):
    raise Hang("call used more than %.0f s of CPU time" % CALL_CPU_LIMIT)


def timed(fn, *a, **kw):
    """run one call of the implementation under a CPU-time watchdog (a loop that never ends burns CPU; a
    wall-clock limit would misfire on a busy machine)"""
    import signal

    signal.signal(signal.SIGPROF, _on_cpu_limit)
    signal.setitimer(signal.ITIMER_PROF, CALL_CPU_LIMIT)
    try:
        return fn(*a, **kw)
    finally:
        signal.setitimer(signal.ITIMER_PROF, 0)


def fr(x):
    if isinstance(x, Fraction):
        return "%d/%d" % (x.numerator, x.denominator) if x.denominator != 1 else int(x)
    return x


def msdiff(exp, got, n=4):
    """multiset difference for reports: (expected but not found, found but not expected)"""
    from collections import Counter

    ce, cg = Counter(exp), Counter(got)
    return sorted((ce - cg).elements())[:n], sorted((cg - ce).elements())[:n]


def js(x):
    if isinstance(x, Fraction):
        return fr(x)
    if isinstance(x, (list, tuple)):
        return [js(v) for v in x]
    if isinstance(x, dict):
        return {str(k): js(v) for k, v in x.items()}
    return x


# ---------------------------------------------------------------------------------------------
# observation of the written file (mido objects only)


def read_raw(mf):
    """per track: notes [(channel, on, off, pitch, velocity)], metas, pairing problems"""
    tracks = []
    for ti, track in enumerate(mf.tracks):
        t = 0
        sounding = {}
        notes, tsl, ksl, tempos, problems = [], [], [], [], []
        for msg in track:
            if not isinstance(msg.time, (int,)) and not hasattr(msg.time, "__index__"):
                problems.append("non-integer delta time %r" % (msg.time,))
            if msg.time < 0:
                problems.append("negative delta time %r" % (msg.time,))
            t += int(msg.time)
            if msg.type == "note_on" and msg.velocity > 0:
                key = (msg.channel, msg.note)
                if key in sounding:
                    problems.append("note_on at tick %d for channel %d pitch %d that is still sounding since tick %d"
                                    % (t, msg.channel, msg.note, sounding[key][0]))
                sounding[key] = (t, msg.velocity)
            elif msg.type == "note_off" or msg.type == "note_on":
                key = (msg.channel, msg.note)
                if key not in sounding:
                    problems.append("note_off at tick %d for channel %d pitch %d that is not sounding" % (t, msg.channel, msg.note))
                else:
                    on, vel = sounding.pop(key)
                    notes.append((msg.channel, on, t, msg.note, vel))
            elif msg.type == "time_signature":
                tsl.append((t, msg.numerator, msg.denominator))
            elif msg.type == "key_signature":
                ksl.append((t, msg.key))
            elif msg.type == "set_tempo":
                tempos.append((t, msg.tempo))
        for key, (on, vel) in sorted(sounding.items()):
            problems.append("note_on at tick %d for channel %d pitch %d is never released" % (on, key[0], key[1]))
        tracks.append(dict(notes=notes, ts=tsl, ks=ksl, tempos=tempos, problems=problems))
    return tracks


def in_force(events, tick):
    """last (num, den) among events [(tick, num, den)] in file order with tick <= `tick`"""
    cur = None
    for t, a, b in events:
        if t <= tick:
            cur = (a, b)
    return cur


def check_ts(res, tsd, events, clause, where, detail, ordered=True):
    """events: [(tick, num, den)] of one track (file order) or of one imported part"""
    if tsd["kind"] == "none":
        return
    if tsd["kind"] == "exact":
        got = sorted(set((Fraction(t), a, b) for t, a, b in events))
        if not any(got == s for s in tsd["sets"]):
            res.fail(clause, expected=js(tsd["sets"][0]), observed=js(got), where=where, detail=detail)
        return
    # in force at every measure start
    for tick, a, b in tsd["points"]:
        if ordered:
            cur = in_force(events, tick)
            ok = cur == (a, b)
        else:
            # imported part: objects at one time have no order; accept any of the latest
            times = [t for t, _, _ in events if t <= tick]
            cur = sorted((x[1], x[2]) for x in events if times and x[0] == max(times))
            ok = (a, b) in cur
        if not ok:
            res.fail(clause, expected="%d/%d in force at tick %s" % (a, b, fr(tick)),
                     observed=js(dict(in_force=cur, events=events)), where=where, detail=detail)
            return
    stray = [e for e in events if Fraction(e[0]) not in tsd["allowed"]]
    if stray:
        res.fail(clause, expected="time signature events only at %s" % js(tsd["allowed"]), observed=js(stray),
                 where=where, detail=detail + " (stray event)")


def check_tempos(res, exp, got, clause, where, detail):
    """exp {tick: exact mpq Fraction}; got [(tick, mpq number)]"""
    got = sorted(set((Fraction(t), v) for t, v in got))
    extra_default = [(t, v) for t, v in got if t == 0 and abs(v - 500000) < 1e-6 and Fraction(0) not in exp]
    g = [x for x in got if x not in extra_default]
    ok = len(g) == len(exp) and all(t in exp and abs(Fraction(v) - exp[t]) < 1 + Fraction(1, 1000) for t, v in g)
    if not ok:
        res.fail(clause, expected=js(sorted((t, float(v)) for t, v in exp.items())),
                 observed=js([(t, float(v)) for t, v in got]), where=where, detail=detail)


# ---------------------------------------------------------------------------------------------
# observation of the re-imported score


def read_import(sc):
    import partitura.score as S

    def read_part(p):
        qd = p.quarter_durations()
        dvals = sorted(set(int(x) for x in qd[:, 1]))
        if len(dvals) != 1:
            raise AssertionError("imported part with several divisions %r" % (dvals,))
        d = dvals[0]
        voices = {}
        spells = set()
        for n in p.iter_all(S.Note, include_subclasses=True):
            spells.add((n.step, n.alter or 0))
            if n.tie_prev is not None:
                continue
            dur = 0
            cur = n
            k = 0
            while cur is not None:
                dur += cur.end.t - cur.start.t
                cur = cur.tie_next
                k += 1
                if k > 10000:
                    raise AssertionError("tie chain does not end")
            voices.setdefault(n.voice, []).append((Fraction(int(n.start.t), d), Fraction(int(dur), d), int(n.midi_pitch)))
        tsl = [(Fraction(int(o.start.t), d), int(o.beats), int(o.beat_type)) for o in p.iter_all(S.TimeSignature)]
        ksl = sorted((Fraction(int(o.start.t), d), int(o.fifths), "minor" if o.mode == "minor" else "major")
                     for o in p.iter_all(S.KeySignature))
        tempos = [(Fraction(int(o.start.t), d), o.bpm, o.unit) for o in p.iter_all(S.Tempo)]
        return dict(d=d, voices=voices, ts=tsl, ks=ksl, tempos=tempos, obj=p, spells=sorted(spells))

    def flat(x):
        if isinstance(x, S.PartGroup):
            out = []
            for c in x.children:
                out += flat(c)
            return out
        return [read_part(x)]

    items = []
    for x in sc.part_structure:
        items.append(("group" if isinstance(x, S.PartGroup) else "part", flat(x)))
    return items


# ---------------------------------------------------------------------------------------------


def select_input(sc, kind):
    if kind == "score":
        return sc
    if kind == "list":
        return list(sc.part_structure)
    if kind == "single":
        return sc.part_structure[0]
    raise ValueError(kind)


def run_config(res, spec, model, sc, cfg, ctx, keep=None, info=None):
    """one export + raw reading + import; returns a short outcome string; `info` (a dict) collects the pitch
    spellings chosen by the importer"""
    import mido
    import partitura
    from partitura.io.exportmidi import save_score_midi
    from partitura.io.importmidi import load_score_midi

    mode, pol, minppq, vel, out, inp = cfg[:6]
    enc = cfg[6] if len(cfg) > 6 else "plain"
    detail = "%s cfg=%s" % (ctx, cfg)
    exp = model.expected(mode, pol, minppq)
    if not exp["integral"]:
        return "skipped-nonintegral"
    kw = dict(part_voice_assign_mode=mode, anacrusis_behavior=pol, minimum_ppq=minppq)
    if vel is not None:
        kw["velocity"] = vel
    want_vel = 64 if vel is None else vel
    data = select_input(sc, inp)
    path = os.path.join(_tmpdir(), "s.mid")
    if os.path.exists(path):
        os.remove(path)
    res.transitions += 1
    try:
        if out == "none":
            mf_ret = timed(save_score_midi, data, None, **kw)
            if mf_ret is None:
                res.fail("export-runs", expected="a MidiFile", observed=None, where="save_score_midi", detail=detail)
                return "export-none"
            mf_ret.save(path)
        elif out == "fobj":
            with open(path, "wb") as f:
                r = timed(save_score_midi, data, f, **kw)
            mf_ret = None
        else:
            r = timed(save_score_midi, data, path, **kw)
            mf_ret = None
    except Hang as e:
        res.fail("export-runs", kind="hang", where="save_score_midi", observed=str(e), detail=detail)
        return "export-hang"
    except Exception as e:  # noqa
        res.fail("export-runs", kind="exception", where=innermost_partitura_frame(e), observed=exc_text(e), detail=detail)
        return "export-exception"
    mf = mido.MidiFile(path)
    raw = read_raw(mf)
    if mf_ret is not None:
        raw_mem = read_raw(mf_ret)
        if raw_mem != raw or int(mf_ret.ticks_per_beat) != int(mf.ticks_per_beat):
            res.fail("returned-object-equals-file", expected="same messages in the returned MidiFile and after saving it",
                     observed="different", where="save_score_midi(out=None)", detail=detail)
    if keep is not None:
        keep.append((int(mf.ticks_per_beat), raw))

    ppq = exp["ppq"]
    # --- ppq
    if int(mf.ticks_per_beat) != ppq:
        res.fail("ppq", expected=ppq, observed=int(mf.ticks_per_beat), where="save_score_midi: ticks_per_beat",
                 detail=detail + " lcm=%d" % model.L)
        return "ppq-mismatch"
    # --- pairing
    probs = [(i, p) for i, tr in enumerate(raw) for p in tr["problems"]]
    if probs:
        res.fail("raw-pairing", expected="every note_on is released before the same pitch starts again in its track/channel",
                 observed=["track %d: %s" % x for x in probs[:4]], where="save_score_midi: event order", detail=detail)
    # --- flat multiset of note ticks
    exp_flat = sorted((n["on"], n["off"], n["pitch"]) for n in exp["notes"])
    got_flat = sorted((Fraction(on), Fraction(off), pitch) for tr in raw for (_, on, off, pitch, _) in tr["notes"])
    outcome = "ok"
    if exp_flat != got_flat:
        if not probs:
            miss, extra = msdiff(exp_flat, got_flat)
            res.fail("note-ticks", expected=js(miss), observed=js(extra),
                     where="save_score_midi: note ticks", detail=detail + " ppq=%d (on, off, pitch): expected-not-found vs found-not-expected" % ppq)
        outcome = "ticks-mismatch"
    else:
        # --- grouping into tracks / channels, with the key signatures of the parts in each track
        def canon_track(chmap, ksset):
            return [sorted(sorted(v) for v in chmap.values()), sorted(ksset)]

        e_tracks = {}
        for n in exp["notes"]:
            pm_idx = n["part"]
            tr = e_tracks.setdefault(n["tr"], dict(ch={}, ks=set()))
            tr["ch"].setdefault(n["ch"], []).append((n["on"], n["off"], n["pitch"]))
            for t, f, m in exp["ks"][pm_idx]:
                tr["ks"].add((t, M.key_name(f, m)))
        e_canon = sorted(canon_track(v["ch"], v["ks"]) for v in e_tracks.values())
        g_canon = []
        for tr in raw:
            if not tr["notes"] and not tr["ks"] and not tr["ts"]:
                continue
            chmap = {}
            for ch, on, off, pitch, _ in tr["notes"]:
                chmap.setdefault(ch, []).append((Fraction(on), Fraction(off), pitch))
            g_canon.append(canon_track(chmap, set((Fraction(t), k) for t, k in tr["ks"])))
        g_canon.sort()
        if e_canon != g_canon:
            e_notes = [x[0] for x in e_canon]
            g_notes = [x[0] for x in g_canon]
            if sorted(e_notes) != sorted(g_notes):
                res.fail("track-channel-grouping", expected=js(e_notes), observed=js(g_notes),
                         where="save_score_midi: map_to_track_channel", detail=detail + " (tracks > channels > notes)")
            else:
                res.fail("key-signatures", expected=js([x[1] for x in e_canon]), observed=js([x[1] for x in g_canon]),
                         where="save_score_midi: key_signature events", detail=detail + " (per track, tracks ordered by note content)")
            outcome = "grouping-mismatch"
    # --- velocity
    vels = sorted(set(v for tr in raw for (_, _, _, _, v) in tr["notes"]))
    if vels and vels != [want_vel]:
        res.fail("velocity", expected=want_vel, observed=vels, where="save_score_midi: note_on velocity", detail=detail)
    # --- time signatures per track
    invalid = [(i, e) for i, tr in enumerate(raw) for e in tr["ts"] if e[1] < 1]
    if invalid:
        res.fail("time-signatures", expected="numerator >= 1 in every time signature event", observed=js(invalid[:4]),
                 where="save_score_midi: time_signature events", detail=detail + " (track, (tick, numerator, denominator))")
        return outcome + "/invalid-time-signature"  # not fed to the importer
    for i, tr in enumerate(raw):
        if not tr["notes"]:
            continue
        check_ts(res, exp["ts"], tr["ts"], "time-signatures", "save_score_midi: time_signature events",
                 detail + " track=%d" % i)
    # --- tempo
    check_tempos(res, exp["tempos"], [x for tr in raw for x in tr["tempos"]], "tempo",
                 "save_score_midi: set_tempo events", detail)

    # --- through the importer
    res.transitions += 1
    try:
        if enc == "zerovel":
            # the equivalent standard encoding of the same file: every note_off as a note_on with velocity 0
            mf2 = mido.MidiFile(type=mf.type, ticks_per_beat=mf.ticks_per_beat)
            for tr in mf.tracks:
                mf2.tracks.append(mido.MidiTrack(
                    mido.Message("note_on", note=m.note, velocity=0, channel=m.channel, time=m.time) if m.type == "note_off" else m
                    for m in tr))
            path2 = os.path.join(_tmpdir(), "z.mid")
            mf2.save(path2)
            sc2 = timed(load_score_midi, path2, part_voice_assign_mode=mode)
        elif out == "none":
            sc2 = timed(load_score_midi, mf_ret, part_voice_assign_mode=mode)
        elif out == "fobj" and mode == 0:
            sc2 = timed(partitura.load_score, path)
        else:
            sc2 = timed(load_score_midi, path, part_voice_assign_mode=mode)
        items = read_import(sc2)
    except Hang as e:
        res.fail("import-runs", kind="hang", where="load_score_midi", observed=str(e), detail=detail)
        return outcome + "/import-hang"
    except Exception as e:  # noqa
        res.fail("import-runs", kind="exception", where=innermost_partitura_frame(e), observed=exc_text(e), detail=detail)
        return outcome + "/import-exception"
    parts = [p for _, ps in items for p in ps]
    if info is not None:
        info.setdefault("imported_spellings", set()).update(tuple(x) for p in parts for x in p["spells"])
    for p in parts:
        # the divisions chosen by the importer are free: positions are compared in quarters (x ppq = ticks)
        p["ts"] = [(q * ppq, a, b) for q, a, b in p["ts"]]
    exp_q = sorted((n["on"] / ppq, (n["off"] - n["on"]) / ppq, n["pitch"]) for n in exp["notes"])
    got_q = sorted(x for p in parts for v in p["voices"].values() for x in v)
    if exp_q != got_q:
        miss, extra = msdiff(exp_q, got_q)
        res.fail("reimport-notes", expected=js(miss), observed=js(extra),
                 where="load_score_midi: notes (onset_quarter, duration_quarter, pitch)",
                 detail=detail + " imported divisions=%r: expected-not-found vs found-not-expected" % ([p["d"] for p in parts],))
        return outcome + "/reimport-notes-mismatch"
    # grouping: top-level items > parts > voices > notes, with the key signatures of each part
    # (key signature events carry no channel: an imported part shows those of every part written to its track)
    ks_by_track = {}
    for n in exp["notes"]:
        ks_by_track.setdefault(n["tr"], set()).update((t / ppq, f, m) for t, f, m in exp["ks"][n["part"]])
    e_items = {}
    for n in exp["notes"]:
        top, prt, vc = n["imp"]
        it = e_items.setdefault(top, {})
        pp = it.setdefault(prt, dict(v={}, ks=set()))
        pp["v"].setdefault(vc, []).append((n["on"] / ppq, (n["off"] - n["on"]) / ppq, n["pitch"]))
        pp["ks"].update(ks_by_track[n["tr"]])
    kind = "group" if mode == 1 else "part"
    e_canon = sorted([kind, sorted([sorted(sorted(v) for v in pp["v"].values()), sorted(pp["ks"])] for pp in it.values())]
                     for it in e_items.values())
    g_canon = sorted([k, sorted([sorted(sorted(v) for v in p["voices"].values()), sorted(p["ks"])] for p in ps)]
                     for k, ps in items)
    if e_canon != g_canon:
        strip = lambda c: sorted([k, sorted(x[0] for x in ps)] for k, ps in c)
        if strip(e_canon) != strip(g_canon):
            res.fail("reimport-grouping", expected=js(strip(e_canon)), observed=js(strip(g_canon)),
                     where="load_score_midi: assign_group_part_voice", detail=detail + " (items > parts > voices > notes)")
        else:
            res.fail("reimport-key-signatures", expected=js([[x[1] for x in ps] for _, ps in e_canon]),
                     observed=js([[x[1] for x in ps] for _, ps in g_canon]), where="load_score_midi: key signatures",
                     detail=detail)
        outcome += "/reimport-grouping-mismatch"
    for i, p in enumerate(parts):
        tsd = exp["ts"]
        if tsd["kind"] == "exact" and not any(s for s in tsd["sets"]):
            continue  # no time signature in the score: the importer's assumed 4/4 is not compared
        check_ts(res, tsd, p["ts"], "reimport-time-signatures", "load_score_midi: time signatures",
                 detail + " imported part %d" % i, ordered=False)
    tl = []
    for p in parts:
        for t, bpm, unit in p["tempos"]:
            if unit not in (None, "q") or not bpm > 0:
                res.fail("reimport-tempo", expected="quarter tempo", observed=[js(t), bpm, unit], detail=detail)
            else:
                tl.append((t * ppq, 60e6 / bpm))
    check_tempos(res, exp["tempos"], tl, "reimport-tempo", "load_score_midi: tempo marks", detail)
    # note arrays of the re-imported parts (onset/duration in quarters, up to the constant pickup offset)
    try:
        for i, p in enumerate(parts):
            na = p["obj"].note_array()
            want = sorted(x for v in p["voices"].values() for x in v)
            if len(na) != len(want):
                res.fail("reimport-note-array", expected=len(want), observed=len(na), where="Part.note_array", detail=detail)
                continue
            if not len(na):
                continue
            o0 = min(float(x) for x in na["onset_quarter"])
            w0 = min(x[0] for x in want)
            got = sorted((float(a) - o0, float(b), int(c)) for a, b, c in zip(na["onset_quarter"], na["duration_quarter"], na["pitch"]))
            ref = sorted((float(x[0] - w0), float(x[1]), x[2]) for x in want)
            if any(abs(a[0] - b[0]) > 1e-6 * max(1, abs(b[0])) or abs(a[1] - b[1]) > 1e-6 * max(1, abs(b[1])) or a[2] != b[2]
                   for a, b in zip(got, ref)):
                res.fail("reimport-note-array", expected=ref[:6], observed=got[:6], where="Part.note_array of imported part",
                         detail=detail + " part %d" % i)
    except Exception as e:  # noqa
        res.fail("reimport-note-array", kind="exception", where=innermost_partitura_frame(e), observed=exc_text(e), detail=detail)
    return outcome


def eval_case(case):
    import signal

    # every call of the implementation has its own CPU-time limit (see timed); the runner's wall-clock alarm
    # is only a backstop and is widened so that a stalled machine does not look like a hang
    signal.setitimer(signal.ITIMER_REAL, CASE_WALL_LIMIT)
    spec = case["score"]
    cfgs = case["configs"]
    res = CaseResult(states=0, transitions=0, traces=0)
    model = M.Model(spec)
    nnotes = sum(len(pm.chains()) for pm in model.parts)
    sc = build_score(spec)
    ctx = case.get("tag", "")
    outs = []
    keep = []
    info = {} if case.get("spelling") else None
    try:
        for cfg in cfgs:
            o = run_config(res, spec, model, sc, cfg, ctx, keep if cfg is cfgs[0] else None, info)
            if not o.startswith("skipped"):
                res.states += 1
                res.traces += 1
            outs.append(o)
        # repeatability on the same objects: the first configuration again, after all the others
        if keep and len(cfgs) > 1 and len(res.violations) == 0:
            again = []
            run_config(res, spec, model, sc, cfgs[0], ctx + " (repeated after the other configurations)", again)
            if again and again[0] != keep[0]:
                res.fail("repeatable", expected="the same file for the same score and configuration", observed="different messages",
                         where="save_score_midi", detail="%s cfg=%s" % (ctx, cfgs[0]))
    finally:
        _cleanup()
    bad = sorted(set(o for o in outs if o != "ok"))
    res.outcome = "notes=%d parts=%d lcm=%d pickup=%d %s" % (
        min(nnotes, 9), len(model.parts), model.L, int(model.has_pickup()), ",".join(bad) if bad else "ok")
    if info is not None:
        # sub-space spelling: does a written / an imported spelling leave the octave of its step (B sharp, C flat)?
        written = set((o["step"], o.get("alter") or 0) for _, ps in M.flat_parts(spec) for o in ps["objs"] if o["k"] == "note")
        res.outcome += " written-crossing=%d imported-crossing=%d" % (
            int(any(M.crosses_octave(*x) for x in written)),
            int(any(M.crosses_octave(*x) for x in info.get("imported_spellings", ()))))
    res.nontrivial = nnotes > 0 and any(not o.startswith("skipped") and not o.startswith("export") for o in outs)
    return res


# ---------------------------------------------------------------------------------------------
# spaces


def _pad_ok(model, minppq):
    """pad_bar is only generated when its padding is a whole number of ticks"""
    if not model.has_pickup():
        return True
    return (model.ppq(minppq) * model.origin("pad_bar")).denominator == 1


def with_configs(gen, cfg_fn, fractional=False):
    i = 0
    for c in gen:
        model = M.Model(c["score"])
        cfgs = [cfg for cfg in cfg_fn(i, model) if cfg[1] != "pad_bar" or _pad_ok(model, cfg[2])]
        if not fractional and model.fractional_measures():
            # time_sig_change on a measure with a fractional number of beats is a documented TODO of the
            # exporter; those scores meet that policy only in the sub-space tsc-fractional
            cfgs = [cfg for cfg in cfgs if cfg[1] != "time_sig_change"]
        c = dict(c)
        c["configs"] = [list(x) for x in cfgs]
        i += 1
        yield c


def cfg_grid(i, model):
    out = []
    k = i
    for pol in M.POLICIES:
        for mp in (0, model.L + 1, 480):
            out.append((k % 6, pol, mp, 64, "path", "score"))
            k += 1
    return out


def cfg_cycle(n):
    combos = [(m, p) for m in M.MODES for p in M.POLICIES]

    def f(i, model):
        return [combos[(i * n + j) % len(combos)] + ((0, 7)[(i + j) % 2], 64, "path", "score") for j in range(n)]

    return f


def cfg_pickup(i, model):
    out = []
    for pol in M.POLICIES:
        out.append(((0, 3)[i % 2], pol, 0, 64, "path", "score"))
        out.append((4, pol, 480, 80, "path", "list"))
    return out


def cfg_modes(i, model):
    out = []
    k = i
    for mode in M.MODES:
        for pol in M.POLICIES:
            out.append((mode, pol, (0, 7, 480)[k % 3], 64, "path", "score"))
            k += 1
    for mode in M.MODES:
        out.append((mode, M.POLICIES[(i + mode) % 3], 0, 64, "path", "score", "zerovel"))
    return out


def cfg_touch(i, model):
    return [(mode, "shift", 0, 64, "path", "score", enc) for mode in M.MODES for enc in ("plain", "zerovel")]


def cfg_divchange(i, model):
    out = []
    k = i
    for pol in M.POLICIES:
        for mp in (0, model.L + 1):
            out.append((k % 6, pol, mp, 64, "path", "score"))
            k += 1
    return out


def cfg_voicemix(i, model):
    """every mode in which no two notes of equal pitch overlap within one track/channel (quantifier of the
    statement); the zero-velocity re-encoding for the import alternates with the file as written"""
    out = []
    for mode in M.MODES:
        if M.same_channel_overlap(model, mode):
            continue
        out.append((mode, "shift", (0, 7)[(i + mode) % 2], 64, "path", "score", ("plain", "zerovel")[(i + mode) % 2]))
    return out


def cfg_tempoparts(i, model):
    """the three pickup policies (the tick of a tempo mark depends on the policy through the origin), modes,
    minimum_ppq and the input kind cycled"""
    return [((i + j) % 6, pol, (0, 7)[(i + j) % 2], 64, "path", ("score", "list")[(i // 2 + j) % 2])
            for j, pol in enumerate(M.POLICIES)]


def cfg_tickorder(i, model):
    """all six modes (touching notes never overlap: every mode is inside the quantifier); pickup policy (no
    pickup here: the three policies must write the same notes), minimum_ppq and the import encoding cycled"""
    return [(mode, M.POLICIES[(i + mode) % 3], (0, 7)[(i + mode) % 2], 64, "path", "score",
             ("plain", "zerovel")[(i // 2 + mode) % 2]) for mode in M.MODES]


def cfg_tickorder_half(i, model):
    """quick tier of tick-order-grace: three of the six configurations of cfg_tickorder per score, modes {0,2,4} or
    {1,3,5} by the parity of the number of one bits of the case index (independent of every single binary
    dimension of the generator)"""
    h = bin(i).count("1") % 2
    return [c for c in cfg_tickorder(i, model) if c[0] % 2 == h]


def cfg_spelling(i, model):
    return [(i % 6, M.POLICIES[i % 3], 0, 64, "path", "score"),
            ((i + 3) % 6, "shift", 7, 100, "none", "score")]


def gen_options():
    for name, spec in M.option_scores():
        model = M.Model(spec)
        L = model.L
        single = len(spec["parts"]) == 1
        mins = sorted({0, 1, L, L + 1, 2 * L, 2 * L + 1, 7, 480, 960})
        for out in ("path", "none", "fobj"):
            for inp in ("score", "list") + (("single",) if single else ()):
                cfgs = []
                k = 0
                for vel in (None, 1, 64, 100, 127):
                    for mp in mins:
                        cfgs.append(((0, 4, 5)[k % 3] if out != "fobj" else (0, 0, 1)[k % 3], ("shift", "pad_bar")[k % 2], mp, vel, out, inp))
                        k += 1
                cfgs = [c for c in cfgs if c[1] != "pad_bar" or _pad_ok(model, c[2])]
                yield dict(score=spec, configs=[list(c) for c in cfgs], tag="options %s out=%s input=%s" % (name, out, inp))


def _block(gen, nblocks, seed):
    for c in gen:
        if block_of([c["tag"]], nblocks) == seed % nblocks:
            yield c


def spaces(tier, seed):
    quick = tier == "quick"
    sp = []
    ds = [1, 2, 3, 4, 5, 6, 7, 8, 12, 24]
    sp.append(Space("grid", lambda: with_configs(M.gen_grid(ds), cfg_grid), True,
                    "divisions %s, 2/4, every pickup length (6 lengths for divisions > 6), a note on every division of "
                    "two bars; 3 policies x minimum_ppq {0, lcm+1, 480}, modes cycled" % ds))
    sp.append(Space("pickup", lambda: with_configs(M.gen_pickup([1, 2, 4, 6] if quick else [1, 2, 3, 4, 6, 12]), cfg_pickup), True,
                    "meters %s x divisions x every pickup length (6 lengths for bars > 8 divisions) x {plain, time "
                    "signature change, short middle bar, short last bar, overlong bar followed by a change}; key change, two "
                    "tempo marks, ties over barlines; 3 policies x (mode 0/3, mode 4 with list input, velocity 80, minimum 480)"
                    % (M.PICKUP_METERS,)))
    pats = M.DIV_PATTERNS if quick else M.DIV_PATTERNS + M.DIV_PATTERNS_MORE
    sp.append(Space("modes", lambda: with_configs(M.gen_modes(pats), cfg_modes), True,
                    "%d part/group/voice structures (tacet parts, nested groups, voice None, voice None or 0 next to numbered "
                    "voices in one part) x %d divisions patterns x pickup "
                    "yes/no (+ parts of unequal length for the first pattern); 6 modes x 3 policies (full), minimum_ppq cycled "
                    "over {0,7,480}; plus one zero-velocity re-encoding import per mode" % (len(M.STRUCTURES), len(pats))))
    sp.append(Space("touch", lambda: with_configs(M.gen_touch(), cfg_touch), True,
                    "3 touching notes of one pitch assigned in all 27 ways to (part 1 voice 1, part 1 voice 2, part 2), "
                    "6 grace-note constellations; divisions {1,6}; 6 modes x {file as written, same file with note-offs "
                    "re-encoded as zero-velocity note-ons} for the import"))
    sp.append(Space("divchange", lambda: with_configs(M.gen_divchange(), cfg_divchange), True,
                    "divisions change a->b for all ordered pairs of %s at a barline or mid-bar, 4 triples; pickup yes/no; "
                    "3 policies x minimum {0, lcm+1}, modes cycled" % (M.DIVCHANGE_VALUES,)))
    sp.append(Space("voicemix", lambda: with_configs(M.gen_voicemix(), cfg_voicemix), True,
                    "3 notes of one pitch (two overlapping, two touching) assigned in all ways to (part 1 without voice "
                    "number, part 1 voice 1, part 1 voice 2, part 2 without voice number, part 2 voice 1) except both "
                    "overlapping notes in one (part, voice): 100 assignments x 'no voice number' written as {None, 0}; "
                    "divisions {6,1} alternating; every mode of the 6 in which no equal pitches overlap within a "
                    "track/channel (modes 0 and 5 always), import of the file as written or re-encoded with zero-velocity "
                    "note-ons (alternating)"))
    if quick:
        tot = lambda: M.gen_tickorder_touch(carriers="cycle")
        tog = lambda: M.gen_tickorder_grace(ngrace=(1,), carriers="cycle")
        to_b = ("the carrier of the tempo marks of a two-part score alternates between its first and its last part "
                "(marks of one score in one part)", "one grace note; tempo carrier alternating", "modes {0,2,4} or {1,3,5} "
                "per score (alternating by the bit count of the case index)")
        to_cfg = cfg_tickorder_half
    else:
        tot = lambda: M.gen_tickorder_touch(carriers="all")
        tog = lambda: M.gen_tickorder_grace(ngrace=(1, 2), carriers="all")
        to_b = ("every tempo mark of a two-part score in its first or its last part, independently per position",
                "one or two grace notes; tempo mark in the first and in the last part", "6 modes")
        to_cfg = cfg_tickorder
    sp.append(Space("tick-order", lambda: with_configs(tot(), cfg_tickorder), True,
                    "order of the events of one tick when meta events stand at a hand-over: 3 touching notes of one pitch "
                    "(quarters 0-1, 1-2, 2-4 of two bars 2/4) assigned in all 27 ways to (part 1 voice 1, part 1 voice 2, "
                    "part 2 voice 1) - hand-over inside a voice, between voices, between parts, the key of the starting "
                    "note registered before or after that of the ending note - x at each of the two hand-over positions "
                    "every combination of {tempo mark, key signature (in every part)} and, at the barline (quarter 2), "
                    "{time signature change 2/4 -> 3/4 (in every part)}; %s; an anchor note of another pitch per part; "
                    "divisions {1,6} cycled; 6 modes, policy, minimum_ppq {0,7} and import encoding {as written, "
                    "zero-velocity note-ons} cycled" % to_b[0]))
    sp.append(Space("tick-order-grace", lambda: with_configs(tog(), to_cfg), True,
                    "grace notes at a hand-over with meta events at its tick: at quarter 2 (barline of 2/4) on ONE pitch "
                    "{end of a note E in home hE, or none} x {grace note(s) in home hG, chained to the main note} x "
                    "{start of a note S in home hS, or none}; main note = S if hS = hG, else a note of another pitch in "
                    "hG; a lead note (quarters 0-1, other pitch) in home `lead` registers that (part, voice) first; all "
                    "(lead, hE, hG, hS) over homes (part 1 voice 1, part 1 voice 2, part 2 voice 1) x every subset of "
                    "{tempo mark, key signature, time signature change} at quarter 2; %s; divisions {1,6} cycled; %s, "
                    "policy, minimum_ppq {0,7} and import encoding cycled" % to_b[1:3]))
    tk = M.TEMPO_KINDS if quick else M.TEMPO_KINDS + M.TEMPO_KINDS_MORE
    sp.append(Space("tempo-parts", lambda: with_configs(M.gen_tempoparts(tk, tk[:3] if quick else tk[:4] + tk[7:9]), cfg_tempoparts), True,
                    "tempo marks in scores of several parts with different quarter maps (2/4, two bars, quarter 0 = first "
                    "downbeat): (a) all ordered pairs of %d quarter-map kinds %s (constant divisions, divisions change at the "
                    "barline or mid-bar) x one-quarter pickup yes/no per part (so also a pickup in one part only) x marks "
                    "{all candidates in part 1, all in part 2, alternating between the parts, both phases}; candidates = "
                    "every quarter, the first division after every divisions value starts to hold, the last division of "
                    "the part; the tempo value is a function of the musical position; (b) exactly one mark in the score: "
                    "all pairs of the %d constant-divisions kinds x pickups x carrier part x every candidate; (c) three parts: %d triples "
                    "of kinds x 5 pickup patterns x {all in part k, rotating, 3 phases}; flat parts or the first two in a "
                    "group (cycled); 3 policies, mode, minimum_ppq {0,7} and input {Score, list} cycled; time signatures "
                    "are not compared when the pickups of the parts differ"
                    % (len(tk), [[list(x) for x in k] for k in tk], 3 if quick else 6, len(M.TEMPO_TRIPLES))))
    if quick:
        tt = lambda: M.gen_tempotacet(tk, tk[:2], tk[:3], M.TEMPO_TRIPLES[:2])
    else:
        tt = lambda: M.gen_tempotacet(tk, tk[:4] + tk[7:9], tk[:4] + tk[7:9], M.TEMPO_TRIPLES)
    sp.append(Space("tempo-tacet", lambda: with_configs(tt(), cfg_tempoparts), True,
                    "scores of sub-space tempo-parts in which some but not all parts have NO notes (tacet: one rest per "
                    "quarter, measures, time and key signatures, Tempo objects): (a) two parts, the tacet one first or "
                    "second: %d quarter-map kinds of the tacet part x %d kinds of the sounding part x pickups per part x "
                    "marks {all candidates in part 1, all in part 2, alternating, both phases}; (b) exactly one mark in "
                    "the score, in the tacet part: %d kinds x tacet first/second x pickups x every candidate position; "
                    "(c) three parts: %d triples of kinds x every non-empty proper subset of the parts tacet x pickup "
                    "in all parts / in none x {all in part k, rotating, 3 phases}; pickup vectors in which only tacet "
                    "parts have a pickup are not generated; flat parts or the first two in a group (cycled); 3 policies, "
                    "mode, minimum_ppq {0,7} and input {Score, list} cycled"
                    % ((len(tk), 2, 3, 2) if quick else (len(tk), 6, 6, len(M.TEMPO_TRIPLES)))))
    if quick:
        lt = lambda: M.gen_longtie()
        lt_bounds = "metres %s, smallest divisions with integral beats, no pickup, ends in measure 4 only at its end" % (
            M.LONGTIE_METERS,)
    else:
        lt = lambda: M.gen_longtie(M.LONGTIE_METERS + M.LONGTIE_METERS_MORE, far_ends="all", pickups=(False, True))
        lt_bounds = ("metres %s, smallest divisions with integral beats, with and without a one-beat pickup, "
                     "every beat of measure 4 as end" % (M.LONGTIE_METERS + M.LONGTIE_METERS_MORE,))
    sp.append(Space("longtie", lambda: with_configs(lt(), cfg_cycle(2)), True,
                    "one note held over >= 2 barlines (a whole measure inside it): every start beat of measure 1 x every end "
                    "beat of measure 3 (and measure 4) x {chain tied at every barline, one untied note}, a touching note of "
                    "the same pitch after it, second voice on every downbeat; %s; 2 of the 18 (mode, policy) combinations "
                    "per score, cycled" % lt_bounds))
    if quick:
        spg = lambda: M.gen_spelling()
        sp_bounds = "tonic octaves (2, 4), scales major and harmonic minor, enharmonic sets at MIDI 60..71"
    else:
        spg = lambda: M.gen_spelling(tonic_octaves=(1, 2, 3, 4, 5, 6), scales=tuple(sorted(M.SCALES)),
                                     registers=tuple(range(0, 11)))
        sp_bounds = ("tonic octaves 1..6, scales %s, enharmonic sets at every MIDI pitch 0..127" % (sorted(M.SCALES),))
    sp.append(Space("spelling", lambda: with_configs(spg(), cfg_spelling), True,
                    "written pitch spellings, one voice, 4/4, divisions 2, one note at a time: (a) every step C..B x "
                    "alter %s in every octave -1..9 with MIDI pitch in 0..127 (ascending quarters, every second one as "
                    "two tied eighths); (b) for every pitch class all its spellings with alter -2..2 of one MIDI pitch, "
                    "touching; (c) a 23-note passage (scale up and down, triad arpeggio, leading note - tonic) in every key "
                    "signature -7..7 x scale x tonic octave, written as scale degrees with the key signature (B sharp, "
                    "C flat, E sharp, F flat, double accidentals where the key has them) and again as the same MIDI pitches "
                    "written with naturals and sharps only (the importer's pitch spelling alone decides the re-imported "
                    "spellings); %s; 2 configurations per score (modes, policies cycled; path / returned MidiFile)"
                    % (list(M.SPELL_ALTERS), sp_bounds)))
    if quick:
        PB = 8
        core = M.pitchrange_pairs(PR_QUICK_WIDTH)
        rest_ = [p for p in M.pitchrange_pairs(8, full=True) if p not in core]
        pr_pairs = core + [p for p in rest_ if block_of(list(p), PB) == seed % PB]
        pr_bounds = ("pitch pairs {%d..127} x {0..%d} complete, plus hash block %d of %d of the thorough alphabet"
                     % (128 - PR_QUICK_WIDTH, PR_QUICK_WIDTH - 1, seed % PB, PB))
    else:
        pr_pairs = M.pitchrange_pairs(8, full=True)
        pr_bounds = ("pitch pairs {120..127} x {0..7}, every pitch 1..127 against pitch 0 and pitch 127 against every "
                     "pitch 0..126 (every pitch difference 1..127 at both edges of the range)")
    sp.append(Space("pitch-range", lambda: with_configs(M.gen_pitchrange(pr_pairs), cfg_tickorder), True,
                    "two notes X, Y of DIFFERENT pitch (pX > pY) sounding together in different homes, over the edges of "
                    "the MIDI pitch range: %s; X and Y in every ordered pair of different homes of (part 1 voice 1, part 1 "
                    "voice 2, part 2 voice 1) - the higher pitch in the earlier or the later voice/part, i.e. on the "
                    "lower or the higher channel - two-part scores flat and with both parts in one group: %d layouts; "
                    "per score, 3 bars of 4/4, divisions 2: X holding while Y starts and ends, both starting and ending "
                    "together, staggered overlap, Y holding while X starts and ends; 6 modes (different pitches never "
                    "collide: every mode is inside the quantifier), policy, minimum_ppq {0,7} and import encoding {as "
                    "written, zero-velocity note-ons} cycled" % (pr_bounds, len(M.pitchrange_layouts()))))
    sp.append(Space("options", gen_options, True,
                    "3 scores x output {path, returned MidiFile, file object} x input {Score, list, single Part/PartGroup} x "
                    "velocity {default,1,64,100,127} x minimum_ppq {0,1,L,L+1,2L,2L+1,7,480,960}; modes and shift/pad_bar cycled; "
                    "file-object cases of mode 0 are imported through partitura.load_score"))
    sp.append(Space("tsc-fractional", lambda: with_configs(gen_fractional(), cfg_fractional, fractional=True), True,
                    "4/4, 2/2, 6/8 with divisions {1,2}: every pickup whose length is not a whole number of beats, policy "
                    "time_sig_change only (modes 0 and 4); notes, key signatures and tempo are compared, the time signature "
                    "of the fractional measure is not (documented TODO), but every written signature must be valid"))
    if quick:
        core = ["trip3", "e38", "trip12"]
        for s in core:
            sp.append(Space("rhythm-%s-n4" % s, (lambda s=s: with_configs(M.gen_rhythm(s, 4), cfg_cycle(2))), True,
                            "setting %s %r: all compositions of 4 slots into rest/A/B/chord events with every subset of "
                            "ties; 2 of the 18 (mode, policy) combinations per score, cycled" % (s, M.RHYTHM_SETTINGS[s])))
        B = 12
        for s in ["trip3", "sext6", "quint5", "trip24"]:
            sp.append(Space("rhythm-%s-n5-block" % s,
                            (lambda s=s: with_configs(_block(M.gen_rhythm(s, 5), B, seed), cfg_cycle(2))), True,
                            "setting %s %r, 5 slots: hash block %d of %d of the complete enumeration" % (
                                s, M.RHYTHM_SETTINGS[s], seed % B, B)))
    else:
        for s in sorted(x for x in M.RHYTHM_SETTINGS if x != "q34"):
            sp.append(Space("rhythm-%s-n5" % s, (lambda s=s: with_configs(M.gen_rhythm(s, 5), cfg_cycle(2))), True,
                            "setting %s %r: all compositions of 5 slots into rest/A/B/chord events with every subset of "
                            "ties; 2 of the 18 (mode, policy) combinations per score, cycled" % (s, M.RHYTHM_SETTINGS[s])))
        for s in ["trip3", "sext6"]:
            sp.append(Space("rhythm-%s-n6" % s, (lambda s=s: with_configs(M.gen_rhythm(s, 6, chords=False), cfg_cycle(2))), True,
                            "setting %s, 6 slots, rest/A/B events (no chords), every subset of ties" % s))
    return sp


def gen_fractional():
    for c in M.gen_pickup([1, 2], variants=("plain",)):
        m = M.Model(c["score"])
        fm = m.fractional_measures()
        if fm and c["tag"].split()[1] in ("4/4", "2/2", "6/8"):
            yield c


def cfg_fractional(i, model):
    return [(0, "time_sig_change", 0, 64, "path", "score"), (4, "time_sig_change", 7, 64, "none", "score")]


def _tsc_measure_shorter_than_a_beat(case, v):
    """known finding: time_sig_change writes int(number of beats) as numerator; a measure shorter than one
    beat gives a time signature 0/x (which load_score_midi cannot digest)"""
    if "'time_sig_change'" not in v.get("detail", ""):
        return False
    m = M.Model(case["score"])
    return any(b < 1 for _, _, _, b in m.fractional_measures())


TRIGGERS = {"tsc_measure_shorter_than_a_beat": _tsc_measure_shorter_than_a_beat}

if __name__ == "__main__":
    import checks.c04 as _m

    run_check(_m)
