"""C13 - a piano roll shows exactly the given notes, in their cells, with their velocity.

Bounded-exhaustive comparison of `compute_pianoroll`, `compute_pitch_class_pianoroll` and
`pianoroll_to_notearray` (partitura/utils/music.py) with an independent rasteriser written from the
property statement (exact `Fraction` arithmetic, DESIGN section 4, C13).

Every case is one note array (or one integer roll) together with a *named set of option
combinations*; `eval_case` runs the real implementation once per combination and compares

  shape        128 rows / 88 in piano range / pitch span + 2 * margin; columns = leading margin +
               frames from the start (first onset, or 0 / the negative first onset when silence is
               kept) to the last note end (or `end_time`) + trailing margin
  cells        cell (p, j) != 0 exactly for the frames a note of pitch p covers (onset frame only /
               last frame dropped / at least one frame)
  velocity     the value of a cell: the note's own velocity, 1 without velocities or in binary
               mode, the maximum where notes collide - independent of the order of the rows
  index-rows   one row per (non-drum) input note, in input order: row, first frame, end frame, pitch
  pc-fold      the pitch-class roll is the octave fold of the full roll (binarised / normalised)
  round-trip   roll of grid-aligned non-touching notes -> note array recovers all four columns
  inverse      every integer roll (128 or 88 rows) of non-touching runs decodes into exactly its runs
  decode-consistent
               every integer roll (128 or 88 rows) - also one in which a row changes its non-zero value from
               one frame to the next (touching / colliding notes of different velocity), and every roll
               compute_pianoroll returns with 128 / 88 rows under any option combination - decodes into
               notes whose own roll (reference rasteriser, maximum on collision) is the given roll

Magnitude dimension (spaces magnitude-*): the small two-row families again with every time multiplied by a large factor
and / or shifted by a large offset (frame numbers on both sides of 2**16, around 2**20 and 2**24, reached through late
onsets with the silence kept, a gap after an early note, a pickup far before 0, a large time_div, a large time_margin),
notes longer than 2**16 frames, and regular arrays of 30 .. 2600 notes; shape / cells / velocity / index-rows / pc-fold
are compared on the sparse matrix.
"""
import itertools
from fractions import Fraction as F

import numpy as np

from mc.core import CaseResult, Space, run_check, block_of, innermost_partitura_frame, exc_text, Hang

PID = "C13"
RULE = (
    "a case is one note array (ordered rows; times on the frame grid of the chosen resolution, or "
    "off-grid away from rounding ties) or one integer roll, evaluated under every option combination "
    "of its named option set; each (input, option combination) pair is one state; non-trivial = the "
    "expected roll has at least two distinct non-zero cells or a collision; the magnitude spaces repeat the small "
    "two-row families under every magnitude (factor, offset, resolution, margin) of a stated list"
)
ASSUMPTIONS = [
    "first frame of a note = round(time_div * (onset - start)), number of frames = max(1, round(time_div * duration)); "
    "off-grid inputs are only generated where this equals round(time_div * (onset + duration - start)) and no value "
    "lies exactly half-way between two frames",
    "start = first onset when remove_silence, else min(0, first onset); the time span ends at the last note end "
    "(full duration, also in onset-only and note-separation mode) or at end_time; time_margin * time_div empty "
    "columns are added on both sides (docstring of compute_pianoroll)",
    "end_time is generated as start + (last frame end)/time_div or one time unit later, so it never cuts a note",
    "notes on channel 9 are left out unless remove_drums=False (docstring); arrays whose notes are all drums are not generated",
    "piano_range is only combined with pitch_margin=-1; for notes outside 21..108 the first index column is not compared "
    "and such notes never delimit the time span",
    "in onset-only mode the third index column may be onset+1 or the note's end frame (with or without separation)",
    "velocity 0 and empty note arrays are outside the quantifier; order and ids of the notes returned by "
    "pianoroll_to_notearray are not compared",
    "the statement promises recovery of the notes only for non-touching notes; for every other integer roll of the "
    "quantifier (a row changes its non-zero value between adjacent frames, collisions, onset-only / separated / binary / "
    "margin rolls) it leaves open WHICH notes are returned, and the check accepts every answer whose notes, rasterised as "
    "the first sentence of the statement prescribes (own velocity, maximum on collision, at least one frame), show "
    "exactly the given roll (clause decode-consistent); how a run of equal values is cut into notes is not compared",
    "magnitude spaces (rolls of 2**16 .. 2**24 columns): the sparse matrix is compared cell by cell with the sparse "
    "reference (never densified) for shape, cells, velocity and index rows; such rolls are not decoded again "
    "(pianoroll_to_notearray visits every column, seconds per roll) - the inverse clauses stay at the small scale; "
    "pitch-class rolls (dense by contract) are checked up to 2**18 columns",
    "magnitude bounds set by the data types, not by the property: tick / div columns are int32 as in partitura's own note "
    "arrays (values kept below 2**30), float columns are float32 (only values that float32 holds exactly are generated, so "
    "large frame numbers in float units come from a large time_div); rolls beyond about 2**24 columns are not generated "
    "because the column pointer of the sparse matrix alone takes 8 bytes per column; an end_time that float64 does not "
    "hold exactly (time_div 480 / 10080) is not passed (counted in option_combinations_skipped_as_ambiguous)",
    "trusted: numpy, scipy.sparse (toarray, tocoo, slicing)",
]
CHUNK = 4

# ---------------------------------------------------------------------------------------------
# units and note arrays

FAMILIES = {
    "score": ["beat", "quarter", "div"],
    "score-qd": ["quarter", "div"],
    "score-d": ["div"],
    "perf": ["sec", "tick"],
    "perf-t": ["tick"],
}
INT_UNITS = ("div", "tick")


def fr(x):
    if isinstance(x, str):
        a, _, b = x.partition("/")
        return F(int(a), int(b or 1))
    return F(x)


def resolve(fam, o):
    """(selected unit, effective time_div) the statement/docstring prescribe for these options."""
    unit = o["time_unit"]
    if unit == "auto":
        unit = FAMILIES[fam][0]
    div = o["time_div"]
    if div == "auto":
        div = 1 if unit in INT_UNITS else 8
    return unit, int(div)


PATTERN_PITCH = (60, 60, 64, 67)
PATTERN_DUR = (1, 2, 3)


def pattern_notes(pt):
    """The long regular array of a `pattern` case: n notes, notes 2j and 2j+1 start at step * j + offset (so notes 0, 1 of
    every group of four collide: pitches 60, 60, 64, 67 repeated), durations 1, 2, 3 repeated, velocities 1 + 37 i mod
    127 (or none); rows ascending, descending, or in the stride-7 permutation of the ascending order."""
    n, step = pt["n"], pt["step"]
    rows = []
    for i in range(n):
        v = (1 + (37 * i) % 127) if pt["vel"] else None
        rows.append([PATTERN_PITCH[i % 4], step * (i // 2) + pt.get("offset", 0), PATTERN_DUR[i % 3], v, None])
    if pt["order"] == "desc":
        rows.reverse()
    elif pt["order"] == "stride7":
        rows = [rows[(7 * i) % n] for i in range(n)]
    elif pt["order"] != "asc":
        raise ValueError(pt["order"])
    return rows


def case_notes(case):
    """the rows [pitch, onset, duration, velocity, channel] of a case (written out, or given by a pattern)."""
    if "pattern" in case:
        return pattern_notes(case["pattern"])
    return case["notes"]


def case_text(case):
    return "pattern=%s" % sorted(case["pattern"].items()) if "pattern" in case else "notes=%s" % (case["notes"],)


def note_values(case, unit, div):
    """[(pitch, onset, duration, velocity, channel)] with exact times in the selected unit."""
    out = []
    for p, on, du, v, ch in case_notes(case):
        if case.get("grid", "aligned") == "aligned":
            step = F(1) if unit in INT_UNITS else F(1, div)
            out.append((p, on * step, du * step, v, ch))
        else:
            out.append((p, fr(on), fr(du), v, ch))
    return out


def build_array(fam, unit, vals, extra_id=True):
    """Structured note array; the selected unit carries the values, every other unit of the family
    carries different numbers (2x+1), so that reading the wrong column changes the roll."""
    has_v = any(v[3] is not None for v in vals)
    has_c = any(v[4] is not None for v in vals)
    dt = []
    for u in FAMILIES[fam]:
        t = "i4" if u in INT_UNITS else "f4"
        dt += [("onset_" + u, t), ("duration_" + u, t)]
    dt.append(("pitch", "i4"))
    if has_v:
        dt.append(("velocity", "i4"))
    if has_c:
        dt.append(("channel", "i4"))
    if extra_id:
        dt.append(("id", "U16"))
    arr = np.zeros(len(vals), dtype=dt)
    for i, (p, on, du, v, ch) in enumerate(vals):
        for u in FAMILIES[fam]:
            if u == unit:
                a, b = on, du
            else:
                a, b = on * 2 + 1, du * 2 + 1
            if u in INT_UNITS:
                if u == unit and (a.denominator != 1 or b.denominator != 1):
                    raise AssertionError("generator: non-integer value for an integer unit")
                a, b = int(a), int(b)
            else:
                a, b = float(a), float(b)
                if u == unit and (F(float(np.float32(a))) != on or F(float(np.float32(b))) != du):
                    raise AssertionError("generator: value not representable in float32")
            arr["onset_" + u][i] = a
            arr["duration_" + u][i] = b
        arr["pitch"][i] = p
        if has_v:
            arr["velocity"][i] = v
        if has_c:
            arr["channel"][i] = ch
        if extra_id:
            arr["id"][i] = "n%d" % i
    return arr


# ---------------------------------------------------------------------------------------------
# reference rasteriser


class Tie(Exception):
    pass


def rnd(x):
    fl = x.numerator // x.denominator
    rest = x - fl
    if rest == F(1, 2):
        raise Tie()
    return fl + (1 if rest > F(1, 2) else 0)


def ref_roll(notes, div, o, sparse=False):
    """notes: [(pitch, onset, duration, velocity|None)] in input order (drums already left out).

    sparse=True (rolls of the magnitude spaces, far too wide for a dense array): instead of `dense` the result holds
    `keys` (sorted int64 array row * N + column of the non-zero cells) and `vals` (their values).

    Returns None when the case is outside the unambiguous part of the quantifier (rounding tie, or
    the two readings of a note's end frame differ); else a dict with M, N, dense (list of rows as a
    numpy int array), idx rows, end_time value, start.
    """
    tmin = min(n[1] for n in notes)
    start = tmin if o["remove_silence"] else min(F(0), tmin)
    lead = o["time_margin"] * div
    sep = 1 if o["note_separation"] else 0
    spans = []
    # whole-number times (ticks, divs, the long arrays of the magnitude spaces): the same arithmetic on plain ints - no
    # rounding, no tie, and round(div * (on + du - start)) = a + div * du, so the two readings of the end frame agree
    whole = start.denominator == 1 and all(n[1].denominator == 1 and n[2].denominator == 1 for n in notes)
    try:
        for p, on, du, v in notes:
            if whole:
                a = div * (on.numerator - start.numerator)
                d = max(1, div * du.numerator)
            else:
                a = rnd(div * (on - start))
                d = max(1, rnd(div * du))
                if max(a + 1, rnd(div * (on + du - start))) != a + d:
                    return None
            spans.append((a + lead, a + d + lead))
    except Tie:
        return None
    last = max(b for a, b in spans) - lead  # frames from start to the last note end
    et = o["end_time"]
    if et is None:
        end_time = None
        body = last
    else:
        body = last + (div if et == "last+1" else 0)
        end_time = start + F(body, div)
    N = lead + body + lead

    pm, pr = o["pitch_margin"], o["piano_range"]
    pitches = [n[0] for n in notes]
    if pm > -1:
        lo = min(pitches)
        M = max(pitches) - lo + 1 + 2 * pm
        rows = [p - lo + pm for p in pitches]
    elif pr:
        M = 88
        rows = [p - 21 for p in pitches]
    else:
        M = 128
        rows = list(pitches)
    dense = None if sparse else np.zeros((M, N), dtype=np.int64)
    idx = []
    collide = False
    ks, vs = [], []
    for (p, on, du, v), (a, b), r in zip(notes, spans, rows):
        val = 1 if (v is None or o["binary"]) else v
        shown = max(a + 1, b - sep)
        cols = [a] if o["onset_only"] else range(a, shown)
        inrange = 0 <= r < M
        if inrange and sparse:
            ks.append((r * N + cols[0], len(cols)))  # key of the first cell, number of cells
            vs.append(val)
        elif inrange:
            for j in cols:
                if dense[r, j]:
                    collide = True
                dense[r, j] = max(dense[r, j], val)
        if o["onset_only"]:
            ends = sorted(set([a + 1, b, shown]))
        else:
            ends = [shown]
        idx.append((r if inrange else None, a, ends, p))
    out = dict(M=M, N=N, dense=dense, idx=idx, end_time=end_time, start=start, spans=spans, rows=rows,
               collide=collide, lead=lead)
    if sparse:
        if M * N >= 2 ** 62:
            raise AssertionError("generator: roll too large for the int64 cell keys of the reference")
        first = np.array([k[0] for k in ks], dtype=np.int64)
        count = np.array([k[1] for k in ks], dtype=np.int64)
        # every stretch written out: first, first + 1, ..., first + count - 1
        allk = np.repeat(first - (np.cumsum(count) - count), count) + np.arange(int(count.sum()), dtype=np.int64)
        allv = np.repeat(np.array(vs, dtype=np.int64), count)
        keys, inv = np.unique(allk, return_inverse=True)
        vals = np.zeros(len(keys), dtype=np.int64)
        np.maximum.at(vals, inv.reshape(-1), allv)
        out.update(keys=keys, vals=vals, collide=len(keys) < len(allk))
    return out


def idx_matches(obs, exp):
    """obs: int array (n,4); exp: list of (row|None, a, [ends], pitch)."""
    if obs.ndim != 2 or obs.shape != (len(exp), 4):
        return False
    for row, (r, a, ends, p) in zip(obs.tolist(), exp):
        if r is not None and row[0] != r:
            return False
        if row[1] != a or row[2] not in ends or row[3] != p:
            return False
    return True


def idx_text(exp):
    return [[r, a, ends if len(ends) > 1 else ends[0], p] for r, a, ends, p in exp]


def nz(d):
    r, c = np.nonzero(d)
    return [[int(a), int(b), int(d[a, b])] for a, b in zip(r, c)][:24]


# ---------------------------------------------------------------------------------------------
# option sets

D_DIV = [1, 2, 4]
D_PMPR = [(-1, False), (0, False), (2, False), (-1, True)]
D_END = [None, "last", "last+1"]
BOOL = [False, True]

# pairwise covering arrays (greedy, generated once; coverage is re-verified in spaces()).
# roll dims: div, onset_only, note_separation, (pitch_margin, piano_range), time_margin, keep_silence, end_time, binary, no_idxs
COV_ROLL = [(0, 0, 0, 0, 0, 0, 0, 0, 0), (0, 1, 1, 1, 1, 1, 1, 1, 1), (1, 0, 0, 2, 0, 1, 2, 1, 1), (2, 1, 1, 3, 1, 0, 2, 0, 0),
            (1, 0, 0, 1, 1, 0, 1, 0, 0), (2, 0, 1, 3, 0, 1, 0, 1, 1), (1, 1, 1, 0, 1, 0, 0, 1, 1), (2, 1, 0, 2, 0, 1, 1, 0, 0),
            (0, 0, 1, 2, 1, 0, 0, 0, 1), (0, 0, 0, 0, 0, 1, 2, 1, 0), (0, 0, 0, 3, 0, 0, 1, 0, 0), (2, 0, 0, 1, 0, 0, 0, 0, 0),
            (2, 0, 0, 0, 0, 0, 1, 0, 0), (0, 0, 0, 1, 0, 0, 2, 0, 0), (1, 0, 0, 3, 0, 0, 0, 0, 0)]
ROLL_DOMS = [3, 2, 2, 4, 2, 2, 3, 2, 2]
# pc dims: div, normalize, onset_only, note_separation, time_margin, no_idxs, keep_silence, end_time, binary
COV_PC = [(0, 0, 0, 0, 0, 0, 0, 0, 0), (0, 1, 1, 1, 1, 1, 1, 1, 1), (1, 0, 0, 0, 0, 1, 1, 2, 1), (2, 1, 1, 1, 1, 0, 0, 2, 0),
          (1, 0, 0, 1, 1, 0, 0, 1, 0), (2, 1, 1, 0, 0, 0, 1, 0, 1), (1, 0, 1, 0, 1, 1, 0, 0, 0), (2, 0, 0, 0, 0, 1, 0, 1, 1),
          (1, 1, 0, 1, 0, 0, 1, 0, 0), (0, 0, 0, 0, 0, 0, 0, 2, 0)]
PC_DOMS = [3, 2, 2, 2, 2, 2, 2, 3, 2]


# display modes of the off-grid three-row space: (onset_only, note_separation)
OFF3_MODES = [(0, 0), (0, 1), (1, 0)]


def _mirror(rows, doms):
    """the covering rows plus their mirror image (value v -> dom-1-v): still all pairs, more triples."""
    out = list(rows)
    for r in rows:
        m = tuple(d - 1 - v for v, d in zip(r, doms))
        if m not in out:
            out.append(m)
    return out


def _covers_all_pairs(rows, doms):
    k = len(doms)
    for i in range(k):
        for j in range(i + 1, k):
            seen = set((r[i], r[j]) for r in rows)
            if len(seen) != doms[i] * doms[j]:
                return False
    return True


def roll_opt(t, unit="auto", extra=None):
    o = dict(time_unit=unit, time_div=D_DIV[t[0]], onset_only=BOOL[t[1]], note_separation=BOOL[t[2]],
             pitch_margin=D_PMPR[t[3]][0], piano_range=D_PMPR[t[3]][1], time_margin=t[4],
             remove_silence=not BOOL[t[5]], end_time=D_END[t[6]], binary=BOOL[t[7]], return_idxs=not BOOL[t[8]])
    if extra:
        o.update(extra)
    return o


def pc_opt(t, unit="auto", extra=None):
    o = dict(time_unit=unit, time_div=D_DIV[t[0]], normalize=BOOL[t[1]], onset_only=BOOL[t[2]],
             note_separation=BOOL[t[3]], time_margin=t[4], return_idxs=not BOOL[t[5]],
             remove_silence=not BOOL[t[6]], end_time=D_END[t[7]], binary=BOOL[t[8]],
             pitch_margin=-1, piano_range=False)
    if extra:
        o.update(extra)
    return o


def option_set(case):
    """The option combinations of a case (a pure function of the case)."""
    name = case["optset"]
    fix = case.get("fix", {})
    if name == "roll-full":  # full product of everything except the fixed dims (div, pmpr given in fix)
        for t in itertools.product(*[range(d) for d in ROLL_DOMS]):
            if t[0] != fix["div_i"] or t[3] != fix["pmpr_i"]:
                continue
            yield roll_opt(t, extra=fix.get("extra"))
    elif name == "roll-pairs":  # pairwise covering array (15 rows)
        for t in COV_ROLL:
            yield roll_opt(t, extra=fix.get("extra"))
    elif name == "roll-pairs2":  # covering array + mirror image (30 rows)
        for t in _mirror(COV_ROLL, ROLL_DOMS):
            yield roll_opt(t, extra=fix.get("extra"))
    elif name == "roll-units":
        for unit in ["auto"] + FAMILIES[case["fam"]]:
            for div in ["auto", 1, 2, 4]:
                for rs in (True, False):
                    for tm in (0, 1):
                        for rd in (None, True, False):
                            o = roll_opt((0, 0, 0, 0, tm, 0 if rs else 1, 1 if tm else 0, 0, 0), unit=unit)
                            o["time_div"] = div
                            o["end_as_int"] = True
                            if rd is not None:
                                o["remove_drums"] = rd
                            yield o
    elif name == "roll-offgrid":
        for div_i in range(3):
            for oo, sepn, tm, ks in itertools.product(range(2), repeat=4):
                yield roll_opt((div_i, oo, sepn, 2 * tm, tm, ks, 0, 0, 0), unit=fix.get("unit", "auto"))
    elif name == "roll-offgrid3":  # resolution x silence x display mode, complete
        for div_i, ks, (oo, sepn) in itertools.product(range(3), range(2), OFF3_MODES):
            yield roll_opt((div_i, oo, sepn, 0, 0, ks, 0, 0, 0), unit=fix.get("unit", "auto"))
    elif name == "roll-offgrid3-cycled":  # resolution x silence complete, display mode cycled (start given by the case)
        for i, (div_i, ks) in enumerate(itertools.product(range(3), range(2))):
            oo, sepn = OFF3_MODES[(fix["rot"] + i) % len(OFF3_MODES)]
            yield roll_opt((div_i, oo, sepn, 0, 0, ks, 0, 0, 0), unit=fix.get("unit", "auto"))
    elif name == "roll-mag":
        # magnitude spaces: unit and resolution are part of the magnitude (fixed per case); rows = which of the
        # other options vary
        unit, div, tm = fix["unit"], fix["div"], fix.get("tm")
        rows = fix["rows"]
        if rows == "cov":  # the pairwise covering array over the 8 other option dimensions
            seen = []
            for t in COV_ROLL:
                t = (0,) + tuple(t[1:])
                if t in seen:
                    continue
                seen.append(t)
                o = roll_opt(t, unit=unit)
                o["time_div"] = div
                if tm is not None and o["time_margin"]:
                    o["time_margin"] = tm
                yield o
        else:  # remove_silence (both, or the given one) x (plain, note_separation, onset_only - all, or the given one)
            for ks in ((0, 1) if rows == "modes6" else (fix["ks"],)):
                for oo, sepn in ([OFF3_MODES[fix["mode"]]] if rows == "one" else OFF3_MODES):
                    o = roll_opt((0, oo, sepn, 0, 0, ks, 0, 0, 0), unit=unit)
                    o["time_div"] = div
                    if tm is not None:
                        o["time_margin"] = tm
                    yield o
    elif name == "pc-mag":
        # normalize x binary complete; display mode, remove_silence, return_idxs, end_time cycled from the case's rotation
        unit, div, rot = fix["unit"], fix["div"], fix["rot"]
        for i, (nm, bn) in enumerate(itertools.product(range(2), repeat=2)):
            j = rot + i
            oo, sepn = OFF3_MODES[j % 3]
            o = pc_opt((0, nm, oo, sepn, 0, (j // 3) % 2, j % 2, (j // 2) % 3, bn), unit=unit)
            o["time_div"] = div
            yield o
    elif name == "pc-full":
        for t in itertools.product(*[range(d) for d in PC_DOMS]):
            if t[0] != fix["div_i"]:
                continue
            yield pc_opt(t)
    elif name == "pc-pairs2":
        for t in _mirror(COV_PC, PC_DOMS):
            yield pc_opt(t)
    else:
        raise ValueError(name)


# ---------------------------------------------------------------------------------------------
# evaluation


def _call(res, clause, detail, fn, *a, **kw):
    try:
        return True, fn(*a, **kw)
    except Hang:
        raise
    except Exception as e:  # noqa
        res.fail(clause, kind="exception", where=innermost_partitura_frame(e), observed=exc_text(e), detail=detail)
        return False, None


def _ref_inputs(case, o, cache):
    """family, selected unit, resolution, the note array (a fresh copy) and the notes that count."""
    fam = case["fam"]
    unit, div = resolve(fam, o)
    key = (unit, div)
    if key not in cache:
        vals = note_values(case, unit, div)
        cache[key] = (vals, build_array(fam, unit, vals))
    vals, arr = cache[key]
    keep = vals
    if any(v[4] is not None for v in vals) and o.get("remove_drums", True):
        keep = [v for v in vals if v[4] != 9]
    return fam, unit, div, arr.copy(), [v[:4] for v in keep]


def _kwargs(o, ref, names):
    kw = {}
    for k in names:
        if k == "end_time":
            et = ref["end_time"]
            if et is None:
                kw[k] = None
            else:
                kw[k] = int(et) if (et.denominator == 1 and o.get("end_as_int")) else float(et)
        elif k in o:
            kw[k] = o[k]
    return kw


ROLL_KW = ("time_unit", "time_div", "onset_only", "note_separation", "pitch_margin", "time_margin", "return_idxs",
           "piano_range", "remove_drums", "remove_silence", "end_time", "binary")
PC_KW = ("normalize", "time_unit", "time_div", "onset_only", "note_separation", "time_margin", "return_idxs",
         "remove_silence", "end_time", "binary")


def reraster(back, unit, div, R, n):
    """The roll (R x n, int) the decoded notes `back` show according to the first sentence of the statement:
    first frame round(div * onset), max(1, round(div * duration)) frames, own velocity, maximum on collision.
    Returns (dense, None) or (None, reason) when a note does not fit the roll at all."""
    base = 0 if R == 128 else 21
    dense = np.zeros((R, n), dtype=np.int64)
    try:
        rows = [(int(x["pitch"]), float(x["onset_" + unit]), float(x["duration_" + unit]), int(x["velocity"])) for x in back]
    except Exception as e:  # noqa
        return None, exc_text(e)
    for p, on, du, v in rows:
        a = int(round(div * on))
        d = max(1, int(round(div * du)))
        if abs(div * on - a) > 1e-4 or abs(div * du - round(div * du)) > 1e-4:
            return None, "note (%d, %r, %r, %d) is not on the frame grid" % (p, on, du, v)
        r = p - base
        if not (0 <= r < R and 0 <= a and a + d <= n):
            return None, "note (%d, %r, %r, %d) lies outside the %dx%d roll" % (p, on, du, v, R, n)
        if v == 0:
            return None, "note (%d, %r, %r, %d) has velocity 0" % (p, on, du, v)
        seg = dense[r, a:a + d]
        np.maximum(seg, v, out=seg)
    return dense, None


def decode_consistent(res, roll, dense, div, unit, detail, stats):
    """clause decode-consistent: pianoroll_to_notearray(roll) returns notes that show exactly `dense`."""
    from partitura.utils.music import pianoroll_to_notearray

    res.transitions += 1
    stats["decodes"] = stats.get("decodes", 0) + 1
    ok, back = _call(res, "decode-consistent", detail, pianoroll_to_notearray, roll, div, unit)
    if not ok:
        return None
    again, why = reraster(back, unit, div, dense.shape[0], dense.shape[1])
    if again is None:
        res.fail("decode-consistent", expected=nz(dense), observed=why, where="pianoroll_to_notearray", detail=detail)
    elif not np.array_equal(again, dense):
        try:
            notes = sorted((int(x["pitch"]), float(x["onset_" + unit]), float(x["duration_" + unit]), int(x["velocity"])) for x in back)
        except Exception as e:  # noqa
            notes = exc_text(e)
        res.fail("decode-consistent", expected="notes showing the cells %s" % nz(dense),
                 observed="notes %s showing the cells %s" % (notes, nz(again)), where="pianoroll_to_notearray", detail=detail)
    return back


def check_roll(res, case, o, stats, cache):
    from partitura.utils.music import compute_pianoroll, pianoroll_to_notearray

    fam, unit, div, arr, notes = _ref_inputs(case, o, cache)
    ref = ref_roll(notes, div, o)
    if ref is None:
        stats["skipped"] += 1
        return
    kw = _kwargs(o, ref, ROLL_KW)
    detail = "notes=%s fam=%s kwargs=%s" % (case["notes"], fam, sorted(kw.items()))
    res.states += 1
    res.traces += 1
    res.transitions += 1
    ok, out = _call(res, "total", detail, compute_pianoroll, arr, **kw)
    if not ok:
        return
    if o["return_idxs"]:
        if not (isinstance(out, tuple) and len(out) == 2):
            res.fail("index-rows", expected="(roll, index array)", observed=type(out).__name__, where="compute_pianoroll", detail=detail)
            return
        pr, idx = out
    else:
        pr, idx = out, None
    if isinstance(pr, tuple) or not hasattr(pr, "shape"):
        res.fail("shape", expected="a matrix", observed=type(pr).__name__, where="compute_pianoroll", detail=detail)
        return
    exp = ref["dense"]
    stats["nnz"] += int(np.count_nonzero(exp))
    if np.count_nonzero(exp) >= 2 or ref["collide"]:
        stats["nontrivial"] += 1
    if tuple(pr.shape) != (ref["M"], ref["N"]):
        res.fail("shape", expected=[ref["M"], ref["N"]], observed=list(pr.shape), where="compute_pianoroll shape", detail=detail)
        return
    got = np.asarray(pr.toarray() if hasattr(pr, "toarray") else pr)
    if not np.array_equal(got != 0, exp != 0):
        res.fail("cells", expected=nz(exp), observed=nz(got), where="compute_pianoroll cells", detail=detail)
        return
    if not np.array_equal(got, exp):
        res.fail("velocity", expected=nz(exp), observed=nz(got), where="compute_pianoroll cell values", detail=detail)
        return
    if idx is not None:
        idx = np.asarray(idx)
        if not idx_matches(idx, ref["idx"]):
            res.fail("index-rows", expected=idx_text(ref["idx"]), observed=idx.tolist(), where="compute_pianoroll index rows", detail=detail)
            return
    # round trip, where the statement promises it
    plain = not o["onset_only"] and not o["note_separation"] and not o["binary"] and o["time_margin"] == 0
    exact = False
    if (plain and o["pitch_margin"] == -1 and ref["start"] == 0 and case.get("grid", "aligned") == "aligned"):
        spans = sorted(zip(ref["rows"], ref["spans"]))
        apart = all(not (spans[i][0] == spans[i + 1][0] and spans[i + 1][1][0] <= spans[i][1][1]) for i in range(len(spans) - 1))
        positive = all(n[2] > 0 for n in notes)
        inside = all(0 <= r < ref["M"] for r in ref["rows"])
        if apart and positive and inside:
            exact = True
            stats["roundtrips"] += 1
            res.transitions += 1
            ok, back = _call(res, "round-trip", detail, pianoroll_to_notearray, pr, div, unit)
            if ok:
                want = sorted((p, float(on), float(du), 1 if v is None else v) for p, on, du, v in notes)
                try:
                    have = sorted((int(r["pitch"]), float(r["onset_" + unit]), float(r["duration_" + unit]), int(r["velocity"]))
                                  for r in back)
                except Exception as e:  # noqa
                    have = exc_text(e)
                if have != want:
                    res.fail("round-trip", expected=want, observed=have, where="pianoroll_to_notearray", detail=detail)
    # every other roll of 128 / 88 rows (touching or colliding notes, zero durations, notes outside the piano, pickup,
    # onset-only / separated / binary / margin rolls): the decoded notes must show the roll again. The matrix is decoded
    # as returned (sparse) for the plain option combinations, as a dense array otherwise.
    if not exact and o["pitch_margin"] == -1:
        decode_consistent(res, pr if plain else got.copy(), exp, div, unit, detail, stats)


def sparse_cells(pr, N):
    """(sorted keys row * N + column, values) of the non-zero cells of a sparse (or dense) matrix; entries stored twice
    are added, as `toarray` would."""
    if hasattr(pr, "tocoo"):
        coo = pr.tocoo()
        r, c, d = np.asarray(coo.row, dtype=np.int64), np.asarray(coo.col, dtype=np.int64), np.asarray(coo.data)
    else:
        a = np.asarray(pr)
        r, c = np.nonzero(a)
        r, c, d = r.astype(np.int64), c.astype(np.int64), a[r, c]
    keys, inv = np.unique(r * N + c, return_inverse=True)
    vals = np.zeros(len(keys), dtype=d.dtype if len(d) else np.int64)
    np.add.at(vals, inv.reshape(-1), d)
    keep = vals != 0
    return keys[keep], vals[keep]


def cells_text(keys, vals, N, only=None):
    """[[row, column, value]] of (at most 24 of) the cells; `only` = restrict to these keys."""
    if only is not None:
        m = np.isin(keys, only)
        keys, vals = keys[m], vals[m]
    return [[int(k // N), int(k % N), int(v) if float(v) == int(v) else float(v)] for k, v in zip(keys[:24].tolist(), vals[:24].tolist())]


def _exact_float(x):
    return x is None or F(float(x)) == x


def check_roll_big(res, case, o, stats, cache):
    """check_roll for rolls with 2**16 .. 2**24 columns: shape, cells, velocity and index rows are compared on the
    sparse matrix (never densified); the roll is not decoded (pianoroll_to_notearray visits every column)."""
    from partitura.utils.music import compute_pianoroll

    fam, unit, div, arr, notes = _ref_inputs(case, o, cache)
    ref = ref_roll(notes, div, o, sparse=True)
    if ref is None or not _exact_float(ref["end_time"]):
        stats["skipped"] += 1
        return
    kw = _kwargs(o, ref, ROLL_KW)
    detail = "%s mag=%s fam=%s kwargs=%s" % (case_text(case), case.get("mag"), fam, sorted(kw.items()))
    res.states += 1
    res.traces += 1
    res.transitions += 1
    ok, out = _call(res, "total", detail, compute_pianoroll, arr, **kw)
    if not ok:
        return
    if o["return_idxs"]:
        if not (isinstance(out, tuple) and len(out) == 2):
            res.fail("index-rows", expected="(roll, index array)", observed=type(out).__name__, where="compute_pianoroll", detail=detail)
            return
        pr, idx = out
    else:
        pr, idx = out, None
    if isinstance(pr, tuple) or not hasattr(pr, "shape"):
        res.fail("shape", expected="a matrix", observed=type(pr).__name__, where="compute_pianoroll", detail=detail)
        return
    M, N = ref["M"], ref["N"]
    ek, ev = ref["keys"], ref["vals"]
    stats["nnz"] += len(ek)
    stats["maxcol"] = max(stats.get("maxcol", 0), N)
    if len(ek) >= 2 or ref["collide"]:
        stats["nontrivial"] += 1
    if tuple(pr.shape) != (M, N):
        res.fail("shape", expected=[M, N], observed=list(pr.shape), where="compute_pianoroll shape", detail=detail)
        return
    gk, gv = sparse_cells(pr, N)
    if not np.array_equal(gk, ek):
        res.fail("cells", expected="%d cells, not shown: %s" % (len(ek), cells_text(ek, ev, N, np.setdiff1d(ek, gk))),
                 observed="%d cells, not expected: %s" % (len(gk), cells_text(gk, gv, N, np.setdiff1d(gk, ek))),
                 where="compute_pianoroll cells", detail=detail)
        return
    if not np.array_equal(gv, ev):
        bad = ek[gv != ev]
        res.fail("velocity", expected=cells_text(ek, ev, N, bad), observed=cells_text(gk, gv, N, bad),
                 where="compute_pianoroll cell values", detail=detail)
        return
    if idx is not None:
        idx = np.asarray(idx)
        if not idx_matches(idx, ref["idx"]):
            bad = [i for i, (row, e) in enumerate(zip(idx.tolist(), ref["idx"])) if not idx_matches(np.asarray([row]), [e])][:8] \
                if idx.ndim == 2 and idx.shape == (len(ref["idx"]), 4) else None
            if bad is None:
                res.fail("index-rows", expected="%d rows of 4" % len(ref["idx"]), observed=list(idx.shape),
                         where="compute_pianoroll index rows", detail=detail)
            else:
                res.fail("index-rows", expected=[[i] + idx_text([ref["idx"][i]])[0] for i in bad],
                         observed=[[i] + idx[i].tolist() for i in bad], where="compute_pianoroll index rows", detail=detail)


def check_pc_big(res, case, o, stats, cache):
    """check_pc for rolls with more than 2**16 columns (octave fold computed from the sparse reference cells)."""
    from partitura.utils.music import compute_pitch_class_pianoroll

    fam, unit, div, arr, notes = _ref_inputs(case, o, cache)
    ref = ref_roll(notes, div, dict(o, binary=False), sparse=True)
    if ref is None or not _exact_float(ref["end_time"]):
        stats["skipped"] += 1
        return
    kw = _kwargs(o, ref, PC_KW)
    detail = "pitch-class %s mag=%s fam=%s kwargs=%s" % (case_text(case), case.get("mag"), fam, sorted(kw.items()))
    res.states += 1
    res.traces += 1
    res.transitions += 1
    ok, out = _call(res, "total", detail, compute_pitch_class_pianoroll, arr, **kw)
    if not ok:
        return
    if o["return_idxs"]:
        if not (isinstance(out, tuple) and len(out) == 2):
            res.fail("index-rows", expected="(roll, index array)", observed=type(out).__name__, where="compute_pitch_class_pianoroll", detail=detail)
            return
        pc, idx = out
    else:
        pc, idx = out, None
    N = ref["N"]
    stats["maxcol"] = max(stats.get("maxcol", 0), N)
    fold = np.zeros((12, N), dtype=np.int64)
    np.add.at(fold, ((ref["keys"] // N) % 12, ref["keys"] % N), ref["vals"])
    if o["binary"]:
        fold = (fold > 0).astype(np.int64)
    nzf = int(np.count_nonzero(fold))
    stats["nnz"] += nzf
    if nzf >= 2:
        stats["nontrivial"] += 1
    expf = fold.astype(float)
    if o["normalize"]:
        tot = fold.sum(axis=0)
        expf = expf / np.where(tot == 0, 1, tot).astype(float)
    pc = np.asarray(pc)
    if pc.shape != (12, N):
        res.fail("shape", expected=[12, N], observed=list(pc.shape), where="compute_pitch_class_pianoroll shape", detail=detail)
        return
    wrong = np.abs(pc.astype(float) - expf) > 1e-9 * np.maximum(1.0, np.abs(expf))
    if wrong.any():
        at = np.argwhere(wrong)[:24].tolist()
        res.fail("pc-fold", expected=[[r, c, float(expf[r, c])] for r, c in at], observed=[[r, c, float(pc[r, c])] for r, c in at],
                 where="compute_pitch_class_pianoroll cells", detail=detail)
        return
    if idx is not None:
        want = [(None if r is None else r % 12, a, ends, p) for r, a, ends, p in ref["idx"]]
        idx = np.asarray(idx)
        if not idx_matches(idx, want):
            res.fail("index-rows", expected=idx_text(want), observed=idx.tolist(), where="compute_pitch_class_pianoroll index rows", detail=detail)


def check_pc(res, case, o, stats, cache):
    from partitura.utils.music import compute_pitch_class_pianoroll

    fam, unit, div, arr, notes = _ref_inputs(case, o, cache)
    full = dict(o, binary=False)
    ref = ref_roll(notes, div, full)
    if ref is None:
        stats["skipped"] += 1
        return
    kw = _kwargs(o, ref, PC_KW)
    detail = "pitch-class notes=%s fam=%s kwargs=%s" % (case["notes"], fam, sorted(kw.items()))
    res.states += 1
    res.traces += 1
    res.transitions += 1
    ok, out = _call(res, "total", detail, compute_pitch_class_pianoroll, arr, **kw)
    if not ok:
        return
    if o["return_idxs"]:
        if not (isinstance(out, tuple) and len(out) == 2):
            res.fail("index-rows", expected="(roll, index array)", observed=type(out).__name__, where="compute_pitch_class_pianoroll", detail=detail)
            return
        pc, idx = out
    else:
        pc, idx = out, None
    # octave fold of the full roll, in exact arithmetic
    dense = ref["dense"]
    N = ref["N"]
    fold = [[0] * N for _ in range(12)]
    for r, c in np.argwhere(dense).tolist():
        fold[r % 12][c] += int(dense[r, c])
    if o["binary"]:
        fold = [[1 if x > 0 else 0 for x in row] for row in fold]
    exp = [[F(x) for x in row] for row in fold]
    if o["normalize"]:
        for j in range(N):
            s = sum(fold[c][j] for c in range(12))
            if s:
                for c in range(12):
                    exp[c][j] = F(fold[c][j], s)
    stats["nnz"] += sum(1 for row in fold for x in row if x)
    if sum(1 for row in fold for x in row if x) >= 2:
        stats["nontrivial"] += 1
    pc = np.asarray(pc)
    if pc.shape != (12, N):
        res.fail("shape", expected=[12, N], observed=list(pc.shape), where="compute_pitch_class_pianoroll shape", detail=detail)
        return
    expf = np.array([[float(x) for x in row] for row in exp], dtype=float).reshape(12, N)
    if not np.all(np.abs(pc.astype(float) - expf) <= 1e-9 * np.maximum(1.0, np.abs(expf))):
        res.fail("pc-fold", expected=[[r, c, expf[r, c]] for r, c in np.argwhere(expf).tolist()][:24],
                 observed=[[r, c, float(pc[r, c])] for r, c in np.argwhere(pc).tolist()][:24],
                 where="compute_pitch_class_pianoroll cells", detail=detail)
        return
    if idx is not None:
        want = [(None if r is None else r % 12, a, ends, p) for r, a, ends, p in ref["idx"]]
        idx = np.asarray(idx)
        if not idx_matches(idx, want):
            res.fail("index-rows", expected=idx_text(want), observed=idx.tolist(), where="compute_pitch_class_pianoroll index rows", detail=detail)


def check_inverse(res, case, stats):
    """case: rows (128|88), n, runs [[row, start, length, value], ...] non-touching."""
    from partitura.utils.music import pianoroll_to_notearray
    from scipy.sparse import csc_matrix, csr_matrix

    R, n = case["rows"], case["n"]
    dense = np.zeros((R, n), dtype=int)
    touching = False
    if "cells" in case:  # every cell of the chosen rows given: runs = maximal stretches of one non-zero value
        runs = []
        for r, vals in case["cells"]:
            dense[r, :] = vals
            j = 0
            while j < n:
                if vals[j] == 0:
                    j += 1
                    continue
                k = j
                while k < n and vals[k] == vals[j]:
                    k += 1
                if k < n and vals[k] != 0:
                    touching = True
                runs.append([r, j, k - j, vals[j]])
                j = k
    else:
        runs = case["runs"]
        for r, s, l, v in runs:
            dense[r, s:s + l] = v
    base = 0 if R == 128 else 21
    for k, (div, unit) in enumerate(case["divs"]):
        for cont in (case["containers"] if k == 0 else case["containers"][:1]):
            roll = dense.copy() if cont == "ndarray" else (csc_matrix(dense) if cont == "csc" else csr_matrix(dense))
            detail = "roll %dx%d runs=%s time_div=%r time_unit=%s container=%s" % (R, n, runs, div, unit, cont)
            res.states += 1
            res.traces += 1
            if touching:
                # a row changes its non-zero value between adjacent frames: not the roll of non-touching notes, the
                # statement does not say which notes come back - they must show the roll again
                stats["touching"] = 1
                decode_consistent(res, roll, dense, div, unit, detail, stats)
                if cont == "ndarray" and not np.array_equal(roll, dense):
                    res.fail("inverse", expected="the roll is left as given", observed=nz(roll), where="pianoroll_to_notearray argument", detail=detail)
                continue
            res.transitions += 1
            ok, back = _call(res, "inverse", detail, pianoroll_to_notearray, roll, div, unit)
            if not ok:
                continue
            want = sorted((r + base, float(np.float32(s / div)), float(np.float32(l / div)), v) for r, s, l, v in runs)
            try:
                have = sorted((int(x["pitch"]), float(x["onset_" + unit]), float(x["duration_" + unit]), int(x["velocity"])) for x in back)
            except Exception as e:  # noqa
                have = [exc_text(e)]
            same = len(have) == len(want) and all(
                h[0] == w[0] and h[3] == w[3] and abs(h[1] - w[1]) <= 5e-7 * max(1, abs(w[1])) and abs(h[2] - w[2]) <= 5e-7 * max(1, abs(w[2]))
                for h, w in zip(have, want))
            if not same:
                res.fail("inverse", expected=want, observed=have, where="pianoroll_to_notearray", detail=detail)
            if cont == "ndarray" and not np.array_equal(roll, dense):
                res.fail("inverse", expected="the roll is left as given", observed=nz(roll), where="pianoroll_to_notearray argument", detail=detail)
    stats["nnz"] += int(np.count_nonzero(dense))
    if len(runs) >= 2:
        stats["nontrivial"] += 1


def eval_case(case):
    res = CaseResult(states=0, transitions=0, traces=0)
    stats = dict(skipped=0, nnz=0, nontrivial=0, roundtrips=0, decodes=0, touching=0)
    kind = case["kind"]
    if kind == "inv":
        check_inverse(res, case, stats)
    else:
        if case.get("big"):
            fn = check_roll_big if kind == "roll" else check_pc_big
        else:
            fn = check_roll if kind == "roll" else check_pc
        cache = {}
        for o in option_set(case):
            fn(res, case, o, stats, cache)
    res.nontrivial = stats["nontrivial"] > 0
    res.outcome = "%s evals=%d nnz=%d rt=%d dec=%d skipped=%d%s" % (kind, res.states, stats["nnz"], stats["roundtrips"],
                                                                 stats["decodes"], stats["skipped"], " touching" if stats["touching"] else "")
    if case.get("big"):  # widest roll of the case, as a power of two
        res.outcome += " cols<2^%d" % max(1, int(stats.get("maxcol", 0)).bit_length())
    res.extra = {"option_combinations_skipped_as_ambiguous": stats["skipped"], "round_trips": stats["roundtrips"],
                 "decodes_checked_for_consistency": stats["decodes"],
                 "nontrivial_evaluations": stats["nontrivial"]}
    return res


# ---------------------------------------------------------------------------------------------
# generators

# hand-picked arrays (grid steps): one per shortcut visible in the code
CORE = [
    ("perf", [[60, 1, 1, 64, None], [60, 0, 2, 127, None]]),                       # collision, later row starts first
    ("perf", [[60, 0, 2, 64, None], [60, 1, 2, 127, None], [61, 2, 0, 1, None]]),  # partial overlap, zero duration
    ("score", [[108, 2, 1, None, None], [21, 0, 1, None, None]]),                   # no velocities, edges of the piano
    ("perf", [[61, 2, 2, 1, 9], [60, 1, 1, 64, 0], [60, 3, 1, 127, 0]]),            # drum note with extreme pitch/time
    ("score", [[60, -2, 1, 64, None], [61, 1, 1, 127, None]]),                      # pickup: negative onset
    ("perf", [[20, 1, 1, 64, None], [60, 0, 4, 127, None], [109, 2, 1, 1, None]]),  # outside the piano range
    ("perf", [[60, 0, 1, 64, None], [60, 0, 1, 127, None], [60, 0, 1, 1, None]]),   # triple collision, max in the middle
    ("perf", [[60, 1, 1, 127, None], [61, 0, 2, 64, None], [60, 0, 1, 127, None]]), # touching notes
    ("perf", [[127, 1, 1, 7, 0], [0, 0, 1, 5, 0]]),                                 # extreme rows, channel column, no drums
    ("score", [[60, 2, 3, 100, None]]),                                             # single note, late start
    ("perf", [[61, 4, 2, 64, None], [60, 2, 2, 127, None], [60, 0, 2, 1, None]]),   # reverse order
    ("perf", [[61, 1, 2, 1, None], [60, 1, 1, 127, None]]),                         # equal onsets
    ("score-qd", [[61, 3, 1, None, None], [60, 1, 0, None, None], [60, 1, 2, None, None]]),  # zero duration under a note
    ("perf-t", [[60, 2, 2, 10, 9], [64, 0, 1, 20, 1], [62, 1, 2, 30, 9]]),          # two drum notes, last one ends the span
]


def gen_core_full():
    for fam, notes in CORE:
        has_c = any(n[4] is not None for n in notes)
        for extra in ([None, {"remove_drums": False}] if has_c else [None]):
            for div_i in range(3):
                for pmpr_i in range(4):
                    yield dict(kind="roll", fam=fam, notes=notes, optset="roll-full",
                               fix=dict(div_i=div_i, pmpr_i=pmpr_i, extra=extra))


def gen_units():
    arrays = [
        [[60, 1, 1, 64, None], [60, 0, 2, 127, None]],
        [[61, 2, 1, None, None], [60, 0, 1, None, None]],
        [[61, 3, 2, 1, 9], [60, 1, 1, 64, 0], [62, 2, 1, 127, 0]],
        [[60, 2, 2, None, 9], [64, 0, 1, None, 1], [62, 1, 2, None, 0]],
        [[60, -1, 1, 5, 0], [60, 0, 1, 9, 0]],
    ]
    for fam in FAMILIES:
        for notes in arrays:
            yield dict(kind="roll", fam=fam, notes=notes, optset="roll-units")


VEL2 = [(None, None)] + [(a, b) for a in (1, 64, 127) for b in (1, 64, 127)]
VEL2_CORE = [(None, None), (1, 64), (64, 1), (64, 127), (127, 64), (127, 127)]


def gen_pairs(pitches, onsets, durs, vels, chans, fams, optset="roll-pairs", skip=None):
    """every ordered 2-row array over the alphabets."""
    k = 0
    for p1, p2 in itertools.product(pitches, repeat=2):
        for o1, o2 in itertools.product(onsets, repeat=2):
            for d1, d2 in itertools.product(durs, repeat=2):
                for v1, v2 in vels:
                    for c1, c2 in chans:
                        fam = fams[k % len(fams)]
                        k += 1
                        notes = [[p1, o1, d1, v1, c1], [p2, o2, d2, v2, c2]]
                        if skip is not None and skip(notes):
                            continue
                        yield dict(kind="roll", fam=fam, optset=optset, notes=notes)


def gen_triples(pitches, onsets, durs, with_vel, fams, optset="roll-pairs"):
    """every ordered 3-row array over the note alphabet; velocities = every assignment of (1, 64, 127)
    and of (64, 127, 127) to the rows, or none - so every permutation of every row multiset occurs."""
    alpha = [(p, o, d) for p in pitches for o in onsets for d in durs]
    vel_sets = [(None, None, None)]
    if with_vel:
        vel_sets += sorted(set(itertools.permutations((1, 64, 127)))) + sorted(set(itertools.permutations((64, 127, 127))))
    k = 0
    for trip in itertools.product(alpha, repeat=3):
        for vs in vel_sets:
            fam = fams[k % len(fams)]
            k += 1
            yield dict(kind="roll", fam=fam, optset=optset,
                       notes=[[n[0], n[1], n[2], v, None] for n, v in zip(trip, vs)])


def gen_offgrid():
    ons = ["5/16", "27/16", "35/16", "-3/16"]
    dus = ["3/16", "11/16", "21/16", "2/1"]
    k = 0
    for p1, p2 in ((60, 60), (60, 61)):
        for o1, o2 in itertools.product(ons, repeat=2):
            for d1, d2 in itertools.product(dus, repeat=2):
                for v1, v2 in ((None, None), (64, 127), (127, 64)):
                    fam, unit = (("score", "beat"), ("score", "quarter"), ("perf", "sec"), ("score-qd", "auto"))[k % 4]
                    k += 1
                    yield dict(kind="roll", grid="raw", fam=fam, optset="roll-offgrid", fix=dict(unit=unit),
                               notes=[[p1, o1, d1, v1, None], [p2, o2, d2, v2, None]])


OFF3_ONSETS_Q = (-6, 0, 3, 5, 11, 21, 27, 43, 58)
OFF3_ONSETS_T = (-7, -6, 0, 3, 5, 11, 14, 21, 22, 27, 43, 45, 58)
OFF3_DURS_Q = ((1, 1, 1), (2, 1, 1), (1, 1, 2))
OFF3_DURS_T = tuple(itertools.product((1, 2), repeat=3))
OFF3_PITCHES = ((60, 61, 62), (60, 60, 60))
OFF3_VELS = ((64, 127, 1), (127, 1, 64), (None, None, None))
OFF3_UNITS = (("score", "beat"), ("score", "quarter"), ("perf", "sec"), ("score-qd", "auto"))


def gen_offgrid3(onsets32, durs, optset):
    """every ordered 3-row array whose onsets are 32nds of the time unit from `onsets32` (so: rows in every order, two
    or three notes inside one frame in either row order, the other note anywhere relative to the frame borders),
    durations whole time units; column family / unit, velocity pattern and (quick) the first display mode are cycled."""
    k = 0
    for pitches in OFF3_PITCHES:
        for du in durs:
            for ons in itertools.product(onsets32, repeat=3):
                fam, unit = OFF3_UNITS[k % 4]
                vel = OFF3_VELS[k % 3]
                rot = (k // 12) % 3
                k += 1
                yield dict(kind="roll", grid="raw", fam=fam, optset=optset, fix=dict(unit=unit, rot=rot),
                           notes=[[p, "%d/32" % o, "%d/1" % d, v, None] for p, o, d, v in zip(pitches, ons, du, vel)])


PC_EXTRA = [
    ("perf", [[60, 0, 2, 64, None], [72, 1, 2, 127, None], [48, 1, 1, 1, None]]),   # three octaves of C overlap
    ("perf", [[0, 0, 1, 3, None], [127, 0, 1, 5, None], [120, 1, 1, 7, None]]),     # lowest / highest octave (short last slice)
    ("score", [[59, 1, 1, None, None], [71, 0, 2, None, None], [60, 0, 1, None, None]]),
]


def gen_pc_core():
    for fam, notes in CORE + PC_EXTRA:
        for div_i in range(3):
            yield dict(kind="pc", fam=fam, notes=notes, optset="pc-full", fix=dict(div_i=div_i))


def gen_pc_pairs(pitches, onsets, durs, vels):
    k = 0
    for p1, p2 in itertools.product(pitches, repeat=2):
        for o1, o2 in itertools.product(onsets, repeat=2):
            for d1, d2 in itertools.product(durs, repeat=2):
                for v1, v2 in vels:
                    fam = ("perf", "score")[k % 2]
                    k += 1
                    yield dict(kind="pc", fam=fam, optset="pc-pairs2", notes=[[p1, o1, d1, v1, None], [p2, o2, d2, v2, None]])


def gen_inverse(R, n_max, rows, values, max_runs, divs, containers):
    """every roll of R rows and n <= n_max columns whose non-zero cells form <= max_runs non-touching
    runs on the given rows with the given values."""
    for n in range(0, n_max + 1):
        singles = [(r, s, l, v) for r in rows for s in range(n) for l in range(1, n - s + 1) for v in values]
        for k in range(0, max_runs + 1):
            for combo in itertools.combinations(singles, k):
                ok = True
                for i in range(k):
                    for j in range(i + 1, k):
                        a, b = combo[i], combo[j]
                        if a[0] == b[0] and not (a[1] + a[2] < b[1] or b[1] + b[2] < a[1]):
                            ok = False
                            break
                    if not ok:
                        break
                if ok:
                    yield dict(kind="inv", rows=R, n=n, runs=[list(x) for x in combo], divs=divs, containers=containers)


def gen_inverse_cells(R, n_max, rows, values, divs, containers):
    """every roll of R rows and n <= n_max columns in which each cell of the given rows holds 0 or one of the values
    (all other rows empty): equal-valued, different-valued touching, separated runs in every arrangement."""
    alpha = (0,) + tuple(values)
    for n in range(0, n_max + 1):
        for cells in itertools.product(alpha, repeat=len(rows) * n):
            yield dict(kind="inv", rows=R, n=n, cells=[[r, list(cells[i * n:(i + 1) * n])] for i, r in enumerate(rows)],
                       divs=divs, containers=containers)


# ---------------------------------------------------------------------------------------------
# magnitude dimension: the small two-row families again, with the times made large
#
# a magnitude = (name, unit kind, time_div, onset factor, duration factor, offset K, rows shifted by K, time_margin):
#   onset' = onset * factor (+ K for the shifted rows), duration' = duration * duration factor, in ticks / divs
#   (kind "i") or seconds / beats / quarters (kind "f"); frame index = time_div * (onset' - start) + time_div * margin
INT_FAMS = (("perf", "tick"), ("score", "div"), ("perf-t", "auto"), ("score-d", "auto"))
FLT_FAMS = (("perf", "sec"), ("score", "beat"), ("score", "quarter"), ("score-qd", "auto"))
MAGS_CORE = [  # frame indices on both sides of 2**16, reached in four different ways
    ("off16-gap0", "i", 1, 1, 1, 2 ** 16 - 3, "not0", None),     # first row early, the other 65533 ticks later
    ("fac65536", "i", 1, 2 ** 16, 1, 0, "all", None),             # onsets 0, 65536, 131072
    ("tdiv480", "f", 480, 137, "1/16", 0, "all", None),           # 480 frames per second, onsets 0, 137, 274 s
    ("margin65537", "i", 1, 1, 1, 0, "all", 2 ** 16 + 1),         # time_margin beyond 2**16 frames
]
MAGS_REST = [
    ("off16-all", "i", 1, 1, 1, 2 ** 16 - 3, "all", None),       # late start, silence kept (or removed: control)
    ("off16-gap1", "i", 1, 1, 1, 2 ** 16 - 3, "not1", None),     # second row early
    ("off16+all", "i", 1, 1, 1, 2 ** 16 + 1, "all", None),
    ("off16+gap0", "i", 1, 1, 1, 2 ** 16 + 1, "not0", None),
    ("off16+gap1", "i", 1, 1, 1, 2 ** 16 + 1, "not1", None),
    ("off17gap0", "i", 1, 1, 1, 2 ** 17 + 1, "not0", None),
    ("div4-gap0", "i", 4, 1, 1, 2 ** 14 + 1, "not0", None),       # 16385 ticks at 4 frames per tick
    ("tdiv10080", "f", 10080, 7, "1/16", 0, "all", None),         # 10080 frames per beat, onsets 0, 7, 14 beats
    ("margin-div4", "f", 4, "1/4", "1/4", 0, "all", 2 ** 14 + 1),  # time_margin 16385 units at 4 frames per unit
    ("pickup16", "i", 1, 1, 1, -(2 ** 16 + 1), "only0", None),    # first row 65537 ticks before time 0
    ("fac480", "i", 1, 480, 1, 0, "all", None),                   # the usual tick factors (below 2**16: controls)
    ("fac10080", "i", 1, 10080, 1, 0, "all", None),
]
MAGS_20 = [
    ("off20-all", "i", 1, 1, 1, 2 ** 20 + 1, "all", None),
    ("off20-gap0", "i", 1, 1, 1, 2 ** 20 + 1, "not0", None),
    ("fac302400", "i", 1, 302400, 1, 0, "all", None),             # onsets 0, 302400, 604800
]
MAGS_24 = [
    ("off24-gap0", "i", 1, 1, 1, 2 ** 24 + 1, "not0", None),
    ("off24-gap1", "i", 1, 1, 1, 2 ** 24 + 1, "not1", None),
]
MAGS_PC = [MAGS_CORE[0], MAGS_CORE[2]]
MAGS_PC_REST = [MAGS_CORE[1], MAGS_REST[0], MAGS_REST[1], MAGS_REST[3], MAGS_REST[6]]


def _fs(x):
    x = F(x)
    return int(x) if x.denominator == 1 else "%d/%d" % (x.numerator, x.denominator)


def mag_apply(base, mag):
    """rows [pitch, onset, duration, velocity, None] of the base array under the magnitude."""
    name, kind, div, f, g, K, shift, tm = mag
    rows = []
    for i, (p, on, du, v) in enumerate(base):
        shifted = shift == "all" or (shift == "not0" and i != 0) or (shift == "not1" and i != 1) or (shift == "only0" and i == 0)
        rows.append([p, _fs(on * fr(f) + (K if shifted else 0)), _fs(du * fr(g)), v, None])
    return rows


def _split_modes(case):
    """rows "split3" / "split6": the same option combinations as "modes3" / "modes6", one case per combination (expensive
    cases: keeps the work items small)."""
    rows = case["fix"]["rows"]
    if rows not in ("split3", "split6"):
        yield case
        return
    for ks in ((0, 1) if rows == "split6" else (case["fix"]["ks"],)):
        for m in range(len(OFF3_MODES)):
            yield dict(case, fix=dict(case["fix"], rows="one", ks=ks, mode=m))


def gen_mag(kind, mags, pitches, onsets, durs, vels, rows, ks=None):
    """every ordered 2-row array over the alphabets x every magnitude of the list; column family / unit cycled."""
    k = 0
    for mag in mags:
        for p1, p2 in pitches:
            for o1, o2 in onsets:
                for d1, d2 in durs:
                    for v1, v2 in vels:
                        fam, unit = (INT_FAMS if mag[1] == "i" else FLT_FAMS)[k % 4]
                        k += 1
                        fix = dict(unit=unit, div=mag[2], tm=mag[7], rows=rows, rot=k)
                        if ks is not None:
                            fix["ks"] = ks
                        case = dict(kind=kind, big=1, grid="raw", fam=fam, mag=mag[0], fix=fix,
                                    optset="roll-mag" if kind == "roll" else "pc-mag",
                                    notes=mag_apply([(p1, o1, d1, v1), (p2, o2, d2, v2)], mag))
                        for c in _split_modes(case):
                            yield c


SQ3 = tuple(itertools.product((0, 1, 2), repeat=2))
MAG_VELS = ((None, None), (64, 127), (127, 64))
SMALL_ON = ((0, 1), (1, 0), (1, 1))
SMALL_DU = ((1, 2), (2, 1))


def gen_long_notes(lengths, starts, ats, rows):
    """a note of L ticks from tick s0 under / beside a short note (1 or 2 ticks, cycled) placed at tick 1, just before and
    just after frame 2**16, on the long note's last frame and right after it; same pitch (collision inside the long note,
    the short note louder or softer) or the neighbouring pitch without velocities; both row orders."""
    n = 0
    for L in lengths:
        for s0 in starts:
            for at in ats:
                at = {"start": 1, "before16": 2 ** 16 - 1, "after16": 2 ** 16 + 1, "last": s0 + L - 1, "behind": s0 + L}[at]
                for p2, (v1, v2) in ((60, (64, 127)), (60, (127, 64)), (61, (None, None))):
                    fam, unit = INT_FAMS[n % 4]
                    for swap in (0, 1):
                        notes = [[60, s0, L, v1, None], [p2, at, 1 + n % 2, v2, None]]
                        if swap:
                            notes.reverse()
                        case = dict(kind="roll", big=1, grid="raw", fam=fam, mag="long-note-%d" % L, optset="roll-mag",
                                    fix=dict(unit=unit, div=1, tm=None, rows=rows, ks=(n // 2) % 2), notes=notes)
                        for c in _split_modes(case):
                            yield c
                    n += 1


def gen_patterns(ns, steps, offsets):
    k = 0
    for n in ns:
        if n % 7 == 0:
            raise AssertionError("stride-7 order needs n prime to 7")
        for step in steps:
            for offset in offsets:
                for order in ("asc", "desc", "stride7"):
                    for vel in (1, 0):
                        fam, unit = INT_FAMS[(k // 2) % 4]
                        k += 1
                        yield dict(kind="roll", big=1, grid="raw", fam=fam, mag="pattern", optset="roll-mag",
                                   fix=dict(unit=unit, div=1, tm=None, rows="modes6"),
                                   pattern=dict(n=n, step=step, offset=offset, order=order, vel=vel))


MAG_TXT = ("magnitudes (name: unit kind, time_div, onset factor, duration factor, offset K, rows shifted by K, time_margin): %s; "
           "int kinds in tick / div columns (i4), float kinds in sec / beat / quarter columns (f4, every value exactly "
           "representable); column family and time_unit (explicit or auto) cycled")


def _mag_txt(mags):
    return MAG_TXT % "; ".join("%s: %s" % (m[0], ", ".join(str(x) for x in m[1:])) for m in mags)


def _block(gen, B, b):
    def it():
        for c in gen():
            if block_of(c, B) == b:
                yield c
    return it


INV_DIVS = [[1, "sec"], [2, "beat"], [8, "div"], [3, "quarter"]]
INV_CONT = ["ndarray", "csc", "csr"]
INV_TXT = ("decoded with (time_div, unit) in {(1,sec),(2,beat),(8,div),(3,quarter)} from an ndarray, and with (1,sec) also "
           "from csc and csr matrices")


def spaces(tier, seed):
    if not (_covers_all_pairs(COV_ROLL, ROLL_DOMS) and _covers_all_pairs(COV_PC, PC_DOMS)):
        raise AssertionError("covering arrays do not cover all pairs")
    quick = tier == "quick"
    sp = []
    sp.append(Space("core-arrays-full-options", gen_core_full, True,
                    "%d hand-picked arrays (collision, unsorted, zero duration, drums, pickup, out of piano range, touching, "
                    "extreme rows) x FULL product time_div{1,2,4} x onset_only x note_separation x (pitch_margin,piano_range)"
                    "{(-1,F),(0,F),(2,F),(-1,T)} x time_margin{0,1} x remove_silence x end_time{None,last,last+1} x binary x "
                    "return_idxs (x remove_drums where a channel column exists)" % len(CORE)))
    sp.append(Space("units-and-resolution", gen_units, True,
                    "5 arrays x 5 column families (beat+quarter+div, quarter+div, div, sec+tick, tick) x time_unit{auto + every "
                    "unit present} x time_div{auto,1,2,4} x remove_silence x time_margin(+end_time, as int when integral) x "
                    "remove_drums{default,T,F}; columns of the units not selected hold different numbers"))
    P4 = (21, 60, 61, 108)
    if quick:
        sp.append(Space("two-row-arrays",
                        lambda: gen_pairs(P4, (0, 1, 2), (0, 1, 2), VEL2_CORE, [(None, None)], ("perf", "score")), True,
                        "ALL ordered 2-row arrays: pitch{21,60,61,108}^2 x onset{0,1,2}^2 x duration{0,1,2}^2 grid steps x velocity"
                        "{absent,(1,64),(64,1),(64,127),(127,64),(127,127)}; 15 option rows each (pairwise covering array over the 9 "
                        "option dimensions)"))
        B2 = 8
        in_core = lambda notes: (all(n[1] in (0, 1, 2) for n in notes) and (notes[0][3], notes[1][3]) in VEL2_CORE)
        sp.append(Space("two-row-arrays-block",
                        _block(lambda: gen_pairs(P4, (0, 1, 2, 4), (0, 1, 2), VEL2, [(None, None)], ("perf", "score"), skip=in_core),
                               B2, seed % B2), True,
                        "block %d of %d (sha1 of the case) of the rest of the thorough 2-row scope (onset{0,1,2,4}, velocity absent or "
                        "{1,64,127}^2); 15 option rows each" % (seed % B2, B2)))
        sp.append(Space("two-row-arrays-channels",
                        lambda: gen_pairs((60, 61), (0, 2), (0, 1), [(None, None), (64, 127), (127, 64)],
                                          [(0, 0), (0, 9), (9, 0)], ("perf", "score")), True,
                        "ALL ordered 2-row arrays pitch{60,61}^2 x onset{0,2}^2 x duration{0,1}^2 x velocity{absent,(64,127),(127,64)} x "
                        "channel{(0,0),(0,9),(9,0)}; 15 option rows each"))
        sp.append(Space("three-row-arrays-core",
                        lambda: gen_triples((60,), (0, 1), (1, 2), True, ("perf",), "roll-pairs2"), True,
                        "ALL ordered 3-row arrays over pitch{60} x onset{0,1} x duration{1,2} (every row permutation, every velocity "
                        "assignment of (1,64,127)/(64,127,127) or none; all collide); 30 option rows each (covering array + mirror)"))
        B3 = 8
        sp.append(Space("three-row-arrays-block",
                        _block(lambda: gen_triples((60, 61), (0, 1, 2), (0, 1, 2), True, ("perf", "score")), B3, seed % B3), True,
                        "block %d of %d (sha1 of the case) of ALL ordered 3-row arrays over pitch{60,61} x onset{0,1,2} x duration{0,1,2}, "
                        "velocities absent or every assignment of (1,64,127)/(64,127,127) to the rows; 15 option rows each" % (seed % B3, B3)))
    else:
        sp.append(Space("two-row-arrays",
                        lambda: gen_pairs(P4, (0, 1, 2, 4), (0, 1, 2), VEL2, [(None, None)], ("perf", "score"), "roll-pairs2"), True,
                        "ALL ordered 2-row arrays: pitch{21,60,61,108}^2 x onset{0,1,2,4}^2 x duration{0,1,2}^2 x velocity{absent, "
                        "{1,64,127}^2}; 30 option rows each (pairwise covering array + mirror)"))
        sp.append(Space("two-row-arrays-channels",
                        lambda: gen_pairs((60, 61), (0, 1, 2), (0, 1, 2), [(None, None), (64, 127), (127, 64)],
                                          [(0, 0), (0, 9), (9, 0), (1, 9)], ("perf", "score", "perf-t"), "roll-pairs2"), True,
                        "ALL ordered 2-row arrays pitch{60,61}^2 x onset{0,1,2}^2 x duration{0,1,2}^2 x 3 velocity patterns x 4 channel "
                        "patterns; 30 option rows each"))
        sp.append(Space("three-row-arrays",
                        lambda: gen_triples((60, 61), (0, 1, 2), (0, 1, 2), True, ("perf", "score"), "roll-pairs"), True,
                        "ALL ordered 3-row arrays over pitch{60,61} x onset{0,1,2} x duration{0,1,2}, velocities absent or every "
                        "assignment of (1,64,127)/(64,127,127); 15 option rows each (pairwise covering array)"))
        sp.append(Space("three-row-arrays-core",
                        lambda: gen_triples((60,), (0, 1), (1, 2), True, ("perf",), "roll-pairs2"), True,
                        "ALL ordered 3-row arrays over pitch{60} x onset{0,1} x duration{1,2}; 30 option rows each (covering array + mirror)"))
        sp.append(Space("three-row-arrays-wide",
                        lambda: gen_triples((21, 60, 108), (0, 2, 3), (1, 3), False, ("score", "perf"), "roll-pairs2"), True,
                        "ALL ordered 3-row arrays over pitch{21,60,108} x onset{0,2,3} x duration{1,3}, no velocities; 30 option rows"))
    sp.append(Space("off-grid", gen_offgrid, True,
                    "ALL ordered 2-row arrays pitch{(60,60),(60,61)} x onset{5/16,27/16,35/16,-3/16}^2 x duration{3/16,11/16,21/16,2}^2 x "
                    "velocity{absent,(64,127),(127,64)} in float units (beat, quarter, sec, auto) x time_div{1,2,4} x onset_only x "
                    "note_separation x time_margin(+pitch_margin 2) x remove_silence; combinations with a rounding tie or two "
                    "readings of the end frame are left out (counted in option_combinations_skipped_as_ambiguous)"))
    off3_txt = ("ALL ordered 3-row arrays (every row order) with onsets in {%s}/32 of the time unit - not on the frame grid of "
                "any resolution, two or three notes starting inside one frame in either row order, the earliest note listed "
                "first, second or last, a pickup - x durations %s time units x pitch{(60,61,62),(60,60,60)}, in float units "
                "(beat, quarter, sec, auto; cycled) with velocities (64,127,1)/(127,1,64)/absent (cycled), x time_div{1,2,4} x "
                "remove_silence x %s; the start of the roll is the earliest onset whatever its row; combinations with a "
                "rounding tie are left out (counted in option_combinations_skipped_as_ambiguous)")
    if quick:
        sp.append(Space("off-grid-three-row", lambda: gen_offgrid3(OFF3_ONSETS_Q, OFF3_DURS_Q, "roll-offgrid3-cycled"), True,
                        off3_txt % (",".join(map(str, OFF3_ONSETS_Q)), "{(1,1,1),(2,1,1),(1,1,2)}",
                                    "one of (plain, note_separation, onset_only) per combination, cycled so that every "
                                    "(time_div, remove_silence, mode) triple occurs")))
    else:
        sp.append(Space("off-grid-three-row", lambda: gen_offgrid3(OFF3_ONSETS_T, OFF3_DURS_T, "roll-offgrid3"), True,
                        off3_txt % (",".join(map(str, OFF3_ONSETS_T)), "{1,2}^3", "{plain, note_separation, onset_only}")))
    sp.append(Space("pitch-class-core-full-options", gen_pc_core, True,
                    "%d arrays x FULL product time_div{1,2,4} x normalize x onset_only x note_separation x time_margin x return_idxs x "
                    "remove_silence x end_time{None,last,last+1} x binary" % (len(CORE) + len(PC_EXTRA))))
    if quick:
        sp.append(Space("pitch-class-two-row",
                        lambda: gen_pc_pairs((59, 60, 72, 127), (0, 1), (0, 2), [(None, None), (64, 127), (127, 64)]), True,
                        "ALL ordered 2-row arrays pitch{59,60,72,127}^2 x onset{0,1}^2 x duration{0,2}^2 x 3 velocity patterns; 20 option "
                        "rows each (pairwise covering array over the 9 option dimensions + mirror)"))
        sp.append(Space("inverse-rolls",
                        lambda: itertools.chain(gen_inverse(128, 4, (0, 60, 127), (1, 127), 3, INV_DIVS, INV_CONT),
                                                gen_inverse(88, 4, (0, 87), (1, 64), 3, INV_DIVS, INV_CONT)), True,
                        "ALL integer rolls 128 x n (rows 0,60,127; values 1,127) and 88 x n (rows 0,87; values 1,64), n <= 4, at most 3 "
                        "non-touching runs; " + INV_TXT))
        BI = 8
        sp.append(Space("inverse-rolls-all-cells",
                        lambda: itertools.chain(
                            gen_inverse_cells(128, 4, (60, 127), (1, 127), INV_DIVS, INV_CONT),
                            gen_inverse_cells(88, 4, (0, 87), (40, 90), INV_DIVS, INV_CONT),
                            _block(lambda: gen_inverse_cells(128, 3, (0, 60, 61), (64, 127), INV_DIVS, INV_CONT), BI, seed % BI)()), True,
                        "ALL integer rolls 128 x n with every cell of rows 60,127 in {0,1,127} and 88 x n with every cell of rows 0,87 "
                        "in {0,40,90}, n <= 4 (every arrangement of equal-valued, different-valued touching and separated runs, incl. a "
                        "row changing its value while the other row is held / silent / changes too), plus block %d of %d (sha1 of "
                        "the case) of ALL 128 x n rolls with every cell of rows 0,60,61 in {0,64,127}, n <= 3; rolls of non-touching "
                        "runs must decode into exactly their runs, rolls with a value change between adjacent frames into notes "
                        "that show the roll again; " % (seed % BI, BI) + INV_TXT))
    else:
        sp.append(Space("pitch-class-two-row",
                        lambda: gen_pc_pairs((0, 59, 60, 72, 127), (0, 1, 2), (0, 1, 2), [(None, None), (64, 127), (127, 64), (1, 1)]), True,
                        "ALL ordered 2-row arrays pitch{0,59,60,72,127}^2 x onset{0,1,2}^2 x duration{0,1,2}^2 x 4 velocity patterns; 20 "
                        "option rows each"))
        sp.append(Space("inverse-rolls",
                        lambda: itertools.chain(gen_inverse(128, 5, (0, 60, 127), (1, 127), 3, INV_DIVS, INV_CONT),
                                                gen_inverse(88, 5, (0, 39, 87), (1, 64), 3, INV_DIVS, INV_CONT)), True,
                        "ALL integer rolls 128 x n (rows 0,60,127; values 1,127) and 88 x n (rows 0,39,87; values 1,64), n <= 5, at most 3 "
                        "non-touching runs; " + INV_TXT))
        sp.append(Space("inverse-rolls-all-cells",
                        lambda: itertools.chain(
                            gen_inverse_cells(128, 5, (60, 127), (1, 127), INV_DIVS, INV_CONT),
                            gen_inverse_cells(88, 5, (0, 87), (40, 90), INV_DIVS, INV_CONT),
                            gen_inverse_cells(128, 3, (0, 60, 61), (64, 127), INV_DIVS, INV_CONT),
                            gen_inverse_cells(88, 3, (0, 39, 87), (1, 64), INV_DIVS, INV_CONT)), True,
                        "ALL integer rolls 128 x n with every cell of rows 60,127 in {0,1,127} and 88 x n with every cell of rows 0,87 "
                        "in {0,40,90}, n <= 5, and ALL 128 x n rolls with every cell of rows 0,60,61 in {0,64,127} and 88 x n rolls "
                        "with every cell of rows 0,39,87 in {0,1,64}, n <= 3; rolls of non-touching runs must decode into exactly "
                        "their runs, rolls with a value change between adjacent frames into notes that show the roll again; " + INV_TXT))
    # ---- magnitude dimension: the same small arrays with large times (rolls of 2**16 .. 2**24 columns)
    big_txt = (" Compared on the sparse matrix: shape, cells, velocity, index rows (no decoding: pianoroll_to_notearray "
               "visits every column).")
    PB = ((60, 60), (127, 0))
    PBT = ((60, 60), (60, 61), (127, 0), (21, 108))
    two_txt = ("ALL ordered 2-row arrays pitch%s x onset{0,1,2}^2 x duration{0,1,2}^2 base steps x velocity{absent,(64,127),"
               "(127,64)} x EVERY magnitude of the list, each under the pairwise covering array over the 8 option dimensions "
               "other than the resolution (15 rows; time_margin 1 replaced by the magnitude's margin where it has one); ")
    if quick:
        sp.append(Space("magnitude-two-row", lambda: gen_mag("roll", MAGS_CORE, PB, SQ3, SQ3, MAG_VELS, "cov"), True,
                        two_txt % "{(60,60),(127,0)}" + _mag_txt(MAGS_CORE) + big_txt))
        BM = 16
        sp.append(Space("magnitude-two-row-block",
                        _block(lambda: gen_mag("roll", MAGS_REST, PB, SQ3, SQ3, MAG_VELS, "cov"), BM, seed % BM), True,
                        "block %d of %d (sha1 of the case) of: " % (seed % BM, BM) + two_txt % "{(60,60),(127,0)}" + _mag_txt(MAGS_REST) + big_txt))
        sp.append(Space("magnitude-2^20",
                        lambda: gen_mag("roll", MAGS_20, PB, SMALL_ON, SMALL_DU, MAG_VELS[:2], "modes6"), True,
                        "ALL ordered 2-row arrays pitch{(60,60),(127,0)} x onset{(0,1),(1,0),(1,1)} x duration{(1,2),(2,1)} x velocity"
                        "{absent,(64,127)} x every magnitude x remove_silence x {plain, note_separation, onset_only}; " + _mag_txt(MAGS_20) + big_txt))
        sp.append(Space("magnitude-2^24",
                        lambda: gen_mag("roll", MAGS_24, PB, ((0, 1),), ((1, 2),), MAG_VELS[1:2], "split3", ks=0), True,
                        "ALL ordered 2-row arrays pitch{(60,60),(127,0)} x onset (0,1) x duration (1,2) x velocity (64,127) x "
                        "every magnitude x {plain, note_separation, onset_only}, silence removed; " + _mag_txt(MAGS_24) +
                        " Wider rolls are not generated: the sparse column pointer alone needs 8 bytes per column." + big_txt))
        sp.append(Space("magnitude-long-notes",
                        lambda: gen_long_notes((2 ** 16 + 2,), (3,), ("after16", "last"), "split3"), True,
                        "a note of 65538 ticks from tick 3 with a short note (1 or 2 ticks, cycled) at tick {65537, the "
                        "long note's last tick} on the same pitch (louder / softer) or the next pitch without velocities, both "
                        "row orders, x {plain, note_separation, onset_only}; remove_silence and column family cycled." + big_txt))
        sp.append(Space("magnitude-patterns", lambda: gen_patterns((30, 300, 1100, 2600), (1, 60, 480), (0,)), True,
                        "regular arrays of n in {30,300,1100,2600} notes (pairs of notes every `step` in {1,60,480} ticks, pitches "
                        "60,60,64,67 repeated - two of four collide -, durations 1,2,3 repeated, velocities 1 + 37 i mod 127 or none) "
                        "x rows ascending / descending / stride-7 permutation x remove_silence x {plain, note_separation, "
                        "onset_only}; up to 624000 columns." + big_txt))
        sp.append(Space("magnitude-pitch-class",
                        lambda: gen_mag("pc", MAGS_PC, ((60, 72), (127, 0)), SMALL_ON, SMALL_DU[:1], MAG_VELS[:2], None), True,
                        "pitch-class rolls of ALL ordered 2-row arrays pitch{(60,72),(127,0)} x onset{(0,1),(1,0),(1,1)} x duration"
                        " (1,2) x velocity{absent,(64,127)} x every magnitude x normalize x binary (display mode, "
                        "remove_silence, return_idxs, end_time cycled); fold computed from the sparse reference cells; " + _mag_txt(MAGS_PC)))
    else:
        sp.append(Space("magnitude-two-row", lambda: gen_mag("roll", MAGS_CORE + MAGS_REST, PBT, SQ3, SQ3, MAG_VELS, "cov"), True,
                        two_txt % "{(60,60),(60,61),(127,0),(21,108)}" + _mag_txt(MAGS_CORE + MAGS_REST) + big_txt))
        sp.append(Space("magnitude-2^20",
                        lambda: gen_mag("roll", MAGS_20, PB + ((60, 61),), SQ3, SMALL_DU + ((0, 1), (1, 1)), MAG_VELS, "modes6"), True,
                        "ALL ordered 2-row arrays pitch{(60,60),(127,0),(60,61)} x onset{0,1,2}^2 x duration{(1,2),(2,1),(0,1),(1,1)} x "
                        "velocity{absent,(64,127),(127,64)} x every magnitude x remove_silence x {plain, note_separation, "
                        "onset_only}; " + _mag_txt(MAGS_20) + big_txt))
        sp.append(Space("magnitude-2^24",
                        lambda: gen_mag("roll", MAGS_24, PB, SMALL_ON, SMALL_DU, MAG_VELS[:2], "split6"), True,
                        "ALL ordered 2-row arrays pitch{(60,60),(127,0)} x onset{(0,1),(1,0),(1,1)} x duration{(1,2),(2,1)} x velocity"
                        "{absent,(64,127)} x every magnitude x remove_silence x {plain, note_separation, onset_only}; " + _mag_txt(MAGS_24) +
                        " Wider rolls are not generated: the sparse column pointer alone needs 8 bytes per column." + big_txt))
        sp.append(Space("magnitude-long-notes",
                        lambda: gen_long_notes((2 ** 16 + 2, 2 ** 16 + 2 ** 15), (0, 3), ("start", "before16", "after16", "last", "behind"), "split6"), True,
                        "a note of L in {65538, 98304} ticks from tick {0,3} with a short note (1 or 2 ticks, cycled) at tick {1, 65535, "
                        "65537, the long note's last tick, the tick after it} on the same pitch (louder / softer) or the next pitch "
                        "without velocities, both row orders, x remove_silence x {plain, note_separation, onset_only}." + big_txt))
        sp.append(Space("magnitude-patterns", lambda: gen_patterns((30, 300, 1100, 2600), (1, 60, 480), (0, 2 ** 16 + 1)), True,
                        "regular arrays of n in {30,300,1100,2600} notes (pairs of notes every `step` in {1,60,480} ticks from tick "
                        "{0, 65537}, pitches 60,60,64,67 repeated - two of four collide -, durations 1,2,3 repeated, velocities "
                        "1 + 37 i mod 127 or none) x rows ascending / descending / stride-7 permutation x remove_silence x {plain, "
                        "note_separation, onset_only}." + big_txt))
        sp.append(Space("magnitude-pitch-class",
                        lambda: gen_mag("pc", MAGS_PC + MAGS_PC_REST, ((60, 72), (127, 0)), SQ3, SMALL_DU, MAG_VELS[:2], None), True,
                        "pitch-class rolls of ALL ordered 2-row arrays pitch{(60,72),(127,0)} x onset{0,1,2}^2 x duration"
                        "{(1,2),(2,1)} x velocity{absent,(64,127)} x every magnitude x normalize x binary (display mode, "
                        "remove_silence, return_idxs, end_time cycled); fold computed from the sparse reference cells; " +
                        _mag_txt(MAGS_PC + MAGS_PC_REST)))
    return sp


TRIGGERS = {}

if __name__ == "__main__":
    import checks.c13 as _m

    run_check(_m)
