"""C13 - a piano roll shows exactly the given notes, in their cells, with their velocity.

Bounded-exhaustive comparison of `compute_pianoroll`, `compute_pitch_class_pianoroll` and
`pianoroll_to_notearray` (partitura/utils/music.py) with an independent rasteriser written from the
property statement (exact `Fraction` arithmetic, DESIGN section 4, C13).

Every case is one note array (or one integer roll) together with a *named set of option
combinations*; `eval_case` runs the real implementation once per combination and compares

  shape        128 rows / 88 in piano range / pitch span + 2 * margin; columns = leading margin +
               frames from the start (first onset, or 0 / the negative first onset when silence is
               kept) to the last note end (or `end_time`) + trailing margin
  cells        cell (p, j) != 0 exactly for the frames a note of pitch p covers (onset frame only /
               last frame dropped / at least one frame)
  velocity     the value of a cell: the note's own velocity, 1 without velocities or in binary
               mode, the maximum where notes collide - independent of the order of the rows
  index-rows   one row per (non-drum) input note, in input order: row, first frame, end frame, pitch
  pc-fold      the pitch-class roll is the octave fold of the full roll (binarised / normalised)
  round-trip   roll of grid-aligned non-touching notes -> note array recovers all four columns
  inverse      every integer roll (128 or 88 rows) of non-touching runs decodes into exactly its runs
  decode-consistent
               every integer roll (128 or 88 rows) - also one in which a row changes its non-zero value from
               one frame to the next (touching / colliding notes of different velocity), and every roll
               compute_pianoroll returns with 128 / 88 rows under any option combination - decodes into
               notes whose own roll (reference rasteriser, maximum on collision) is the given roll
"""
import itertools
from fractions import Fraction as F

import numpy as np

from mc.core import CaseResult, Space, run_check, block_of, innermost_partitura_frame, exc_text, Hang

PID = "C13"
RULE = (
    "a case is one note array (ordered rows; times on the frame grid of the chosen resolution, or "
    "off-grid away from rounding ties) or one integer roll, evaluated under every option combination "
    "of its named option set; each (input, option combination) pair is one state; non-trivial = the "
    "expected roll has at least two distinct non-zero cells or a collision"
)
ASSUMPTIONS = [
    "first frame of a note = round(time_div * (onset - start)), number of frames = max(1, round(time_div * duration)); "
    "off-grid inputs are only generated where this equals round(time_div * (onset + duration - start)) and no value "
    "lies exactly half-way between two frames",
    "start = first onset when remove_silence, else min(0, first onset); the time span ends at the last note end "
    "(full duration, also in onset-only and note-separation mode) or at end_time; time_margin * time_div empty "
    "columns are added on both sides (docstring of compute_pianoroll)",
    "end_time is generated as start + (last frame end)/time_div or one time unit later, so it never cuts a note",
    "notes on channel 9 are left out unless remove_drums=False (docstring); arrays whose notes are all drums are not generated",
    "piano_range is only combined with pitch_margin=-1; for notes outside 21..108 the first index column is not compared "
    "and such notes never delimit the time span",
    "in onset-only mode the third index column may be onset+1 or the note's end frame (with or without separation)",
    "velocity 0 and empty note arrays are outside the quantifier; order and ids of the notes returned by "
    "pianoroll_to_notearray are not compared",
    "the statement promises recovery of the notes only for non-touching notes; for every other integer roll of the "
    "quantifier (a row changes its non-zero value between adjacent frames, collisions, onset-only / separated / binary / "
    "margin rolls) it leaves open WHICH notes are returned, and the check accepts every answer whose notes, rasterised as "
    "the first sentence of the statement prescribes (own velocity, maximum on collision, at least one frame), show "
    "exactly the given roll (clause decode-consistent); how a run of equal values is cut into notes is not compared",
    "trusted: numpy, scipy.sparse (toarray, slicing)",
]
CHUNK = 4

# ---------------------------------------------------------------------------------------------
# units and note arrays

FAMILIES = {
    "score": ["beat", "quarter", "div"],
    "score-qd": ["quarter", "div"],
    "score-d": ["div"],
    "perf": ["sec", "tick"],
    "perf-t": ["tick"],
}
INT_UNITS = ("div", "tick")


def fr(x):
    if isinstance(x, str):
        a, _, b = x.partition("/")
        return F(int(a), int(b or 1))
    return F(x)


def resolve(fam, o):
    """(selected unit, effective time_div) the statement/docstring prescribe for these options."""
    unit = o["time_unit"]
    if unit == "auto":
        unit = FAMILIES[fam][0]
    div = o["time_div"]
    if div == "auto":
        div = 1 if unit in INT_UNITS else 8
    return unit, int(div)


def note_values(case, unit, div):
    """[(pitch, onset, duration, velocity, channel)] with exact times in the selected unit."""
    out = []
    for p, on, du, v, ch in case["notes"]:
        if case.get("grid", "aligned") == "aligned":
            step = F(1) if unit in INT_UNITS else F(1, div)
            out.append((p, on * step, du * step, v, ch))
        else:
            out.append((p, fr(on), fr(du), v, ch))
    return out


def build_array(fam, unit, vals, extra_id=True):
    """Structured note array; the selected unit carries the values, every other unit of the family
    carries different numbers (2x+1), so that reading the wrong column changes the roll."""
    has_v = any(v[3] is not None for v in vals)
    has_c = any(v[4] is not None for v in vals)
    dt = []
    for u in FAMILIES[fam]:
        t = "i4" if u in INT_UNITS else "f4"
        dt += [("onset_" + u, t), ("duration_" + u, t)]
    dt.append(("pitch", "i4"))
    if has_v:
        dt.append(("velocity", "i4"))
    if has_c:
        dt.append(("channel", "i4"))
    if extra_id:
        dt.append(("id", "U16"))
    arr = np.zeros(len(vals), dtype=dt)
    for i, (p, on, du, v, ch) in enumerate(vals):
        for u in FAMILIES[fam]:
            if u == unit:
                a, b = on, du
            else:
                a, b = on * 2 + 1, du * 2 + 1
            if u in INT_UNITS:
                if u == unit and (a.denominator != 1 or b.denominator != 1):
                    raise AssertionError("generator: non-integer value for an integer unit")
                a, b = int(a), int(b)
            else:
                a, b = float(a), float(b)
                if u == unit and (F(float(np.float32(a))) != on or F(float(np.float32(b))) != du):
                    raise AssertionError("generator: value not representable in float32")
            arr["onset_" + u][i] = a
            arr["duration_" + u][i] = b
        arr["pitch"][i] = p
        if has_v:
            arr["velocity"][i] = v
        if has_c:
            arr["channel"][i] = ch
        if extra_id:
            arr["id"][i] = "n%d" % i
    return arr


# ---------------------------------------------------------------------------------------------
# reference rasteriser


class Tie(Exception):
    pass


def rnd(x):
    fl = x.numerator // x.denominator
    rest = x - fl
    if rest == F(1, 2):
        raise Tie()
    return fl + (1 if rest > F(1, 2) else 0)


def ref_roll(notes, div, o):
    """notes: [(pitch, onset, duration, velocity|None)] in input order (drums already left out).

    Returns None when the case is outside the unambiguous part of the quantifier (rounding tie, or
    the two readings of a note's end frame differ); else a dict with M, N, dense (list of rows as a
    numpy int array), idx rows, end_time value, start.
    """
    tmin = min(n[1] for n in notes)
    start = tmin if o["remove_silence"] else min(F(0), tmin)
    lead = o["time_margin"] * div
    sep = 1 if o["note_separation"] else 0
    spans = []
    try:
        for p, on, du, v in notes:
            a = rnd(div * (on - start))
            d = max(1, rnd(div * du))
            if max(a + 1, rnd(div * (on + du - start))) != a + d:
                return None
            spans.append((a + lead, a + d + lead))
    except Tie:
        return None
    last = max(b for a, b in spans) - lead  # frames from start to the last note end
    et = o["end_time"]
    if et is None:
        end_time = None
        body = last
    else:
        body = last + (div if et == "last+1" else 0)
        end_time = start + F(body, div)
    N = lead + body + lead

    pm, pr = o["pitch_margin"], o["piano_range"]
    pitches = [n[0] for n in notes]
    if pm > -1:
        lo = min(pitches)
        M = max(pitches) - lo + 1 + 2 * pm
        rows = [p - lo + pm for p in pitches]
    elif pr:
        M = 88
        rows = [p - 21 for p in pitches]
    else:
        M = 128
        rows = list(pitches)
    dense = np.zeros((M, N), dtype=np.int64)
    idx = []
    collide = False
    for (p, on, du, v), (a, b), r in zip(notes, spans, rows):
        val = 1 if (v is None or o["binary"]) else v
        shown = max(a + 1, b - sep)
        cols = [a] if o["onset_only"] else range(a, shown)
        inrange = 0 <= r < M
        if inrange:
            for j in cols:
                if dense[r, j]:
                    collide = True
                dense[r, j] = max(dense[r, j], val)
        if o["onset_only"]:
            ends = sorted(set([a + 1, b, shown]))
        else:
            ends = [shown]
        idx.append((r if inrange else None, a, ends, p))
    return dict(M=M, N=N, dense=dense, idx=idx, end_time=end_time, start=start, spans=spans, rows=rows,
                collide=collide, lead=lead)


def idx_matches(obs, exp):
    """obs: int array (n,4); exp: list of (row|None, a, [ends], pitch)."""
    if obs.ndim != 2 or obs.shape != (len(exp), 4):
        return False
    for row, (r, a, ends, p) in zip(obs.tolist(), exp):
        if r is not None and row[0] != r:
            return False
        if row[1] != a or row[2] not in ends or row[3] != p:
            return False
    return True


def idx_text(exp):
    return [[r, a, ends if len(ends) > 1 else ends[0], p] for r, a, ends, p in exp]


def nz(d):
    r, c = np.nonzero(d)
    return [[int(a), int(b), int(d[a, b])] for a, b in zip(r, c)][:24]


# ---------------------------------------------------------------------------------------------
# option sets

D_DIV = [1, 2, 4]
D_PMPR = [(-1, False), (0, False), (2, False), (-1, True)]
D_END = [None, "last", "last+1"]
BOOL = [False, True]

# pairwise covering arrays (greedy, generated once; coverage is re-verified in spaces()).
# roll dims: div, onset_only, note_separation, (pitch_margin, piano_range), time_margin, keep_silence, end_time, binary, no_idxs
COV_ROLL = [(0, 0, 0, 0, 0, 0, 0, 0, 0), (0, 1, 1, 1, 1, 1, 1, 1, 1), (1, 0, 0, 2, 0, 1, 2, 1, 1), (2, 1, 1, 3, 1, 0, 2, 0, 0),
            (1, 0, 0, 1, 1, 0, 1, 0, 0), (2, 0, 1, 3, 0, 1, 0, 1, 1), (1, 1, 1, 0, 1, 0, 0, 1, 1), (2, 1, 0, 2, 0, 1, 1, 0, 0),
            (0, 0, 1, 2, 1, 0, 0, 0, 1), (0, 0, 0, 0, 0, 1, 2, 1, 0), (0, 0, 0, 3, 0, 0, 1, 0, 0), (2, 0, 0, 1, 0, 0, 0, 0, 0),
            (2, 0, 0, 0, 0, 0, 1, 0, 0), (0, 0, 0, 1, 0, 0, 2, 0, 0), (1, 0, 0, 3, 0, 0, 0, 0, 0)]
ROLL_DOMS = [3, 2, 2, 4, 2, 2, 3, 2, 2]
# pc dims: div, normalize, onset_only, note_separation, time_margin, no_idxs, keep_silence, end_time, binary
COV_PC = [(0, 0, 0, 0, 0, 0, 0, 0, 0), (0, 1, 1, 1, 1, 1, 1, 1, 1), (1, 0, 0, 0, 0, 1, 1, 2, 1), (2, 1, 1, 1, 1, 0, 0, 2, 0),
          (1, 0, 0, 1, 1, 0, 0, 1, 0), (2, 1, 1, 0, 0, 0, 1, 0, 1), (1, 0, 1, 0, 1, 1, 0, 0, 0), (2, 0, 0, 0, 0, 1, 0, 1, 1),
          (1, 1, 0, 1, 0, 0, 1, 0, 0), (0, 0, 0, 0, 0, 0, 0, 2, 0)]
PC_DOMS = [3, 2, 2, 2, 2, 2, 2, 3, 2]


# display modes of the off-grid three-row space: (onset_only, note_separation)
OFF3_MODES = [(0, 0), (0, 1), (1, 0)]


def _mirror(rows, doms):
    """the covering rows plus their mirror image (value v -> dom-1-v): still all pairs, more triples."""
    out = list(rows)
    for r in rows:
        m = tuple(d - 1 - v for v, d in zip(r, doms))
        if m not in out:
            out.append(m)
    return out


def _covers_all_pairs(rows, doms):
    k = len(doms)
    for i in range(k):
        for j in range(i + 1, k):
            seen = set((r[i], r[j]) for r in rows)
            if len(seen) != doms[i] * doms[j]:
                return False
    return True


def roll_opt(t, unit="auto", extra=None):
    o = dict(time_unit=unit, time_div=D_DIV[t[0]], onset_only=BOOL[t[1]], note_separation=BOOL[t[2]],
             pitch_margin=D_PMPR[t[3]][0], piano_range=D_PMPR[t[3]][1], time_margin=t[4],
             remove_silence=not BOOL[t[5]], end_time=D_END[t[6]], binary=BOOL[t[7]], return_idxs=not BOOL[t[8]])
    if extra:
        o.update(extra)
    return o


def pc_opt(t, unit="auto", extra=None):
    o = dict(time_unit=unit, time_div=D_DIV[t[0]], normalize=BOOL[t[1]], onset_only=BOOL[t[2]],
             note_separation=BOOL[t[3]], time_margin=t[4], return_idxs=not BOOL[t[5]],
             remove_silence=not BOOL[t[6]], end_time=D_END[t[7]], binary=BOOL[t[8]],
             pitch_margin=-1, piano_range=False)
    if extra:
        o.update(extra)
    return o


def option_set(case):
    """The option combinations of a case (a pure function of the case)."""
    name = case["optset"]
    fix = case.get("fix", {})
    if name == "roll-full":  # full product of everything except the fixed dims (div, pmpr given in fix)
        for t in itertools.product(*[range(d) for d in ROLL_DOMS]):
            if t[0] != fix["div_i"] or t[3] != fix["pmpr_i"]:
                continue
            yield roll_opt(t, extra=fix.get("extra"))
    elif name == "roll-pairs":  # pairwise covering array (15 rows)
        for t in COV_ROLL:
            yield roll_opt(t, extra=fix.get("extra"))
    elif name == "roll-pairs2":  # covering array + mirror image (30 rows)
        for t in _mirror(COV_ROLL, ROLL_DOMS):
            yield roll_opt(t, extra=fix.get("extra"))
    elif name == "roll-units":
        for unit in ["auto"] + FAMILIES[case["fam"]]:
            for div in ["auto", 1, 2, 4]:
                for rs in (True, False):
                    for tm in (0, 1):
                        for rd in (None, True, False):
                            o = roll_opt((0, 0, 0, 0, tm, 0 if rs else 1, 1 if tm else 0, 0, 0), unit=unit)
                            o["time_div"] = div
                            o["end_as_int"] = True
                            if rd is not None:
                                o["remove_drums"] = rd
                            yield o
    elif name == "roll-offgrid":
        for div_i in range(3):
            for oo, sepn, tm, ks in itertools.product(range(2), repeat=4):
                yield roll_opt((div_i, oo, sepn, 2 * tm, tm, ks, 0, 0, 0), unit=fix.get("unit", "auto"))
    elif name == "roll-offgrid3":  # resolution x silence x display mode, complete
        for div_i, ks, (oo, sepn) in itertools.product(range(3), range(2), OFF3_MODES):
            yield roll_opt((div_i, oo, sepn, 0, 0, ks, 0, 0, 0), unit=fix.get("unit", "auto"))
    elif name == "roll-offgrid3-cycled":  # resolution x silence complete, display mode cycled (start given by the case)
        for i, (div_i, ks) in enumerate(itertools.product(range(3), range(2))):
            oo, sepn = OFF3_MODES[(fix["rot"] + i) % len(OFF3_MODES)]
            yield roll_opt((div_i, oo, sepn, 0, 0, ks, 0, 0, 0), unit=fix.get("unit", "auto"))
    elif name == "pc-full":
        for t in itertools.product(*[range(d) for d in PC_DOMS]):
            if t[0] != fix["div_i"]:
                continue
            yield pc_opt(t)
    elif name == "pc-pairs2":
        for t in _mirror(COV_PC, PC_DOMS):
            yield pc_opt(t)
    else:
        raise ValueError(name)


# ---------------------------------------------------------------------------------------------
# evaluation


def _call(res, clause, detail, fn, *a, **kw):
    try:
        return True, fn(*a, **kw)
    except Hang:
        raise
    except Exception as e:  # noqa
        res.fail(clause, kind="exception", where=innermost_partitura_frame(e), observed=exc_text(e), detail=detail)
        return False, None


def _ref_inputs(case, o, cache):
    """family, selected unit, resolution, the note array (a fresh copy) and the notes that count."""
    fam = case["fam"]
    unit, div = resolve(fam, o)
    key = (unit, div)
    if key not in cache:
        vals = note_values(case, unit, div)
        cache[key] = (vals, build_array(fam, unit, vals))
    vals, arr = cache[key]
    keep = vals
    if any(v[4] is not None for v in vals) and o.get("remove_drums", True):
        keep = [v for v in vals if v[4] != 9]
    return fam, unit, div, arr.copy(), [v[:4] for v in keep]


def _kwargs(o, ref, names):
    kw = {}
    for k in names:
        if k == "end_time":
            et = ref["end_time"]
            if et is None:
                kw[k] = None
            else:
                kw[k] = int(et) if (et.denominator == 1 and o.get("end_as_int")) else float(et)
        elif k in o:
            kw[k] = o[k]
    return kw


ROLL_KW = ("time_unit", "time_div", "onset_only", "note_separation", "pitch_margin", "time_margin", "return_idxs",
           "piano_range", "remove_drums", "remove_silence", "end_time", "binary")
PC_KW = ("normalize", "time_unit", "time_div", "onset_only", "note_separation", "time_margin", "return_idxs",
         "remove_silence", "end_time", "binary")


def reraster(back, unit, div, R, n):
    """The roll (R x n, int) the decoded notes `back` show according to the first sentence of the statement:
    first frame round(div * onset), max(1, round(div * duration)) frames, own velocity, maximum on collision.
    Returns (dense, None) or (None, reason) when a note does not fit the roll at all."""
    base = 0 if R == 128 else 21
    dense = np.zeros((R, n), dtype=np.int64)
    try:
        rows = [(int(x["pitch"]), float(x["onset_" + unit]), float(x["duration_" + unit]), int(x["velocity"])) for x in back]
    except Exception as e:  # noqa
        return None, exc_text(e)
    for p, on, du, v in rows:
        a = int(round(div * on))
        d = max(1, int(round(div * du)))
        if abs(div * on - a) > 1e-4 or abs(div * du - round(div * du)) > 1e-4:
            return None, "note (%d, %r, %r, %d) is not on the frame grid" % (p, on, du, v)
        r = p - base
        if not (0 <= r < R and 0 <= a and a + d <= n):
            return None, "note (%d, %r, %r, %d) lies outside the %dx%d roll" % (p, on, du, v, R, n)
        if v == 0:
            return None, "note (%d, %r, %r, %d) has velocity 0" % (p, on, du, v)
        seg = dense[r, a:a + d]
        np.maximum(seg, v, out=seg)
    return dense, None


def decode_consistent(res, roll, dense, div, unit, detail, stats):
    """clause decode-consistent: pianoroll_to_notearray(roll) returns notes that show exactly `dense`."""
    from partitura.utils.music import pianoroll_to_notearray

    res.transitions += 1
    stats["decodes"] = stats.get("decodes", 0) + 1
    ok, back = _call(res, "decode-consistent", detail, pianoroll_to_notearray, roll, div, unit)
    if not ok:
        return None
    again, why = reraster(back, unit, div, dense.shape[0], dense.shape[1])
    if again is None:
        res.fail("decode-consistent", expected=nz(dense), observed=why, where="pianoroll_to_notearray", detail=detail)
    elif not np.array_equal(again, dense):
        try:
            notes = sorted((int(x["pitch"]), float(x["onset_" + unit]), float(x["duration_" + unit]), int(x["velocity"])) for x in back)
        except Exception as e:  # noqa
            notes = exc_text(e)
        res.fail("decode-consistent", expected="notes showing the cells %s" % nz(dense),
                 observed="notes %s showing the cells %s" % (notes, nz(again)), where="pianoroll_to_notearray", detail=detail)
    return back


def check_roll(res, case, o, stats, cache):
    from partitura.utils.music import compute_pianoroll, pianoroll_to_notearray

    fam, unit, div, arr, notes = _ref_inputs(case, o, cache)
    ref = ref_roll(notes, div, o)
    if ref is None:
        stats["skipped"] += 1
        return
    kw = _kwargs(o, ref, ROLL_KW)
    detail = "notes=%s fam=%s kwargs=%s" % (case["notes"], fam, sorted(kw.items()))
    res.states += 1
    res.traces += 1
    res.transitions += 1
    ok, out = _call(res, "total", detail, compute_pianoroll, arr, **kw)
    if not ok:
        return
    if o["return_idxs"]:
        if not (isinstance(out, tuple) and len(out) == 2):
            res.fail("index-rows", expected="(roll, index array)", observed=type(out).__name__, where="compute_pianoroll", detail=detail)
            return
        pr, idx = out
    else:
        pr, idx = out, None
    if isinstance(pr, tuple) or not hasattr(pr, "shape"):
        res.fail("shape", expected="a matrix", observed=type(pr).__name__, where="compute_pianoroll", detail=detail)
        return
    exp = ref["dense"]
    stats["nnz"] += int(np.count_nonzero(exp))
    if np.count_nonzero(exp) >= 2 or ref["collide"]:
        stats["nontrivial"] += 1
    if tuple(pr.shape) != (ref["M"], ref["N"]):
        res.fail("shape", expected=[ref["M"], ref["N"]], observed=list(pr.shape), where="compute_pianoroll shape", detail=detail)
        return
    got = np.asarray(pr.toarray() if hasattr(pr, "toarray") else pr)
    if not np.array_equal(got != 0, exp != 0):
        res.fail("cells", expected=nz(exp), observed=nz(got), where="compute_pianoroll cells", detail=detail)
        return
    if not np.array_equal(got, exp):
        res.fail("velocity", expected=nz(exp), observed=nz(got), where="compute_pianoroll cell values", detail=detail)
        return
    if idx is not None:
        idx = np.asarray(idx)
        if not idx_matches(idx, ref["idx"]):
            res.fail("index-rows", expected=idx_text(ref["idx"]), observed=idx.tolist(), where="compute_pianoroll index rows", detail=detail)
            return
    # round trip, where the statement promises it
    plain = not o["onset_only"] and not o["note_separation"] and not o["binary"] and o["time_margin"] == 0
    exact = False
    if (plain and o["pitch_margin"] == -1 and ref["start"] == 0 and case.get("grid", "aligned") == "aligned"):
        spans = sorted(zip(ref["rows"], ref["spans"]))
        apart = all(not (spans[i][0] == spans[i + 1][0] and spans[i + 1][1][0] <= spans[i][1][1]) for i in range(len(spans) - 1))
        positive = all(n[2] > 0 for n in notes)
        inside = all(0 <= r < ref["M"] for r in ref["rows"])
        if apart and positive and inside:
            exact = True
            stats["roundtrips"] += 1
            res.transitions += 1
            ok, back = _call(res, "round-trip", detail, pianoroll_to_notearray, pr, div, unit)
            if ok:
                want = sorted((p, float(on), float(du), 1 if v is None else v) for p, on, du, v in notes)
                try:
                    have = sorted((int(r["pitch"]), float(r["onset_" + unit]), float(r["duration_" + unit]), int(r["velocity"]))
                                  for r in back)
                except Exception as e:  # noqa
                    have = exc_text(e)
                if have != want:
                    res.fail("round-trip", expected=want, observed=have, where="pianoroll_to_notearray", detail=detail)
    # every other roll of 128 / 88 rows (touching or colliding notes, zero durations, notes outside the piano, pickup,
    # onset-only / separated / binary / margin rolls): the decoded notes must show the roll again. The matrix is decoded
    # as returned (sparse) for the plain option combinations, as a dense array otherwise.
    if not exact and o["pitch_margin"] == -1:
        decode_consistent(res, pr if plain else got.copy(), exp, div, unit, detail, stats)


def check_pc(res, case, o, stats, cache):
    from partitura.utils.music import compute_pitch_class_pianoroll

    fam, unit, div, arr, notes = _ref_inputs(case, o, cache)
    full = dict(o, binary=False)
    ref = ref_roll(notes, div, full)
    if ref is None:
        stats["skipped"] += 1
        return
    kw = _kwargs(o, ref, PC_KW)
    detail = "pitch-class notes=%s fam=%s kwargs=%s" % (case["notes"], fam, sorted(kw.items()))
    res.states += 1
    res.traces += 1
    res.transitions += 1
    ok, out = _call(res, "total", detail, compute_pitch_class_pianoroll, arr, **kw)
    if not ok:
        return
    if o["return_idxs"]:
        if not (isinstance(out, tuple) and len(out) == 2):
            res.fail("index-rows", expected="(roll, index array)", observed=type(out).__name__, where="compute_pitch_class_pianoroll", detail=detail)
            return
        pc, idx = out
    else:
        pc, idx = out, None
    # octave fold of the full roll, in exact arithmetic
    dense = ref["dense"]
    N = ref["N"]
    fold = [[0] * N for _ in range(12)]
    for r, c in np.argwhere(dense).tolist():
        fold[r % 12][c] += int(dense[r, c])
    if o["binary"]:
        fold = [[1 if x > 0 else 0 for x in row] for row in fold]
    exp = [[F(x) for x in row] for row in fold]
    if o["normalize"]:
        for j in range(N):
            s = sum(fold[c][j] for c in range(12))
            if s:
                for c in range(12):
                    exp[c][j] = F(fold[c][j], s)
    stats["nnz"] += sum(1 for row in fold for x in row if x)
    if sum(1 for row in fold for x in row if x) >= 2:
        stats["nontrivial"] += 1
    pc = np.asarray(pc)
    if pc.shape != (12, N):
        res.fail("shape", expected=[12, N], observed=list(pc.shape), where="compute_pitch_class_pianoroll shape", detail=detail)
        return
    expf = np.array([[float(x) for x in row] for row in exp], dtype=float).reshape(12, N)
    if not np.all(np.abs(pc.astype(float) - expf) <= 1e-9 * np.maximum(1.0, np.abs(expf))):
        res.fail("pc-fold", expected=[[r, c, expf[r, c]] for r, c in np.argwhere(expf).tolist()][:24],
                 observed=[[r, c, float(pc[r, c])] for r, c in np.argwhere(pc).tolist()][:24],
                 where="compute_pitch_class_pianoroll cells", detail=detail)
        return
    if idx is not None:
        want = [(None if r is None else r % 12, a, ends, p) for r, a, ends, p in ref["idx"]]
        idx = np.asarray(idx)
        if not idx_matches(idx, want):
            res.fail("index-rows", expected=idx_text(want), observed=idx.tolist(), where="compute_pitch_class_pianoroll index rows", detail=detail)


def check_inverse(res, case, stats):
    """case: rows (128|88), n, runs [[row, start, length, value], ...] non-touching."""
    from partitura.utils.music import pianoroll_to_notearray
    from scipy.sparse import csc_matrix, csr_matrix

    R, n = case["rows"], case["n"]
    dense = np.zeros((R, n), dtype=int)
    touching = False
    if "cells" in case:  # every cell of the chosen rows given: runs = maximal stretches of one non-zero value
        runs = []
        for r, vals in case["cells"]:
            dense[r, :] = vals
            j = 0
            while j < n:
                if vals[j] == 0:
                    j += 1
                    continue
                k = j
                while k < n and vals[k] == vals[j]:
                    k += 1
                if k < n and vals[k] != 0:
                    touching = True
                runs.append([r, j, k - j, vals[j]])
                j = k
    else:
        runs = case["runs"]
        for r, s, l, v in runs:
            dense[r, s:s + l] = v
    base = 0 if R == 128 else 21
    for k, (div, unit) in enumerate(case["divs"]):
        for cont in (case["containers"] if k == 0 else case["containers"][:1]):
            roll = dense.copy() if cont == "ndarray" else (csc_matrix(dense) if cont == "csc" else csr_matrix(dense))
            detail = "roll %dx%d runs=%s time_div=%r time_unit=%s container=%s" % (R, n, runs, div, unit, cont)
            res.states += 1
            res.traces += 1
            if touching:
                # a row changes its non-zero value between adjacent frames: not the roll of non-touching notes, the
                # statement does not say which notes come back - they must show the roll again
                stats["touching"] = 1
                decode_consistent(res, roll, dense, div, unit, detail, stats)
                if cont == "ndarray" and not np.array_equal(roll, dense):
                    res.fail("inverse", expected="the roll is left as given", observed=nz(roll), where="pianoroll_to_notearray argument", detail=detail)
                continue
            res.transitions += 1
            ok, back = _call(res, "inverse", detail, pianoroll_to_notearray, roll, div, unit)
            if not ok:
                continue
            want = sorted((r + base, float(np.float32(s / div)), float(np.float32(l / div)), v) for r, s, l, v in runs)
            try:
                have = sorted((int(x["pitch"]), float(x["onset_" + unit]), float(x["duration_" + unit]), int(x["velocity"])) for x in back)
            except Exception as e:  # noqa
                have = [exc_text(e)]
            same = len(have) == len(want) and all(
                h[0] == w[0] and h[3] == w[3] and abs(h[1] - w[1]) <= 5e-7 * max(1, abs(w[1])) and abs(h[2] - w[2]) <= 5e-7 * max(1, abs(w[2]))
                for h, w in zip(have, want))
            if not same:
                res.fail("inverse", expected=want, observed=have, where="pianoroll_to_notearray", detail=detail)
            if cont == "ndarray" and not np.array_equal(roll, dense):
                res.fail("inverse", expected="the roll is left as given", observed=nz(roll), where="pianoroll_to_notearray argument", detail=detail)
    stats["nnz"] += int(np.count_nonzero(dense))
    if len(runs) >= 2:
        stats["nontrivial"] += 1


def eval_case(case):
    res = CaseResult(states=0, transitions=0, traces=0)
    stats = dict(skipped=0, nnz=0, nontrivial=0, roundtrips=0, decodes=0, touching=0)
    kind = case["kind"]
    if kind == "inv":
        check_inverse(res, case, stats)
    else:
        fn = check_roll if kind == "roll" else check_pc
        cache = {}
        for o in option_set(case):
            fn(res, case, o, stats, cache)
    res.nontrivial = stats["nontrivial"] > 0
    res.outcome = "%s evals=%d nnz=%d rt=%d dec=%d skipped=%d%s" % (kind, res.states, stats["nnz"], stats["roundtrips"],
                                                                 stats["decodes"], stats["skipped"], " touching" if stats["touching"] else "")
    res.extra = {"option_combinations_skipped_as_ambiguous": stats["skipped"], "round_trips": stats["roundtrips"],
                 "decodes_checked_for_consistency": stats["decodes"],
                 "nontrivial_evaluations": stats["nontrivial"]}
    return res


# ---------------------------------------------------------------------------------------------
# generators

# hand-picked arrays (grid steps): one per shortcut visible in the code
CORE = [
    ("perf", [[60, 1, 1, 64, None], [60, 0, 2, 127, None]]),                       # collision, later row starts first
    ("perf", [[60, 0, 2, 64, None], [60, 1, 2, 127, None], [61, 2, 0, 1, None]]),  # partial overlap, zero duration
    ("score", [[108, 2, 1, None, None], [21, 0, 1, None, None]]),                   # no velocities, edges of the piano
    ("perf", [[61, 2, 2, 1, 9], [60, 1, 1, 64, 0], [60, 3, 1, 127, 0]]),            # drum note with extreme pitch/time
    ("score", [[60, -2, 1, 64, None], [61, 1, 1, 127, None]]),                      # pickup: negative onset
    ("perf", [[20, 1, 1, 64, None], [60, 0, 4, 127, None], [109, 2, 1, 1, None]]),  # outside the piano range
    ("perf", [[60, 0, 1, 64, None], [60, 0, 1, 127, None], [60, 0, 1, 1, None]]),   # triple collision, max in the middle
    ("perf", [[60, 1, 1, 127, None], [61, 0, 2, 64, None], [60, 0, 1, 127, None]]), # touching notes
    ("perf", [[127, 1, 1, 7, 0], [0, 0, 1, 5, 0]]),                                 # extreme rows, channel column, no drums
    ("score", [[60, 2, 3, 100, None]]),                                             # single note, late start
    ("perf", [[61, 4, 2, 64, None], [60, 2, 2, 127, None], [60, 0, 2, 1, None]]),   # reverse order
    ("perf", [[61, 1, 2, 1, None], [60, 1, 1, 127, None]]),                         # equal onsets
    ("score-qd", [[61, 3, 1, None, None], [60, 1, 0, None, None], [60, 1, 2, None, None]]),  # zero duration under a note
    ("perf-t", [[60, 2, 2, 10, 9], [64, 0, 1, 20, 1], [62, 1, 2, 30, 9]]),          # two drum notes, last one ends the span
]


def gen_core_full():
    for fam, notes in CORE:
        has_c = any(n[4] is not None for n in notes)
        for extra in ([None, {"remove_drums": False}] if has_c else [None]):
            for div_i in range(3):
                for pmpr_i in range(4):
                    yield dict(kind="roll", fam=fam, notes=notes, optset="roll-full",
                               fix=dict(div_i=div_i, pmpr_i=pmpr_i, extra=extra))


def gen_units():
    arrays = [
        [[60, 1, 1, 64, None], [60, 0, 2, 127, None]],
        [[61, 2, 1, None, None], [60, 0, 1, None, None]],
        [[61, 3, 2, 1, 9], [60, 1, 1, 64, 0], [62, 2, 1, 127, 0]],
        [[60, 2, 2, None, 9], [64, 0, 1, None, 1], [62, 1, 2, None, 0]],
        [[60, -1, 1, 5, 0], [60, 0, 1, 9, 0]],
    ]
    for fam in FAMILIES:
        for notes in arrays:
            yield dict(kind="roll", fam=fam, notes=notes, optset="roll-units")


VEL2 = [(None, None)] + [(a, b) for a in (1, 64, 127) for b in (1, 64, 127)]
VEL2_CORE = [(None, None), (1, 64), (64, 1), (64, 127), (127, 64), (127, 127)]


def gen_pairs(pitches, onsets, durs, vels, chans, fams, optset="roll-pairs", skip=None):
    """every ordered 2-row array over the alphabets."""
    k = 0
    for p1, p2 in itertools.product(pitches, repeat=2):
        for o1, o2 in itertools.product(onsets, repeat=2):
            for d1, d2 in itertools.product(durs, repeat=2):
                for v1, v2 in vels:
                    for c1, c2 in chans:
                        fam = fams[k % len(fams)]
                        k += 1
                        notes = [[p1, o1, d1, v1, c1], [p2, o2, d2, v2, c2]]
                        if skip is not None and skip(notes):
                            continue
                        yield dict(kind="roll", fam=fam, optset=optset, notes=notes)


def gen_triples(pitches, onsets, durs, with_vel, fams, optset="roll-pairs"):
    """every ordered 3-row array over the note alphabet; velocities = every assignment of (1, 64, 127)
    and of (64, 127, 127) to the rows, or none - so every permutation of every row multiset occurs."""
    alpha = [(p, o, d) for p in pitches for o in onsets for d in durs]
    vel_sets = [(None, None, None)]
    if with_vel:
        vel_sets += sorted(set(itertools.permutations((1, 64, 127)))) + sorted(set(itertools.permutations((64, 127, 127))))
    k = 0
    for trip in itertools.product(alpha, repeat=3):
        for vs in vel_sets:
            fam = fams[k % len(fams)]
            k += 1
            yield dict(kind="roll", fam=fam, optset=optset,
                       notes=[[n[0], n[1], n[2], v, None] for n, v in zip(trip, vs)])


def gen_offgrid():
    ons = ["5/16", "27/16", "35/16", "-3/16"]
    dus = ["3/16", "11/16", "21/16", "2/1"]
    k = 0
    for p1, p2 in ((60, 60), (60, 61)):
        for o1, o2 in itertools.product(ons, repeat=2):
            for d1, d2 in itertools.product(dus, repeat=2):
                for v1, v2 in ((None, None), (64, 127), (127, 64)):
                    fam, unit = (("score", "beat"), ("score", "quarter"), ("perf", "sec"), ("score-qd", "auto"))[k % 4]
                    k += 1
                    yield dict(kind="roll", grid="raw", fam=fam, optset="roll-offgrid", fix=dict(unit=unit),
                               notes=[[p1, o1, d1, v1, None], [p2, o2, d2, v2, None]])


OFF3_ONSETS_Q = (-6, 0, 3, 5, 11, 21, 27, 43, 58)
OFF3_ONSETS_T = (-7, -6, 0, 3, 5, 11, 14, 21, 22, 27, 43, 45, 58)
OFF3_DURS_Q = ((1, 1, 1), (2, 1, 1), (1, 1, 2))
OFF3_DURS_T = tuple(itertools.product((1, 2), repeat=3))
OFF3_PITCHES = ((60, 61, 62), (60, 60, 60))
OFF3_VELS = ((64, 127, 1), (127, 1, 64), (None, None, None))
OFF3_UNITS = (("score", "beat"), ("score", "quarter"), ("perf", "sec"), ("score-qd", "auto"))


def gen_offgrid3(onsets32, durs, optset):
    """every ordered 3-row array whose onsets are 32nds of the time unit from `onsets32` (so: rows in every order, two
    or three notes inside one frame in either row order, the other note anywhere relative to the frame borders),
    durations whole time units; column family / unit, velocity pattern and (quick) the first display mode are cycled."""
    k = 0
    for pitches in OFF3_PITCHES:
        for du in durs:
            for ons in itertools.product(onsets32, repeat=3):
                fam, unit = OFF3_UNITS[k % 4]
                vel = OFF3_VELS[k % 3]
                rot = (k // 12) % 3
                k += 1
                yield dict(kind="roll", grid="raw", fam=fam, optset=optset, fix=dict(unit=unit, rot=rot),
                           notes=[[p, "%d/32" % o, "%d/1" % d, v, None] for p, o, d, v in zip(pitches, ons, du, vel)])


PC_EXTRA = [
    ("perf", [[60, 0, 2, 64, None], [72, 1, 2, 127, None], [48, 1, 1, 1, None]]),   # three octaves of C overlap
    ("perf", [[0, 0, 1, 3, None], [127, 0, 1, 5, None], [120, 1, 1, 7, None]]),     # lowest / highest octave (short last slice)
    ("score", [[59, 1, 1, None, None], [71, 0, 2, None, None], [60, 0, 1, None, None]]),
]


def gen_pc_core():
    for fam, notes in CORE + PC_EXTRA:
        for div_i in range(3):
            yield dict(kind="pc", fam=fam, notes=notes, optset="pc-full", fix=dict(div_i=div_i))


def gen_pc_pairs(pitches, onsets, durs, vels):
    k = 0
    for p1, p2 in itertools.product(pitches, repeat=2):
        for o1, o2 in itertools.product(onsets, repeat=2):
            for d1, d2 in itertools.product(durs, repeat=2):
                for v1, v2 in vels:
                    fam = ("perf", "score")[k % 2]
                    k += 1
                    yield dict(kind="pc", fam=fam, optset="pc-pairs2", notes=[[p1, o1, d1, v1, None], [p2, o2, d2, v2, None]])


def gen_inverse(R, n_max, rows, values, max_runs, divs, containers):
    """every roll of R rows and n <= n_max columns whose non-zero cells form <= max_runs non-touching
    runs on the given rows with the given values."""
    for n in range(0, n_max + 1):
        singles = [(r, s, l, v) for r in rows for s in range(n) for l in range(1, n - s + 1) for v in values]
        for k in range(0, max_runs + 1):
            for combo in itertools.combinations(singles, k):
                ok = True
                for i in range(k):
                    for j in range(i + 1, k):
                        a, b = combo[i], combo[j]
                        if a[0] == b[0] and not (a[1] + a[2] < b[1] or b[1] + b[2] < a[1]):
                            ok = False
                            break
                    if not ok:
                        break
                if ok:
                    yield dict(kind="inv", rows=R, n=n, runs=[list(x) for x in combo], divs=divs, containers=containers)


def gen_inverse_cells(R, n_max, rows, values, divs, containers):
    """every roll of R rows and n <= n_max columns in which each cell of the given rows holds 0 or one of the values
    (all other rows empty): equal-valued, different-valued touching, separated runs in every arrangement."""
    alpha = (0,) + tuple(values)
    for n in range(0, n_max + 1):
        for cells in itertools.product(alpha, repeat=len(rows) * n):
            yield dict(kind="inv", rows=R, n=n, cells=[[r, list(cells[i * n:(i + 1) * n])] for i, r in enumerate(rows)],
                       divs=divs, containers=containers)


def _block(gen, B, b):
    def it():
        for c in gen():
            if block_of(c, B) == b:
                yield c
    return it


INV_DIVS = [[1, "sec"], [2, "beat"], [8, "div"], [3, "quarter"]]
INV_CONT = ["ndarray", "csc", "csr"]
INV_TXT = ("decoded with (time_div, unit) in {(1,sec),(2,beat),(8,div),(3,quarter)} from an ndarray, and with (1,sec) also "
           "from csc and csr matrices")


def spaces(tier, seed):
    if not (_covers_all_pairs(COV_ROLL, ROLL_DOMS) and _covers_all_pairs(COV_PC, PC_DOMS)):
        raise AssertionError("covering arrays do not cover all pairs")
    quick = tier == "quick"
    sp = []
    sp.append(Space("core-arrays-full-options", gen_core_full, True,
                    "%d hand-picked arrays (collision, unsorted, zero duration, drums, pickup, out of piano range, touching, "
                    "extreme rows) x FULL product time_div{1,2,4} x onset_only x note_separation x (pitch_margin,piano_range)"
                    "{(-1,F),(0,F),(2,F),(-1,T)} x time_margin{0,1} x remove_silence x end_time{None,last,last+1} x binary x "
                    "return_idxs (x remove_drums where a channel column exists)" % len(CORE)))
    sp.append(Space("units-and-resolution", gen_units, True,
                    "5 arrays x 5 column families (beat+quarter+div, quarter+div, div, sec+tick, tick) x time_unit{auto + every "
                    "unit present} x time_div{auto,1,2,4} x remove_silence x time_margin(+end_time, as int when integral) x "
                    "remove_drums{default,T,F}; columns of the units not selected hold different numbers"))
    P4 = (21, 60, 61, 108)
    if quick:
        sp.append(Space("two-row-arrays",
                        lambda: gen_pairs(P4, (0, 1, 2), (0, 1, 2), VEL2_CORE, [(None, None)], ("perf", "score")), True,
                        "ALL ordered 2-row arrays: pitch{21,60,61,108}^2 x onset{0,1,2}^2 x duration{0,1,2}^2 grid steps x velocity"
                        "{absent,(1,64),(64,1),(64,127),(127,64),(127,127)}; 15 option rows each (pairwise covering array over the 9 "
                        "option dimensions)"))
        B2 = 8
        in_core = lambda notes: (all(n[1] in (0, 1, 2) for n in notes) and (notes[0][3], notes[1][3]) in VEL2_CORE)
        sp.append(Space("two-row-arrays-block",
                        _block(lambda: gen_pairs(P4, (0, 1, 2, 4), (0, 1, 2), VEL2, [(None, None)], ("perf", "score"), skip=in_core),
                               B2, seed % B2), True,
                        "block %d of %d (sha1 of the case) of the rest of the thorough 2-row scope (onset{0,1,2,4}, velocity absent or "
                        "{1,64,127}^2); 15 option rows each" % (seed % B2, B2)))
        sp.append(Space("two-row-arrays-channels",
                        lambda: gen_pairs((60, 61), (0, 2), (0, 1), [(None, None), (64, 127), (127, 64)],
                                          [(0, 0), (0, 9), (9, 0)], ("perf", "score")), True,
                        "ALL ordered 2-row arrays pitch{60,61}^2 x onset{0,2}^2 x duration{0,1}^2 x velocity{absent,(64,127),(127,64)} x "
                        "channel{(0,0),(0,9),(9,0)}; 15 option rows each"))
        sp.append(Space("three-row-arrays-core",
                        lambda: gen_triples((60,), (0, 1), (1, 2), True, ("perf",), "roll-pairs2"), True,
                        "ALL ordered 3-row arrays over pitch{60} x onset{0,1} x duration{1,2} (every row permutation, every velocity "
                        "assignment of (1,64,127)/(64,127,127) or none; all collide); 30 option rows each (covering array + mirror)"))
        B3 = 8
        sp.append(Space("three-row-arrays-block",
                        _block(lambda: gen_triples((60, 61), (0, 1, 2), (0, 1, 2), True, ("perf", "score")), B3, seed % B3), True,
                        "block %d of %d (sha1 of the case) of ALL ordered 3-row arrays over pitch{60,61} x onset{0,1,2} x duration{0,1,2}, "
                        "velocities absent or every assignment of (1,64,127)/(64,127,127) to the rows; 15 option rows each" % (seed % B3, B3)))
    else:
        sp.append(Space("two-row-arrays",
                        lambda: gen_pairs(P4, (0, 1, 2, 4), (0, 1, 2), VEL2, [(None, None)], ("perf", "score"), "roll-pairs2"), True,
                        "ALL ordered 2-row arrays: pitch{21,60,61,108}^2 x onset{0,1,2,4}^2 x duration{0,1,2}^2 x velocity{absent, "
                        "{1,64,127}^2}; 30 option rows each (pairwise covering array + mirror)"))
        sp.append(Space("two-row-arrays-channels",
                        lambda: gen_pairs((60, 61), (0, 1, 2), (0, 1, 2), [(None, None), (64, 127), (127, 64)],
                                          [(0, 0), (0, 9), (9, 0), (1, 9)], ("perf", "score", "perf-t"), "roll-pairs2"), True,
                        "ALL ordered 2-row arrays pitch{60,61}^2 x onset{0,1,2}^2 x duration{0,1,2}^2 x 3 velocity patterns x 4 channel "
                        "patterns; 30 option rows each"))
        sp.append(Space("three-row-arrays",
                        lambda: gen_triples((60, 61), (0, 1, 2), (0, 1, 2), True, ("perf", "score"), "roll-pairs"), True,
                        "ALL ordered 3-row arrays over pitch{60,61} x onset{0,1,2} x duration{0,1,2}, velocities absent or every "
                        "assignment of (1,64,127)/(64,127,127); 15 option rows each (pairwise covering array)"))
        sp.append(Space("three-row-arrays-core",
                        lambda: gen_triples((60,), (0, 1), (1, 2), True, ("perf",), "roll-pairs2"), True,
                        "ALL ordered 3-row arrays over pitch{60} x onset{0,1} x duration{1,2}; 30 option rows each (covering array + mirror)"))
        sp.append(Space("three-row-arrays-wide",
                        lambda: gen_triples((21, 60, 108), (0, 2, 3), (1, 3), False, ("score", "perf"), "roll-pairs2"), True,
                        "ALL ordered 3-row arrays over pitch{21,60,108} x onset{0,2,3} x duration{1,3}, no velocities; 30 option rows"))
    sp.append(Space("off-grid", gen_offgrid, True,
                    "ALL ordered 2-row arrays pitch{(60,60),(60,61)} x onset{5/16,27/16,35/16,-3/16}^2 x duration{3/16,11/16,21/16,2}^2 x "
                    "velocity{absent,(64,127),(127,64)} in float units (beat, quarter, sec, auto) x time_div{1,2,4} x onset_only x "
                    "note_separation x time_margin(+pitch_margin 2) x remove_silence; combinations with a rounding tie or two "
                    "readings of the end frame are left out (counted in option_combinations_skipped_as_ambiguous)"))
    off3_txt = ("ALL ordered 3-row arrays (every row order) with onsets in {%s}/32 of the time unit - not on the frame grid of "
                "any resolution, two or three notes starting inside one frame in either row order, the earliest note listed "
                "first, second or last, a pickup - x durations %s time units x pitch{(60,61,62),(60,60,60)}, in float units "
                "(beat, quarter, sec, auto; cycled) with velocities (64,127,1)/(127,1,64)/absent (cycled), x time_div{1,2,4} x "
                "remove_silence x %s; the start of the roll is the earliest onset whatever its row; combinations with a "
                "rounding tie are left out (counted in option_combinations_skipped_as_ambiguous)")
    if quick:
        sp.append(Space("off-grid-three-row", lambda: gen_offgrid3(OFF3_ONSETS_Q, OFF3_DURS_Q, "roll-offgrid3-cycled"), True,
                        off3_txt % (",".join(map(str, OFF3_ONSETS_Q)), "{(1,1,1),(2,1,1),(1,1,2)}",
                                    "one of (plain, note_separation, onset_only) per combination, cycled so that every "
                                    "(time_div, remove_silence, mode) triple occurs")))
    else:
        sp.append(Space("off-grid-three-row", lambda: gen_offgrid3(OFF3_ONSETS_T, OFF3_DURS_T, "roll-offgrid3"), True,
                        off3_txt % (",".join(map(str, OFF3_ONSETS_T)), "{1,2}^3", "{plain, note_separation, onset_only}")))
    sp.append(Space("pitch-class-core-full-options", gen_pc_core, True,
                    "%d arrays x FULL product time_div{1,2,4} x normalize x onset_only x note_separation x time_margin x return_idxs x "
                    "remove_silence x end_time{None,last,last+1} x binary" % (len(CORE) + len(PC_EXTRA))))
    if quick:
        sp.append(Space("pitch-class-two-row",
                        lambda: gen_pc_pairs((59, 60, 72, 127), (0, 1), (0, 2), [(None, None), (64, 127), (127, 64)]), True,
                        "ALL ordered 2-row arrays pitch{59,60,72,127}^2 x onset{0,1}^2 x duration{0,2}^2 x 3 velocity patterns; 20 option "
                        "rows each (pairwise covering array over the 9 option dimensions + mirror)"))
        sp.append(Space("inverse-rolls",
                        lambda: itertools.chain(gen_inverse(128, 4, (0, 60, 127), (1, 127), 3, INV_DIVS, INV_CONT),
                                                gen_inverse(88, 4, (0, 87), (1, 64), 3, INV_DIVS, INV_CONT)), True,
                        "ALL integer rolls 128 x n (rows 0,60,127; values 1,127) and 88 x n (rows 0,87; values 1,64), n <= 4, at most 3 "
                        "non-touching runs; " + INV_TXT))
        BI = 8
        sp.append(Space("inverse-rolls-all-cells",
                        lambda: itertools.chain(
                            gen_inverse_cells(128, 4, (60, 127), (1, 127), INV_DIVS, INV_CONT),
                            gen_inverse_cells(88, 4, (0, 87), (40, 90), INV_DIVS, INV_CONT),
                            _block(lambda: gen_inverse_cells(128, 3, (0, 60, 61), (64, 127), INV_DIVS, INV_CONT), BI, seed % BI)()), True,
                        "ALL integer rolls 128 x n with every cell of rows 60,127 in {0,1,127} and 88 x n with every cell of rows 0,87 "
                        "in {0,40,90}, n <= 4 (every arrangement of equal-valued, different-valued touching and separated runs, incl. a "
                        "row changing its value while the other row is held / silent / changes too), plus block %d of %d (sha1 of "
                        "the case) of ALL 128 x n rolls with every cell of rows 0,60,61 in {0,64,127}, n <= 3; rolls of non-touching "
                        "runs must decode into exactly their runs, rolls with a value change between adjacent frames into notes "
                        "that show the roll again; " % (seed % BI, BI) + INV_TXT))
    else:
        sp.append(Space("pitch-class-two-row",
                        lambda: gen_pc_pairs((0, 59, 60, 72, 127), (0, 1, 2), (0, 1, 2), [(None, None), (64, 127), (127, 64), (1, 1)]), True,
                        "ALL ordered 2-row arrays pitch{0,59,60,72,127}^2 x onset{0,1,2}^2 x duration{0,1,2}^2 x 4 velocity patterns; 20 "
                        "option rows each"))
        sp.append(Space("inverse-rolls",
                        lambda: itertools.chain(gen_inverse(128, 5, (0, 60, 127), (1, 127), 3, INV_DIVS, INV_CONT),
                                                gen_inverse(88, 5, (0, 39, 87), (1, 64), 3, INV_DIVS, INV_CONT)), True,
                        "ALL integer rolls 128 x n (rows 0,60,127; values 1,127) and 88 x n (rows 0,39,87; values 1,64), n <= 5, at most 3 "
                        "non-touching runs; " + INV_TXT))
        sp.append(Space("inverse-rolls-all-cells",
                        lambda: itertools.chain(
                            gen_inverse_cells(128, 5, (60, 127), (1, 127), INV_DIVS, INV_CONT),
                            gen_inverse_cells(88, 5, (0, 87), (40, 90), INV_DIVS, INV_CONT),
                            gen_inverse_cells(128, 3, (0, 60, 61), (64, 127), INV_DIVS, INV_CONT),
                            gen_inverse_cells(88, 3, (0, 39, 87), (1, 64), INV_DIVS, INV_CONT)), True,
                        "ALL integer rolls 128 x n with every cell of rows 60,127 in {0,1,127} and 88 x n with every cell of rows 0,87 "
                        "in {0,40,90}, n <= 5, and ALL 128 x n rolls with every cell of rows 0,60,61 in {0,64,127} and 88 x n rolls "
                        "with every cell of rows 0,39,87 in {0,1,64}, n <= 3; rolls of non-touching runs must decode into exactly "
                        "their runs, rolls with a value change between adjacent frames into notes that show the roll again; " + INV_TXT))
    return sp


TRIGGERS = {}

if __name__ == "__main__":
    import checks.c13 as _m

    run_check(_m)
