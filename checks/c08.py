"""C08 - alignment -> match file -> load returns the same alignment, performance and score.

Bounded-exhaustive enumeration of (score, performance, alignment, clock, pedal stream, options),
each pushed through the real save_match -> load_match(create_score=True) and compared with exact
reference values computed from the case description (DESIGN section 4, C08).
"""
import copy
import itertools
import os
import shutil
import tempfile
from collections import Counter
from fractions import Fraction as F

from mc.core import CaseResult, Space, run_check, guarded, block_of, innermost_partitura_frame, exc_text
from mc import c08_model as M
from mc.ir import midi_pitch

PID = "C08"
RULE = (
    "every case = one (score, performance, alignment, ppq/mpq, pedal stream, option) tuple enumerated from the "
    "named sub-space; non-trivial = the written file holds at least one note line and the load returned"
)
ASSUMPTIONS = [
    "alignments are total: every score note (tie-chain head) is a match or a deletion, every performed note a "
    "match, an insertion or an ornament (the format has no line for an unmentioned note)",
    "performed-note ids are normalised as documented by format_pnote_id (an 'n' is prefixed unless present)",
    "with assume_unfolded=False score ids may come back either unchanged or all with the '-1' suffix that "
    "unfold_part_alignment documents",
    "the ornament type may come back as the string or as a one-element list",
    "score positions are compared relative to the first written score note; measure numbers, clefs, the padding "
    "rest and ids of notes created by splitting at barlines are not compared",
    "alter None == 0, key mode None == 'major'; the order of simultaneous events of different pedals is not compared; several "
    "events of ONE pedal (sustain or soft) on one tick come back in the order of the saved stream (the pedal state after that "
    "time point is the last value), demanded where the saved list order agrees with the exact times (clause performance-pedal-order)",
    "sound_off (pedal semantics, C14), channel and track are not part of the statement and are not compared",
    "signature lines of the written file are required to carry the position (beat 1, offset 0, time in beats) of the "
    "bar start where the signature is written and the measure number used by the note lines of that bar",
    "the times in seconds of a performed part are the reference: tick counts stored in its notes (parts read from MIDI or "
    "match files) and the clock the part declares do not change what is saved; loaded ticks = saved seconds in the requested "
    "ppq/mpq (space resave)",
    "a parsed MatchFile may be queried any number of times; with first_note_at_zero the note times are the saved ones minus "
    "the earliest onset (ticks and seconds), pedal times are left open there (space reuse)",
    "generator preconditions: >= 1 match per alignment, and >= 1 matched score note that has a duration (the writer orders "
    "the lines by a performance-to-score time map, which has no point when nothing or only grace notes are matched: "
    "space graces); a time signature at the start; signature changes at barlines of "
    "bars that hold a note; pickups begin with a note; voices and staves given; ids without '-1'; performed notes of "
    "equal pitch do not overlap; no textually identical pedal events",
]
CHUNK = 20

_TMP = None


def _tmpdir():
    global _TMP
    if _TMP is None or not os.path.isdir(_TMP):
        _TMP = tempfile.mkdtemp(prefix="c08-")
        # pool workers leave through os._exit (no atexit): multiprocessing's finalizers run in workers and in the
        # main process alike
        from multiprocessing.util import Finalize

        Finalize(None, shutil.rmtree, args=(_TMP, True), exitpriority=10)
    return _TMP


# ---------------------------------------------------------------------------------------------
# pipeline under test


def run_pipeline(case, path):
    """save with the real writer; returns number of implementation operations"""
    import partitura.score as S
    from partitura.performance import Performance
    from partitura.io.exportmatch import save_match, matchfile_from_alignment

    sc = case["score"]
    part = M.build_score_part(sc)
    al = M.alignment_dicts(case)
    opts = case.get("opts", {})
    via = opts.get("via", "built")
    extra_ops = 0
    if via == "built":
        ppart = M.build_performed_part(case)
    else:
        # the performed part comes out of a real loader (which stores the tick counts of its source in the notes):
        # the plain part is first written with the source clock and read back
        ppq_s, mpq_s = case["perf"]["src"][:2]
        first = dict(case, perf=dict(case["perf"], decl=[ppq_s, mpq_s]))
        plain = M.build_performed_part(first, plain=True)
        if via == "match":
            from partitura.io.importmatch import load_match

            save_match(al, plain, part, out=path + ".a", mpq=mpq_s, ppq=ppq_s, assume_unfolded=True)
            try:
                ppart = load_match(path + ".a")[0][0]
            finally:
                os.remove(path + ".a")
        elif via == "midi":
            from partitura.io.exportmidi import save_performance_midi
            from partitura.io.importmidi import load_performance_midi

            # the MIDI leg only prepares the input (MIDI input/output is not the subject of C08): if it fails or
            # does not hand back the described notes under the same ids, the case is reported as unusable
            try:
                save_performance_midi(plain, path + ".mid", mpq=mpq_s, ppq=ppq_s)
                ppart = load_performance_midi(path + ".mid")[0]
            except Exception:
                return -1
            finally:
                if os.path.exists(path + ".mid"):
                    os.remove(path + ".mid")
            want = sorted((n[0], n[1], M.src_tick(n[2], ppq_s, mpq_s), M.src_tick(n[3], ppq_s, mpq_s), n[4])
                          for n in case["perf"]["notes"])
            got = sorted((n["id"], int(n["midi_pitch"]), n.get("note_on_tick"), n.get("note_off_tick"), int(n["velocity"]))
                         for n in ppart.notes)
            if want != got:
                return -1
        else:
            raise ValueError(via)
        extra_ops = 2
    unfolded = opts.get("unfolded", True)
    api = opts.get("api", "part")
    kw = dict(mpq=case["mpq"], ppq=case["ppq"])
    if opts.get("defaults"):
        kw = {}
    if api == "part":
        save_match(al, ppart, part, out=path, assume_unfolded=unfolded, **kw)
    elif api == "score":
        save_match(al, Performance(ppart, id="perf"), S.Score([part], id="score"), out=path,
                   assume_unfolded=unfolded, performer="A B", piece="piece x", composer="C", **kw)
    elif api == "matchfile":
        mf = save_match(al, [ppart], [part], out=None, assume_unfolded=unfolded, **kw)
        mf.write(path)
    else:
        raise ValueError(api)
    return extra_ops


def q_of(part, t):
    """quarter position of timeline time t of a loaded part (exact, from its divisions table)"""
    from mc.ir import quarters_between

    divs = [[int(a), int(b)] for a, b in zip(part._quarter_times, part._quarter_durations)]
    return quarters_between(divs, 0, int(t))


def observe_part(part):
    import partitura.score as S

    notes = {}
    dup = []
    heads = []
    for n in part.iter_all(S.Note, include_subclasses=True):
        if n.tie_prev is not None:
            continue
        heads.append(n)
    for n in heads:
        end = n
        seen = 0
        while end.tie_next is not None and seen < 100:
            end = end.tie_next
            seen += 1
        d = dict(on=q_of(part, n.start.t), dur=q_of(part, end.end.t) - q_of(part, n.start.t),
                 step=n.step, alter=n.alter or 0, oct=n.octave, voice=n.voice, staff=n.staff,
                 art=sorted(a for a in (n.articulations or []) if a in M.SUPPORTED_ART),
                 grace=isinstance(n, S.GraceNote))
        if n.id in notes:
            dup.append(n.id)
        notes[n.id] = d
    measures = sorted((q_of(part, m.start.t), q_of(part, m.end.t) if m.end is not None else F(-1))
                      for m in part.iter_all(S.Measure))
    tss = [(q_of(part, t.start.t), int(t.beats), int(t.beat_type)) for t in part.iter_all(S.TimeSignature)]
    kss = [(q_of(part, k.start.t), int(k.fifths), k.mode or "major") for k in part.iter_all(S.KeySignature)]
    return notes, dup, measures, tss, kss


def dedupe(seq):
    out = []
    for x in seq:
        if not out or out[-1][1:] != x[1:]:
            out.append(x)
    return out


# ---------------------------------------------------------------------------------------------
# oracle


def eval_case(case):
    if case.get("kind") == "text":
        return eval_text_case(case)
    if case.get("kind") == "fixture":
        return eval_fixture(case)
    if case.get("kind") == "reuse":
        return eval_reuse(case)
    import warnings

    warnings.filterwarnings("ignore")
    from partitura.io.importmatch import load_match

    res = CaseResult(states=1, transitions=0, traces=1)
    res.nontrivial = False
    sc = case["score"]
    ppq, mpq = case["ppq"], case["mpq"]
    opts = case.get("opts", {})
    path = os.path.join(_tmpdir(), "c%d.match" % os.getpid())
    try:
        ok, extra_ops = guarded(res, "write-total", run_pipeline, case, path)
        res.transitions += 1 + abs(extra_ops or 0)
        if ok and extra_ops == -1:
            res.outcome = "midi-source-unusable"
            return res
        if not ok:
            res.outcome = "write-exception"
            return res
        with open(path) as f:
            text = f.read()
        ok, loaded = guarded(res, "load-total", load_match, path, create_score=True)
        res.transitions += 1
        if not ok:
            res.outcome = "load-exception"
            return res
        ok2, loaded2 = guarded(res, "load-total", load_match, path)
        res.transitions += 1
    finally:
        if os.path.exists(path):
            os.remove(path)
    perf, al, score = loaded
    eff_ppq = 480 if opts.get("defaults") else ppq
    eff_mpq = 500000 if opts.get("defaults") else mpq
    align = case["align"]

    # -- the file: one note line per alignment entry ------------------------------------------
    lines, n_sus, n_soft = M.classify_lines(text)
    exp_kinds = Counter(a[0] for a in align)
    if Counter(k for k, _, _ in lines) != exp_kinds:
        res.fail("file-note-lines", expected=dict(exp_kinds), observed=dict(Counter(k for k, _, _ in lines)),
                 where="exportmatch.matchfile_from_alignment", detail="one line per alignment entry")
    ctrl = case["perf"].get("ctrl", [])
    if (n_sus, n_soft) != (sum(1 for c in ctrl if c[0] == 64), sum(1 for c in ctrl if c[0] == 67)):
        res.fail("file-pedal-lines", expected=[sum(1 for c in ctrl if c[0] == 64), sum(1 for c in ctrl if c[0] == 67)],
                 observed=[n_sus, n_soft], where="exportmatch.matchfile_from_alignment")
    res.nontrivial = len(lines) > 0
    # signature lines: one per signature object, positioned (measure:beat, offset, time in beats) at the start of the
    # bar where the signature is written; the measure number is the one the note lines of that bar use
    props, snote_measure = M.scoreprop_lines(text)
    bt_ = M.bar_table(sc)
    for attr, key in (("timeSignature", "ts"), ("keySignature", "ks")):
        exp_pos = []
        for bi, (b, raw) in enumerate(zip(bt_, sc["bars"])):
            if raw.get(key) is None:
                continue
            ms = {snote_measure[n["id"]] for n in sc["notes"] if b["start"] <= n["s"] < b["end"] and n["id"] in snote_measure}
            exp_pos.append((sorted(ms)[0] if len(ms) == 1 else None, M.beat_of(sc, b["start"])))
        got_pos = [(p[2], p[3], p[4], p[5]) for p in props if p[0] == attr]
        okp = len(got_pos) == len(exp_pos)
        if okp:
            for (em, eb), (gm, gb, go, gt) in zip(exp_pos, sorted(got_pos, key=lambda x: x[3])):
                if (em is not None and gm != em) or gb != 1 or go not in ("0", "0/1") or abs(gt - float(eb)) > 1.01e-4:
                    okp = False
        if not okp:
            res.fail("file-signature-lines", expected=[(a, 1, "0", float(b)) for a, b in exp_pos], observed=sorted(got_pos, key=lambda x: x[3]),
                     where="exportmatch.matchfile_from_alignment",
                     detail="%s lines as (measure, beat, offset, time in beats); measure None = bar without a note line" % attr)

    # -- alignment --------------------------------------------------------------------------------
    def norm_type(t):
        if t is None:
            return None
        return tuple(t) if isinstance(t, (list, tuple)) else (t,)

    got_al = Counter((d.get("label"), d.get("score_id"), d.get("performance_id"), norm_type(d.get("type")))
                     for d in al)
    suffixes = [""] if opts.get("unfolded", True) else ["", "-1"]
    sfx = None
    for s in suffixes:
        exp_al = Counter((lab, None if sid is None else sid + s, None if pid is None else M.expected_pid(pid),
                          norm_type(typ)) for lab, sid, pid, typ in align)
        if exp_al == got_al:
            sfx = s
            break
    if sfx is None:
        exp_al = Counter((lab, sid, None if pid is None else M.expected_pid(pid), norm_type(typ))
                         for lab, sid, pid, typ in align)
        miss = sorted((exp_al - got_al).elements(), key=repr)
        extra = sorted((got_al - exp_al).elements(), key=repr)
        res.fail("alignment-equal", expected=miss[:6], observed=extra[:6], where="load_match alignment",
                 detail="expected-but-missing vs unexpected entries (n=%d vs %d)" % (sum(exp_al.values()), len(al)))
        # continue with the most plausible suffix for the score comparison
        ids_loaded = {d.get("score_id") for d in al}
        sfx = "-1" if any(i and i.endswith("-1") for i in ids_loaded if i) and not opts.get("unfolded", True) else ""
    if ok2 and loaded2 is not None:
        al2 = loaded2[1]
        if [sorted(d.items(), key=repr) for d in al2] != [sorted(d.items(), key=repr) for d in al]:
            res.fail("alignment-independent-of-create_score", expected=len(al), observed=len(al2),
                     where="load_match alignment")

    # -- performance ------------------------------------------------------------------------------
    pp = perf[0] if len(perf.performedparts) == 1 else None
    if pp is None:
        res.fail("performance-one-part", expected=1, observed=len(perf.performedparts), where="load_match performance")
        res.outcome = "bad-performance"
        return res
    if (pp.ppq, pp.mpq) != (eff_ppq, eff_mpq):
        res.fail("performance-clock", expected=[eff_ppq, eff_mpq], observed=[pp.ppq, pp.mpq],
                 where="importmatch.performed_part_from_match", detail="clock units (ppq) and rate (mpq)")
    got_notes = {}
    for n in pp.notes:
        got_notes.setdefault(n["id"], []).append(n)
    exp_ids = [M.expected_pid(p[0]) for p in case["perf"]["notes"]]
    if sorted(got_notes) != sorted(exp_ids) or any(len(v) != 1 for v in got_notes.values()):
        res.fail("performance-notes-present", expected=sorted(exp_ids),
                 observed=sorted(n["id"] for n in pp.notes), where="load_match performance",
                 detail="every performed note exactly once")
    for nid, pitch, on, off, vel in case["perf"]["notes"]:
        g = got_notes.get(M.expected_pid(nid))
        if not g:
            continue
        g = g[0]
        bad = []
        if int(g["midi_pitch"]) != pitch or int(g["pitch"]) != pitch:
            bad.append(("pitch", pitch, [g["midi_pitch"], g["pitch"]]))
        if int(g["velocity"]) != vel:
            bad.append(("velocity", vel, g["velocity"]))
        for key_t, key_s, x in (("note_on_tick", "note_on", on), ("note_off_tick", "note_off", off)):
            cands = M.tick_candidates(x, eff_ppq, eff_mpq)
            gt = g[key_t]
            if gt is None or int(gt) != gt or int(gt) not in cands:
                bad.append((key_t, sorted(cands), gt))
                continue
            es = F(eff_mpq * int(gt), 10 ** 6 * eff_ppq)
            if abs(float(g[key_s]) - float(es)) > 1e-9 * max(1.0, abs(float(es))):
                bad.append((key_s, float(es), g[key_s]))
        if bad:
            res.fail("performance-note-equal", expected=[(b[0], b[1]) for b in bad], observed=[(b[0], b[2]) for b in bad],
                     where="load_match performance", detail="note %s" % nid)
            break
    exp_ctrl = Counter()
    for num, t, val in ctrl:
        if num in (64, 67):
            exp_ctrl[(num, tuple(sorted(M.tick_candidates(t, eff_ppq, eff_mpq))), val)] += 1
    got_ctrl = Counter()
    bad_ctrl = False
    for c in pp.controls:
        tk = F(c["time"]).limit_denominator(10 ** 9) * 10 ** 6 * eff_ppq / eff_mpq
        tk_i = int(round(float(tk)))
        if abs(float(tk) - tk_i) > 1e-6:
            bad_ctrl = True
        hit = None
        for (num, cands, val) in exp_ctrl:
            if num == c["number"] and val == c["value"] and tk_i in cands:
                hit = (num, cands, val)
        got_ctrl[hit if hit is not None else (c["number"], (tk_i,), c["value"])] += 1
    if got_ctrl != exp_ctrl or bad_ctrl:
        res.fail("performance-pedal-equal", expected=sorted((k[0], list(k[1]), k[2], v) for k, v in exp_ctrl.items()),
                 observed=[(c["number"], c["time"], c["value"]) for c in pp.controls],
                 where="load_match performance", detail="sustain (64) and soft (67) events as (number, tick, value)")
    else:
        # several events of ONE pedal at one tick: the order of their values is part of the stream (the state of the
        # pedal after that time point is the last value). Demanded only where the case description fixes it: all
        # events of that pedal that can land on the tick have exactly this tick, and their order in the saved list
        # does not contradict their exact times
        for num in (64, 67):
            evs = [(tuple(sorted(M.tick_candidates(t, eff_ppq, eff_mpq))), M.sec_of(t, eff_ppq, eff_mpq), val)
                   for n_, t, val in ctrl if n_ == num]
            got_seq = [(int(round(float(F(c["time"]).limit_denominator(10 ** 9) * 10 ** 6 * eff_ppq / eff_mpq))), c["value"])
                       for c in pp.controls if c["number"] == num]
            for T in sorted({cd[0] for cd, _, _ in evs if len(cd) == 1}):
                grp = [(s_, v) for cd, s_, v in evs if cd == (T,)]
                if len(grp) < 2 or any(T in cd and cd != (T,) for cd, _, _ in evs):
                    continue
                if any(a[0] > b[0] for a, b in zip(grp, grp[1:])):
                    continue
                exp_vals = [v for _, v in grp]
                got_vals = [v for tk_, v in got_seq if tk_ == T]
                if got_vals != exp_vals:
                    res.fail("performance-pedal-order", expected=exp_vals, observed=got_vals, where="load_match performance",
                             detail="values of the events of pedal %d at tick %d, in the order of the stream" % (num, T))
                    break

    # -- score ------------------------------------------------------------------------------------
    if len(score.parts) != 1:
        res.fail("score-one-part", expected=1, observed=len(score.parts), where="load_match score")
        res.outcome = "bad-score"
        return res
    part = score.parts[0]
    ok, obs = guarded(res, "score-observe", observe_part, part)
    if not ok:
        res.outcome = "bad-score"
        return res
    notes, dup, measures, tss, kss = obs
    D = sc["divs"]
    written = {a[1] for a in align if a[0] in ("match", "deletion")}
    ch = [(h, tot) for h, tot, _ in M.chains(sc) if h["id"] in written]
    s0 = min(h["s"] for h, _ in ch)
    got_heads = {k: v for k, v in notes.items()}
    exp_ids = sorted(h["id"] + sfx for h, _ in ch)
    # ids created by splitting at barlines belong to continuation notes (not heads), so heads == written ids
    if sorted(got_heads) != exp_ids or dup:
        res.fail("score-note-ids", expected=exp_ids, observed=sorted(got_heads) + (["dup:%s" % d for d in dup]),
                 where="importmatch.part_from_matchfile", detail="ids of score notes (tie-chain heads)")
    if got_heads:
        l0 = min(v["on"] for v in got_heads.values())
        for h, tot in ch:
            g = got_heads.get(h["id"] + sfx)
            if g is None:
                continue
            e = dict(on=F(h["s"] - s0, D), dur=F(tot, D), step=h["step"], alter=h.get("alter") or 0, oct=h["oct"],
                     voice=h.get("voice"), staff=h.get("staff"),
                     art=sorted(a for a in (h.get("art") or []) if a in M.SUPPORTED_ART))
            o = dict(g)
            o["on"] = g["on"] - l0
            o.pop("grace")
            for grp, keys in (("score-note-time", ("on", "dur")), ("score-note-spelling", ("step", "alter", "oct")),
                              ("score-note-voice-staff", ("voice", "staff")), ("score-note-articulations", ("art",))):
                if any(e[k] != o[k] for k in keys):
                    res.fail(grp, expected={k: e[k] for k in keys}, observed={k: o[k] for k in keys},
                             where="importmatch.part_from_matchfile",
                             detail="note %s (quarters relative to the first written note)" % h["id"])
        # beats through the public note array
        ok, na = guarded(res, "score-note-array", part.note_array)
        if ok:
            by = {}
            for r in na:
                by[str(r["id"])] = r
            for h, tot in ch:
                r = by.get(h["id"] + sfx)
                if r is None:
                    res.fail("score-note-beats", expected=h["id"] + sfx, observed=sorted(by), where="Part.note_array",
                             detail="note missing from the note array of the loaded score")
                    break
                eb = M.beat_of(sc, h["s"])
                ed = M.beat_of(sc, h["s"] + tot) - eb
                if abs(float(r["onset_beat"]) - float(eb)) > 1e-5 * max(1, abs(float(eb))) or \
                        abs(float(r["duration_beat"]) - float(ed)) > 1e-5 * max(1, abs(float(ed))):
                    res.fail("score-note-beats", expected=[eb, ed], observed=[float(r["onset_beat"]), float(r["duration_beat"])],
                             where="load_match score", detail="onset/duration in beats of note %s" % h["id"])
                    break
        # measures, signatures (frame: first written note)
        bt = M.bar_table(sc)
        shift = l0 - F(s0, D)  # loaded_q = spec_q + shift
        exp_meas = sorted((F(b["start"], D) + shift, F(b["end"], D) + shift) for b in bt)
        if measures != exp_meas:
            res.fail("score-measures", expected=exp_meas, observed=measures, where="importmatch.part_from_matchfile",
                     detail="measure (start, end) in quarters of the loaded timeline")
        exp_ts = dedupe([(F(b["start"], D) + shift,) + tuple(raw["ts"]) for b, raw in zip(bt, sc["bars"]) if raw.get("ts")])
        if dedupe(sorted(tss)) != exp_ts:
            res.fail("score-time-signatures", expected=exp_ts, observed=sorted(tss), where="importmatch.part_from_matchfile",
                     detail="(position in quarters, beats, beat_type)")
        exp_ks = dedupe([(F(b["start"], D) + shift, raw["ks"][0], raw["ks"][1] or "major")
                         for b, raw in zip(bt, sc["bars"]) if raw.get("ks")])
        if dedupe(sorted(kss)) != exp_ks:
            res.fail("score-key-signatures", expected=exp_ks, observed=sorted(kss), where="importmatch.part_from_matchfile",
                     detail="(position in quarters, fifths, mode)")
    if res.violations:
        res.outcome = "viol:" + ",".join(sorted({v["clause"] for v in res.violations}))
    else:
        res.outcome = "ok lines=%s bars=%d ts=%d ks=%d pedal=%d sfx=%r" % (
            "+".join("%s%d" % (k[0], v) for k, v in sorted(exp_kinds.items())), len(measures), len(tss), len(kss),
            len(pp.controls), sfx)
    return res


def eval_reuse(case):
    """one written file, parsed once; a sequence of queries on the same MatchFile object, each compared with the saved
    data computed from the case description"""
    import warnings

    warnings.filterwarnings("ignore")
    from partitura.io.importmatch import (load_match, load_matchfile, performed_part_from_match, part_from_matchfile,
                                          note_alignment_from_matchfile)

    res = CaseResult(states=1, transitions=0, traces=1)
    res.nontrivial = False
    base = case["base"]
    sc = base["score"]
    ppq, mpq = base["ppq"], base["mpq"]
    align = base["align"]
    ops = case["ops"]
    path = os.path.join(_tmpdir(), "r%d.match" % os.getpid())
    path2 = path + ".w"
    first = min(n[2] for n in base["perf"]["notes"])  # times of this space are integer ticks of the requested clock

    def norm_type(t):
        if t is None:
            return None
        return tuple(t) if isinstance(t, (list, tuple)) else (t,)

    exp_al = Counter((lab, sid, None if pid is None else M.expected_pid(pid), norm_type(typ)) for lab, sid, pid, typ in align)

    def check_alignment(al, op):
        got = Counter((d.get("label"), d.get("score_id"), d.get("performance_id"), norm_type(d.get("type"))) for d in al)
        if got != exp_al:
            res.fail("alignment-equal", expected=sorted((exp_al - got).elements(), key=repr)[:6],
                     observed=sorted((got - exp_al).elements(), key=repr)[:6], where="importmatch.note_alignment_from_matchfile",
                     detail="missing vs unexpected entries after %s" % op)

    def check_perf(pp, zero, op):
        sh = first if zero else 0
        if (pp.ppq, pp.mpq) != (ppq, mpq):
            res.fail("performance-clock", expected=[ppq, mpq], observed=[pp.ppq, pp.mpq],
                     where="importmatch.performed_part_from_match", detail="after %s" % op)
        exp = {}
        for nid, pitch, on, off, vel in base["perf"]["notes"]:
            exp[M.expected_pid(nid)] = (pitch, on - sh, off - sh, vel)
        got = {}
        sec_bad = None
        n_notes = 0
        for n in pp.notes:
            n_notes += 1
            got[n["id"]] = (int(n["midi_pitch"]), n["note_on_tick"], n["note_off_tick"], int(n["velocity"]))
            for kt, ks in (("note_on_tick", "note_on"), ("note_off_tick", "note_off")):
                es = float(F(mpq * int(exp.get(n["id"], (0, n["note_on_tick"], n["note_off_tick"]))[1 if kt == "note_on_tick" else 2]),
                             10 ** 6 * ppq))
                if sec_bad is None and abs(float(n[ks]) - es) > 1e-9 * max(1.0, abs(es)):
                    sec_bad = (n["id"], ks, es, float(n[ks]))
        if got != exp or n_notes != len(exp):
            res.fail("performance-note-equal" if sorted(got) == sorted(exp) and n_notes == len(exp) else "performance-notes-present",
                     expected=sorted(exp.items()), observed=sorted(got.items()), where="importmatch.performed_part_from_match",
                     detail="(pitch, onset tick, offset tick, velocity) per note after %s%s"
                            % (op, " (times shifted by the earliest onset %d)" % first if zero else ""))
        elif sec_bad:
            res.fail("performance-note-equal", expected=sec_bad[2], observed=sec_bad[3], where="importmatch.performed_part_from_match",
                     detail="%s of %s in seconds after %s" % (sec_bad[1], sec_bad[0], op))
        if not zero:
            # first_note_at_zero documents a shift of the note times only: pedal times are left open there
            exp_c = Counter((num, t, v) for num, t, v in base["perf"].get("ctrl", []) if num in (64, 67))
            got_c = Counter()
            for c in pp.controls:
                tk = float(c["time"]) * 10 ** 6 * ppq / mpq
                got_c[(c["number"], int(round(tk)) if abs(tk - round(tk)) < 1e-6 else tk, c["value"])] += 1
            if got_c != exp_c:
                res.fail("performance-pedal-equal", expected=sorted(exp_c.elements()), observed=sorted(got_c.elements(), key=repr),
                         where="importmatch.performed_part_from_match", detail="(number, tick, value) after %s" % op)

    def check_score(part, op):
        ok, obs = guarded(res, "score-observe", observe_part, part)
        if not ok:
            return
        notes = obs[0]
        D = sc["divs"]
        written = {a[1] for a in align if a[0] in ("match", "deletion")}
        ch = [(h, tot) for h, tot, _ in M.chains(sc) if h["id"] in written]
        if sorted(notes) != sorted(h["id"] for h, _ in ch) or obs[1]:
            res.fail("score-note-ids", expected=sorted(h["id"] for h, _ in ch), observed=sorted(notes) + ["dup:%s" % d for d in obs[1]],
                     where="importmatch.part_from_matchfile", detail="after %s" % op)
            return
        s0 = min(h["s"] for h, _ in ch)
        l0 = min(v["on"] for v in notes.values())
        for h, tot in ch:
            g = notes[h["id"]]
            e = (F(h["s"] - s0, D), F(tot, D), h["step"], h.get("alter") or 0, h["oct"], h.get("voice"), h.get("staff"))
            o = (g["on"] - l0, g["dur"], g["step"], g["alter"], g["oct"], g["voice"], g["staff"])
            if e != o:
                res.fail("score-note-time" if e[:2] != o[:2] else "score-note-spelling", expected=e, observed=o,
                         where="importmatch.part_from_matchfile", detail="note %s after %s" % (h["id"], op))
                break

    try:
        ok, _ = guarded(res, "write-total", run_pipeline, base, path)
        res.transitions += 1
        if not ok:
            res.outcome = "write-exception"
            return res
        ok, mf = guarded(res, "load-total", load_matchfile, path)
        res.transitions += 1
        if not ok:
            res.outcome = "load-exception"
            return res
        done = []
        for op in ops:
            done.append(op)
            tag = ">".join(done)
            res.transitions += 1
            if op in ("P0", "P1"):
                ok, pp = guarded(res, "load-total", performed_part_from_match, mf, 64, op == "P1")
                if ok:
                    check_perf(pp, op == "P1", tag)
            elif op == "S":
                ok, part = guarded(res, "load-total", part_from_matchfile, mf)
                if ok:
                    check_score(part, tag)
            elif op == "A":
                ok, al = guarded(res, "load-total", note_alignment_from_matchfile, mf)
                if ok:
                    check_alignment(al, tag)
            elif op == "W":
                ok, _ = guarded(res, "write-total", mf.write, path2)
                if ok:
                    ok, loaded = guarded(res, "load-total", load_match, path2)
                    res.transitions += 1
                    if ok:
                        check_perf(loaded[0][0], False, tag)
                        check_alignment(loaded[1], tag)
            elif op in ("L0", "L1"):
                ok, loaded = guarded(res, "load-total", load_match, path, first_note_at_zero=(op == "L1"))
                if ok:
                    check_perf(loaded[0][0], op == "L1", tag)
                    check_alignment(loaded[1], tag)
            else:
                raise ValueError(op)
            if not ok:
                break
    finally:
        for pth in (path, path2):
            if os.path.exists(pth):
                os.remove(pth)
    res.nontrivial = True
    if res.violations:
        res.outcome = "viol:" + ",".join(sorted({v["clause"] for v in res.violations}))
    else:
        res.outcome = "ok reuse first=%d ops=%s" % (first, "".join(o[0] for o in sorted(set(ops))))
    return res


def eval_text_case(case):
    """a match file written by the independent writer (any dialect, possibly with duplicate ids) is loaded and
    compared with the documented resolution of duplicates and the content description"""
    import warnings

    warnings.filterwarnings("ignore")
    from partitura.io.importmatch import load_match

    res = CaseResult(states=1, transitions=0, traces=1)
    c = case["content"]
    text = M.render_match(c)
    # textually identical lines are one line (documented: duplicate lines are removed)
    seen = set()
    lines = []
    for l in c["lines"]:
        if tuple(l) not in seen:
            seen.add(tuple(l))
            lines.append(l)
    kept = M.documented_resolution(lines)
    with_score = any(l[0] == "match" or l[0] in M.DELETION_KINDS for l in kept)
    path = os.path.join(_tmpdir(), "t%d.match" % os.getpid())
    with open(path, "w") as f:
        f.write(text)
    try:
        ok, loaded = guarded(res, "load-total", load_match, path, create_score=with_score)
        res.transitions += 1
    finally:
        os.remove(path)
    if not ok:
        res.outcome = "load-exception"
        return res
    perf, al = loaded[0], loaded[1]
    v1 = M._vtuple(c["version"]) >= (1, 0, 0)

    def lab(k):
        return "deletion" if k in M.DELETION_KINDS else "insertion" if k in M.INSERTION_KINDS else k

    exp_al = Counter()
    for k, sid, pid, var in kept:
        exp_al[(lab(k), sid, None if pid is None else M.expected_pid(pid), ("trill",) if k == "ornament" else None)] += 1
    got_al = Counter((d.get("label"), d.get("score_id"), d.get("performance_id"),
                      None if d.get("type") is None else (tuple(d["type"]) if isinstance(d["type"], (list, tuple)) else (d["type"],)))
                     for d in al)
    if exp_al != got_al:
        sc_cnt = Counter(l[1] for l in lines if l[1] is not None and l[0] != "ornament")
        pf_cnt = Counter(l[2] for l in lines if l[2] is not None)
        has_dup = any(v > 1 for v in sc_cnt.values()) or any(v > 1 for v in pf_cnt.values())
        res.fail("load-duplicate-ids" if has_dup else "alignment-equal",
                 expected=sorted((exp_al - got_al).elements(), key=repr)[:6], observed=sorted((got_al - exp_al).elements(), key=repr)[:6],
                 where="importmatch.load_matchfile", detail="missing vs unexpected alignment entries; %d note lines, %d kept as documented, %d loaded"
                                                           % (len(lines), len(kept), len(al)))
    pp = perf[0]
    ppq, mpq = c["ppq"], c["mpq"]
    if (pp.ppq, pp.mpq) != (ppq, mpq):
        res.fail("performance-clock", expected=[ppq, mpq], observed=[pp.ppq, pp.mpq], where="importmatch.performed_part_from_match")
    exp_p = Counter()
    for k, sid, pid, var in kept:
        if pid is None:
            continue
        p = c["pnotes"][pid]
        exp_p[(M.expected_pid(pid), midi_pitch(p["step"], p.get("alter"), p["oct"]), p["on"], p["off"], p["vel"] + (1 if var else 0))] += 1
    got_p = Counter()
    sec_bad = None
    for n in pp.notes:
        got_p[(n["id"], int(n["midi_pitch"]), n["note_on_tick"], n["note_off_tick"], int(n["velocity"]))] += 1
        for kt, ks in (("note_on_tick", "note_on"), ("note_off_tick", "note_off")):
            es = float(F(mpq * int(n[kt]), 10 ** 6 * ppq))
            if abs(float(n[ks]) - es) > 1e-9 * max(1.0, es):
                sec_bad = (n["id"], ks, es, n[ks])
    if exp_p != got_p:
        res.fail("performance-notes-present", expected=sorted((exp_p - got_p).elements(), key=repr)[:6],
                 observed=sorted((got_p - exp_p).elements(), key=repr)[:6], where="load_match performance",
                 detail="(id, pitch, on tick, off tick, velocity): missing vs unexpected; one performed note per kept note line")
    if sec_bad:
        res.fail("performance-note-equal", expected=sec_bad[2], observed=sec_bad[3], where="load_match performance",
                 detail="%s of %s in seconds" % (sec_bad[1], sec_bad[0]))
    exp_c = Counter((64 if k == "sustain" else 67, t, v) for k, t, v in c.get("pedal", []))
    got_c = Counter((x["number"], int(round(x["time"] * 10 ** 6 * ppq / mpq)), x["value"]) for x in pp.controls)
    if exp_c != got_c:
        res.fail("performance-pedal-equal", expected=sorted(exp_c.elements()), observed=sorted(got_c.elements()), where="load_match performance")
    if with_score:
        part = loaded[2].parts[0]
        ok, obs = guarded(res, "score-observe", observe_part, part)
        if ok:
            notes, dup, measures, tss, kss = obs
            sids = []
            for k, sid, pid, var in kept:
                if sid is not None and k != "ornament":
                    sids.append(sid)
            # several kept lines for one score id (conflicting matches) each make a note: ids as a multiset
            got_ids = Counter()
            import partitura.score as S
            for n in part.iter_all(S.Note, include_subclasses=True):
                if n.tie_prev is None:
                    got_ids[n.id] += 1
            if got_ids != Counter(sids):
                res.fail("score-note-ids", expected=sorted(Counter(sids).items()), observed=sorted(got_ids.items()),
                         where="importmatch.part_from_matchfile", detail="one score note per kept score-note line")
            elif all(v == 1 for v in got_ids.values()):
                i0 = min(c["snotes"][sid]["i"] for sid in sids)
                l0 = min(v["on"] for v in notes.values())
                for sid in sids:
                    n = c["snotes"][sid]
                    g = notes[sid]
                    e = dict(on=F(n["i"] - i0), dur=F(1), step=n["step"], alter=n.get("alter") or 0, oct=n["oct"], voice=n["voice"], staff=n["staff"])
                    o = dict(g, on=g["on"] - l0)
                    if any(e[k] != o[k] for k in e):
                        res.fail("score-note-equal", expected=e, observed={k: o[k] for k in e}, where="importmatch.part_from_matchfile",
                                 detail="note %s of a %s file" % (sid, c["version"]))
                        break
                shift = l0 - F(i0)
                bar_q = F(c["ts"][0] * 4, c["ts"][1])
                first_bar = shift + (F(i0) // bar_q) * bar_q
                if dedupe(sorted(tss)) != [(first_bar if first_bar > 0 else F(0), c["ts"][0], c["ts"][1])]:
                    res.fail("score-time-signatures", expected=[(first_bar, c["ts"][0], c["ts"][1])], observed=sorted(tss),
                             where="importmatch.part_from_matchfile")
                if dedupe(sorted(kss)) != [(first_bar if first_bar > 0 else F(0), c["ks"][0], c["ks"][1] or "major")]:
                    res.fail("score-key-signatures", expected=[(first_bar, c["ks"][0], c["ks"][1])], observed=sorted(kss),
                             where="importmatch.part_from_matchfile")
    res.nontrivial = len(kept) > 0
    res.outcome = ("ok v=%s kept=%d/%d" % (c["version"], len(kept), len(lines))) if not res.violations else \
        "viol:" + ",".join(sorted({v["clause"] for v in res.violations}))
    return res


def eval_fixture(case):
    """a fixture file: the loaded alignment/performance must hold exactly the note lines of the file, duplicate ids
    resolved as documented (independent line classifier)"""
    import warnings

    warnings.filterwarnings("ignore")
    from partitura.io.importmatch import load_match
    from mc.core import REPO

    res = CaseResult(states=1, transitions=0, traces=1)
    path = os.path.join(REPO, "tests", "data", "match", case["file"])
    with open(path) as f:
        text = f.read()
    ok, loaded = guarded(res, "load-total", load_match, path, create_score=case.get("create_score", False))
    res.transitions += 1
    if not ok:
        res.outcome = "load-exception"
        return res
    perf, al = loaded[0], loaded[1]
    # distinct text lines only
    seen = set()
    uniq = []
    for ln in text.splitlines():
        if ln.strip() and ln not in seen:
            seen.add(ln)
            uniq.append(ln)
    lines, n_sus, n_soft = M.classify_lines("\n".join(uniq))
    raw = [[k, sid, pid, 0] for k, sid, pid in lines if k != "other-snote"]
    kept = M.documented_resolution(raw)
    exp_al = Counter((k, sid, None if pid is None else M.expected_pid(pid)) for k, sid, pid, _ in kept)
    got_al = Counter((d.get("label"), d.get("score_id"), d.get("performance_id")) for d in al)
    if exp_al != got_al:
        res.fail("load-duplicate-ids", expected=sorted((exp_al - got_al).elements(), key=repr)[:8],
                 observed=sorted((got_al - exp_al).elements(), key=repr)[:8], where="importmatch.load_matchfile",
                 detail="%s: %d distinct note lines, %d kept as documented, %d alignment entries" % (case["file"], len(raw), len(kept), len(al)))
    exp_p = Counter(M.expected_pid(pid) for k, sid, pid, _ in kept if pid is not None)
    got_p = Counter(n["id"] for n in perf[0].notes)
    if exp_p != got_p:
        res.fail("performance-notes-present", expected=sorted((exp_p - got_p).elements())[:8], observed=sorted((got_p - exp_p).elements())[:8],
                 where="load_match performance", detail="%s: one performed note per kept note line (%d vs %d)" % (case["file"], sum(exp_p.values()), sum(got_p.values())))
    got_c = Counter(c["number"] for c in perf[0].controls)
    if (got_c.get(64, 0), got_c.get(67, 0)) != (n_sus, n_soft):
        res.fail("performance-pedal-equal", expected=[n_sus, n_soft], observed=[got_c.get(64, 0), got_c.get(67, 0)],
                 where="load_match performance", detail="number of distinct sustain / soft lines")
    if case.get("create_score"):
        part = loaded[2].parts[0]
        import partitura.score as S
        heads = Counter(n.id for n in part.iter_all(S.Note, include_subclasses=True) if n.tie_prev is None)
        exp_h = Counter(sid for k, sid, pid, _ in kept if k in ("match", "deletion"))
        # fixture snote lines with the 'leftOutTied' attribute are continuations (not heads): compare as sets
        if set(heads) - set(exp_h):
            res.fail("score-note-ids", expected="subset of the score ids of the file", observed=sorted(set(heads) - set(exp_h))[:8],
                     where="importmatch.part_from_matchfile")
    res.outcome = "fixture %s al=%d" % (case["file"], len(al))
    return res


# ---------------------------------------------------------------------------------------------
# enumerators

METERS = [(4, 4), (3, 4), (2, 4), (6, 8), (3, 8), (2, 2), (5, 8), (9, 8)]
UNIT = {(4, 4): 2, (3, 4): 1, (2, 4): 1, (6, 8): 1, (3, 8): 1, (2, 2): 2, (5, 8): 1, (9, 8): 3}  # in divs, D=2
D2 = 2
PITCHES = [("C", None, 4), ("D", None, 4), ("E", -1, 4), ("F", 1, 4), ("G", None, 4), ("A", -1, 3), ("B", None, 4),
           ("C", 1, 5), ("D", None, 5), ("E", None, 5), ("F", None, 3), ("G", 1, 3)]


def blen(m, D=D2):
    return m[0] * 4 * D // m[1]


def compositions(n, kmax):
    def rec(rest, k):
        if rest == 0:
            yield []
            return
        if k == 0:
            return
        for a in range(1, rest + 1):
            for tail in rec(rest - a, k - 1):
                yield [a] + tail

    for c in rec(n, kmax):
        yield c


def patterns(m, kmax=3):
    """all labelled compositions of one bar of meter m on its unit grid: list of (start, end) of the notes
    (rests are the gaps); at least one note"""
    u = UNIT[m]
    n = blen(m) // u
    out = []
    for comp in compositions(n, kmax):
        for lab in itertools.product((1, 0), repeat=len(comp)):
            if not any(lab):
                continue
            t = 0
            notes = []
            for a, l in zip(comp, lab):
                if l:
                    notes.append((t * u, (t + a) * u))
                t += a
            out.append(notes)
    return out


def mk_score(bars, note_spans, D=D2, extra_notes=()):
    """bars: [(meter_for_len, ts|None, ks|None, len|None)], note_spans: [(s, e)] absolute; pitches cycle"""
    bl = []
    for b in bars:
        m, ts, ks = b[0], b[1], b[2]
        ln = b[3] if len(b) > 3 and b[3] is not None else blen(m, D)
        bl.append(dict(len=ln, ts=list(ts) if ts else None, ks=list(ks) if ks else None))
    notes = []
    for i, (s, e) in enumerate(sorted(note_spans)):
        st, al, oc = PITCHES[i % len(PITCHES)]
        notes.append(dict(id="s%d" % i, s=s, e=e, step=st, alter=al, oct=oc + (i // len(PITCHES)), voice=1, staff=1))
    notes += list(extra_notes)
    return dict(divs=D, bars=bl, notes=notes)


def auto_perf(sc, heads=None):
    heads = heads if heads is not None else [h for h, _, _ in M.chains(sc)]
    perf = []
    for i, h in enumerate(sorted(heads, key=lambda h: (h["s"], h["id"]))):
        on = 40 + (h["s"] * 240) // sc["divs"] + 3 * i
        perf.append(["n%d" % i, midi_pitch(h["step"], h.get("alter"), h["oct"]), on, on + 100, 40 + i, h["id"]])
    return perf


def mk_case(sc, align=None, perf=None, ctrl=(), ppq=480, mpq=500000, **opts):
    if perf is None:
        ap = auto_perf(sc)
        perf = [p[:5] for p in ap]
        if align is None:
            align = [["match", p[5], p[0], None] for p in ap]
    return dict(score=sc, perf=dict(notes=perf, ctrl=[list(c) for c in ctrl]), ppq=ppq, mpq=mpq, align=align, opts=opts)


def shift(spans, t):
    return [(s + t, e + t) for s, e in spans]


def gen_rhythm(full, kmax=3):
    """one enumerated bar A per meter in three layouts: [A|full], [full|A|full], [pickup|A|full];
    full=True adds all ordered pairs [A|B] for the small meters"""
    for m in METERS:
        L = blen(m)
        u = UNIT[m]
        P = patterns(m, kmax)
        if kmax > 3:
            P3 = patterns(m, 3)
            P = [A for A in P if A not in P3]  # only the patterns new at this kmax
        for A in P:
            yield mk_case(mk_score([(m, m, (0, "major")), (m, None, None)], A + [(L, 2 * L)]))
            yield mk_case(mk_score([(m, m, None), (m, None, None), (m, None, None)], [(0, L)] + shift(A, L) + [(2 * L, 3 * L)]))
            yield mk_case(mk_score([(m, m, None, u), (m, None, None), (m, None, None)],
                                   [(0, u)] + shift(A, u) + [(u + L, u + 2 * L)]))


def gen_rhythm_pairs():
    for m in METERS:
        L = blen(m)
        P = patterns(m)
        if len(P) <= 90:
            for A in P:
                for B in P:
                    yield mk_case(mk_score([(m, m, None), (m, None, None)], A + shift(B, L)))


def gen_rhythm_triples():
    for m in METERS:
        L = blen(m)
        P = patterns(m, 2)
        for A in P:
            for B in P:
                for C in P:
                    yield mk_case(mk_score([(m, m, None), (m, None, None), (m, None, None)], A + shift(B, L) + shift(C, 2 * L)))


def note(id, s, e, step="C", alter=None, oct=4, voice=1, staff=1, **kw):
    d = dict(id=id, s=s, e=e, step=step, alter=alter, oct=oct, voice=voice, staff=staff)
    d.update(kw)
    return d


def split_at(s, e, cuts):
    pts = [s] + [c for c in cuts if s < c < e] + [e]
    return list(zip(pts, pts[1:]))


def gen_ties(full, more=False):
    """three bars; voice 1 = one full-bar note per bar (variant 'fill') or only in bars 1 and 3 ('gap');
    voice 2 = one note L with every (start, end) on the unit grid, written as a tie chain split at the barlines
    or as one unsplit note"""
    meters = [(4, 4), (3, 4), (6, 8), (3, 8), (2, 2)] if full else [(4, 4), (6, 8), (3, 8)]
    if more:
        meters += [(5, 8), (9, 8)]
    for m in meters:
        L = blen(m)
        u = UNIT[m] if (full or m != (6, 8)) else 3
        grid = list(range(0, 3 * L + 1, u))
        for fill in ("fill", "gap", "pickup-gap"):
            pk = u if fill == "pickup-gap" else 0
            for s in grid:
                for e in grid:
                    if e <= s:
                        continue
                    for split in (True, False):
                        segs = split_at(s, e, [L, 2 * L]) if split else [(s, e)]
                        if not split and (len(split_at(s, e, [L, 2 * L])) == 1 or pk):
                            continue  # same as the split variant
                        base = [(0, L), (2 * L, 3 * L)] + ([(L, 2 * L)] if fill == "fill" else [])
                        bars = [(m, m, None), (m, None, None), (m, None, None)]
                        if pk:
                            # one-unit anacrusis, then the three bars; bar 1 is the one without a head in voice 1
                            base = [(0, pk), (pk + L, pk + 2 * L), (pk + 2 * L, pk + 3 * L)]
                            bars = [(m, m, None, pk), (m, None, None), (m, None, None), (m, None, None)]
                        sc = mk_score(bars, base)
                        ch = []
                        for k, (a, b) in enumerate(segs):
                            ch.append(note("L%d" % k, a + (pk + L if pk else 0), b + (pk + L if pk else 0), "A", None, 2, 2, 2,
                                           tie=("L%d" % (k + 1)) if k + 1 < len(segs) else None))
                        if pk:
                            ch = [c for c in ch if c["e"] <= pk + 3 * L]
                            if not ch or ch[-1].get("tie"):
                                continue
                        sc["notes"] += ch
                        yield mk_case(sc)


def gen_tuplets(full):
    """one 2/4 bar on a tuplet grid (divs 3: triplets, 5: quintuplets, 6: sextuplets, 12 in thorough): every labelled
    composition (<=3 parts) in two layouts (first bar, second bar)"""
    m = (2, 4)
    for D in ((3, 5, 6, 12) if full else (3, 5, 6)):
        L = blen(m, D)
        for comp in compositions(L, 3):
            for lab in itertools.product((1, 0), repeat=len(comp)):
                if not any(lab):
                    continue
                t = 0
                A = []
                for a, l in zip(comp, lab):
                    if l:
                        A.append((t, t + a))
                    t += a
                yield mk_case(mk_score([(m, m, (0, "major"), L), (m, None, None, L)], A + [(L, 2 * L)], D=D))
                yield mk_case(mk_score([(m, m, None, L), (m, None, (2, "minor"), L), (m, None, None, L)],
                                       [(0, L)] + shift(A, L) + [(2 * L, 3 * L)], D=D))


def gen_pickups(full):
    """anacrusis of every length (1..n-1 units) holding one or two notes (the first at the start of the measure),
    followed by each of late_patterns and a full bar; with a key signature"""
    for m in METERS:
        L = blen(m)
        u = UNIT[m]
        for p in range(u, L, u):
            cont = [[(0, p)]]
            for c in range(u, p, u):
                cont.append([(0, c), (c, p)])
                cont.append([(0, c)])
            for pc in cont:
                for A in late_patterns(m):
                    yield mk_case(mk_score([(m, m, (-1, "major"), p), (m, None, None), (m, None, None)],
                                           pc + shift(A, p) + [(p + L, p + 2 * L)]))


def late_patterns(m):
    """bar contents used around signature changes: full-bar note; first note after a rest of one unit / of half a
    bar (or one unit short of the bar); two notes"""
    L = blen(m)
    u = UNIT[m]
    out = [[(0, L)], [(u, L)], [(0, u), (u, L)]]
    x = (L // (2 * u)) * u
    if x not in (0, u):
        out.append([(x, L)])
    if L - u not in (0, u, x):
        out.append([(L - u, L)])
    return out


def gen_tsig(full):
    """time-signature change m1 -> m2 at bar 2 (of 3) for all ordered pairs of meters incl. a repeated signature;
    optional one-unit pickup; bar 2 content from late_patterns; plus double changes m1 -> m2 -> m3"""
    for m1 in METERS:
        for m2 in METERS:
            for pk in (False, True):
                for A2 in late_patterns(m2):
                    bars = []
                    spans = []
                    t = 0
                    if pk:
                        u = UNIT[m1]
                        bars.append((m1, m1, None, u))
                        spans.append((0, u))
                        t = u
                        bars.append((m1, None, None))
                    else:
                        bars.append((m1, m1, None))
                    spans.append((t, t + blen(m1)))
                    t += blen(m1)
                    bars.append((m2, m2, None))
                    spans += shift(A2, t)
                    t += blen(m2)
                    bars.append((m2, None, None))
                    spans.append((t, t + blen(m2)))
                    yield mk_case(mk_score(bars, spans))
    ms = METERS if full else [(4, 4), (6, 8), (3, 8), (2, 2)]
    for m1 in ms:
        for m2 in ms:
            for m3 in ms:
                if m1 == m2 or m2 == m3:
                    continue
                for A in late_patterns(m3)[:2]:
                    bars = [(m1, m1, None), (m2, m2, None), (m3, m3, None), (m3, None, None)]
                    t1, t2, t3 = blen(m1), blen(m1) + blen(m2), blen(m1) + blen(m2) + blen(m3)
                    spans = [(0, t1), (t1, t2)] + shift(A, t2) + [(t3, t3 + blen(m3))]
                    yield mk_case(mk_score(bars, spans))


def gen_gaps(full):
    """bars without a note line (no head of a written note: only rests, or only the continuation of a note tied over
    from the bar before) next to time-signature changes.

    layout A: [pickup] | m1 note bar | k empty m1 bars | m2 bar (signature m2 written, also when m2 == m1) | m2 full
              bar, for ALL 64 ordered meter pairs, k in 1..2 (3 in the thorough tier), with/without a one-unit pickup,
              every late_pattern of the first bar after the gap, the gap empty / filled by a tie chain that starts in
              the bar before and ends with the gap / by a chain that ends with the first bar after the gap; without
              pickup also with a key change at the bar after the gap
    layout B: m0 | m1 (change) | k empty m1 bars | m2 (change) | m2, all m0 != m1 != m2 over 4 meters (8 thorough):
              the signature before the gap is neither the first nor the last one
    layout C: m1 | gap | m2 (change) | gap in m2 | m3 (change) | m3 over 4 meters: two gaps, k = 1 each
    """
    def chain(s, cuts, e):
        segs = split_at(s, e, cuts)
        return [note("L%d" % i, a, b, "A", None, 2, 2, 2, tie=("L%d" % (i + 1)) if i + 1 < len(segs) else None)
                for i, (a, b) in enumerate(segs)]

    for m1 in METERS:
        for m2 in METERS:
            L1, L2 = blen(m1), blen(m2)
            for k in ((1, 2, 3) if full else (1, 2)):
                for pk in (False, True):
                    for A2 in late_patterns(m2):
                        for fill in ("empty", "tied", "tied-into"):
                            for ks2 in ((None, (2, "minor")) if (not pk and fill == "empty") else (None,)):
                                bars = []
                                spans = []
                                t = 0
                                if pk:
                                    u = UNIT[m1]
                                    bars.append((m1, m1, (-1, "major"), u))
                                    spans.append((0, u))
                                    t = u
                                    bars.append((m1, None, None))
                                else:
                                    bars.append((m1, m1, (-1, "major")))
                                b1 = t
                                spans.append((t, t + L1))
                                t += L1
                                cuts = [t]
                                for _ in range(k):
                                    bars.append((m1, None, None))
                                    t += L1
                                    cuts.append(t)
                                bars.append((m2, m2, ks2))
                                spans += shift(A2, t)
                                t += L2
                                bars.append((m2, None, None))
                                spans.append((t, t + L2))
                                sc = mk_score(bars, spans)
                                if fill == "tied":
                                    sc["notes"] += chain(b1 + UNIT[m1], cuts, cuts[-1])
                                elif fill == "tied-into":
                                    sc["notes"] += chain(b1 + UNIT[m1], cuts, cuts[-1] + L2)
                                yield mk_case(sc)
    ms = METERS if full else [(4, 4), (6, 8), (3, 8), (2, 2)]
    for m0 in ms:
        for m1 in ms:
            for m2 in ms:
                if m0 == m1 or m1 == m2:
                    continue
                for k in (1, 2):
                    for A2 in late_patterns(m2)[:2]:
                        bars = [(m0, m0, None), (m1, m1, None)] + [(m1, None, None)] * k + [(m2, m2, None), (m2, None, None)]
                        t1 = blen(m0)
                        t2 = t1 + (k + 1) * blen(m1)
                        spans = [(0, t1), (t1, t1 + blen(m1))] + shift(A2, t2) + [(t2 + blen(m2), t2 + 2 * blen(m2))]
                        yield mk_case(mk_score(bars, spans))
    ms = [(4, 4), (6, 8), (3, 8), (2, 2)]
    for m1 in ms:
        for m2 in ms:
            for m3 in ms:
                if m1 == m2 or m2 == m3:
                    continue
                for A in late_patterns(m3)[:2]:
                    L1, L2, L3 = blen(m1), blen(m2), blen(m3)
                    bars = [(m1, m1, None), (m1, None, None), (m2, m2, None), (m2, None, None), (m3, m3, None), (m3, None, None)]
                    spans = [(0, L1), (2 * L1, 2 * L1 + L2)] + shift(A, 2 * L1 + 2 * L2) + [(2 * L1 + 2 * L2 + L3, 2 * L1 + 2 * L2 + 2 * L3)]
                    yield mk_case(mk_score(bars, spans))


KEYS_ALL = [(f, mo) for mo in ("major", "minor", None) for f in range(-7, 8)]
KEYS_PAIR = [(f, mo) for mo in ("major", "minor") for f in (-7, -3, -1, 0, 2, 7)]


def gen_ksig(full):
    """key signatures: all 45 (fifths, mode) at the start; all ordered pairs of 12 keys as a change at bar 2 in
    4/4 and 6/8, with and without pickup, bar 2 starting with a note or with a rest; key + time signature changes
    in the same or in different bars; key given only at a later bar; redundant repetition; triplet-led bar"""
    m = (4, 4)
    L = blen(m)
    for k in KEYS_ALL:
        yield mk_case(mk_score([(m, m, k), (m, None, None)], [(0, L), (L, 2 * L)]))
        yield mk_case(mk_score([((6, 8), (6, 8), k, 1), ((6, 8), None, None), ((6, 8), None, None)], [(0, 1), (1, 7), (7, 13)]))
    for m in ((4, 4), (6, 8)):
        L = blen(m)
        u = UNIT[m]
        for k1 in KEYS_PAIR:
            for k2 in KEYS_PAIR:
                if k1 == k2:
                    continue
                for pk in (False, True):
                    for A in ([(0, L)], [(2 * u, L)]):
                        if pk:
                            bars = [(m, m, k1, u), (m, None, None), (m, None, k2), (m, None, None)]
                            spans = [(0, u), (u, u + L)] + shift(A, u + L) + [(u + 2 * L, u + 3 * L)]
                        else:
                            bars = [(m, m, k1), (m, None, k2), (m, None, None)]
                            spans = [(0, L)] + shift(A, L) + [(2 * L, 3 * L)]
                        yield mk_case(mk_score(bars, spans))
    ms = [(4, 4), (3, 4), (6, 8), (3, 8), (2, 2)]
    for m1 in ms:
        for m2 in ms:
            if m1 == m2:
                continue
            for kb in (1, 2, 3):
                for tb in (1, 2):
                    for pk in (False, True):
                        k1, k2 = (-3, "major"), (1, "minor")
                        bars = []
                        spans = []
                        t = 0
                        if pk:
                            bars.append([m1, m1, k1, UNIT[m1]])
                            spans.append((0, UNIT[m1]))
                            t = UNIT[m1]
                        cur = m1
                        for b in range(4):
                            ts = None
                            if b == 0 and not pk:
                                ts = m1
                            if b == tb:
                                cur = m2
                                ts = m2
                            ks = k2 if b == kb else (k1 if (b == 0 and not pk) else None)
                            bars.append([cur, ts, ks])
                            A = late_patterns(cur)[1] if b in (kb, tb) else [(0, blen(cur))]
                            spans += shift(A, t)
                            t += blen(cur)
                        yield mk_case(mk_score(bars, spans))
    # key only at a later bar; redundant repetition; the same key again after another
    m = (3, 4)
    L = blen(m)
    for k in KEYS_PAIR:
        yield mk_case(mk_score([(m, m, None), (m, None, k), (m, None, None)], [(0, L), (L, 2 * L), (2 * L, 3 * L)]))
        yield mk_case(mk_score([(m, m, k), (m, None, k), (m, None, None)], [(0, L), (L, 2 * L), (2 * L, 3 * L)]))
        yield mk_case(mk_score([(m, m, k), (m, None, (3, "major")), (m, None, k)], [(0, L), (L, 2 * L), (2 * L, 3 * L)]))
    # bars led by a triplet rest (divs 3 and 6): signature change at a bar whose first note is off the binary grid
    for D in (3, 6, 12):
        for m, m2 in (((2, 4), (3, 4)), ((3, 4), (2, 4)), ((6, 8), (2, 4)), ((2, 4), (6, 8))):
            L1, L2 = blen(m, D), blen(m2, D)
            for lead in sorted({D // 3, 2 * D // 3, D + D // 3, 1}):
                for nb in (1, 2, 3):
                    bars = [(m, m, (0, "major"), L1)] + [(m, None, None, L1)] * (nb - 1) + [(m2, m2, (-1, "minor"), L2), (m2, None, None, L2)]
                    t = nb * L1
                    spans = [(b * L1, (b + 1) * L1) for b in range(nb)] + [(t + lead, t + L2), (t + L2, t + 2 * L2)]
                    yield mk_case(mk_score(bars, spans, D=D))


STEPS = "CDEFGAB"


def gen_attrs(full):
    """one 4/4 bar with a plain note and a note X: spelling (7 steps x alter {None,0,1,-1,2,-2} x octave {1,4,7})
    x (voice, staff) in 4 pairs; articulation subsets x label; fingering as a distractor"""
    m = (4, 4)
    for st in STEPS:
        for al in (None, 0, 1, -1, 2, -2):
            for oc in (1, 4, 7):
                for vo, sf in ((1, 1), (2, 1), (3, 2), (1, 2)):
                    sc = mk_score([(m, m, None)], [(0, 4)])
                    sc["notes"].append(note("x", 4, 8, st, al, oc, vo, sf))
                    yield mk_case(sc)
    arts = ["staccato", "accent", "tenuto", "staccatissimo"]
    for r in range(len(arts) + 1):
        for sub in itertools.combinations(arts, r):
            for lab in ("match", "deletion"):
                for fing in (None, 3):
                    sc = mk_score([(m, m, None)], [(0, 4)])
                    sc["notes"].append(note("x", 4, 8, "E", None, 4, 2, 1, art=list(sub), fing=fing))
                    c = mk_case(sc)
                    if lab == "deletion":
                        c["align"] = [a if a[1] != "x" else ["deletion", "x", None, None] for a in c["align"]]
                        pid = [a[2] for a in mk_case(sc)["align"] if a[1] == "x"][0]
                        c["align"].append(["insertion", None, pid, None])
                    yield c


STAFF_ALPHA = list(range(1, 10)) + [10, 12, 20, 100]  # (two-digit staves: repaired in /repo 712cc20)
VOICE_PAIR_ALPHA = [1, 2, 9, 10, 11, 12, 20, 100]
VOICE_TEXT_ALPHA = [1, 2, 9, 10, 11, 12, 19, 20, 21, 99, 100, 101, 110, 1000]
VOICE_KINDS = ("plain", "chord", "tie", "grace", "art")


def voice_alphabet(full):
    """voice numbers of one, two, three and four digits (every number up to 24 / 130, then the digit-boundary values)"""
    return list(range(1, 131 if full else 25)) + ([] if full else [29, 30, 31, 40, 50, 90, 99, 100, 101, 109, 110, 111, 120]) + \
        [199, 200, 255, 999, 1000, 1001]


def delete_notes(c, sids):
    """the score notes `sids` of the all-matched case c become deletions, their performed notes insertions"""
    pids = {a[1]: a[2] for a in c["align"] if a[0] == "match"}
    c["align"] = [a if a[1] not in sids else ["deletion", a[1], None, None] for a in c["align"]]
    for s in sids:
        c["align"].append(["insertion", None, pids[s], None])
    return c


def gen_voices(full):
    """voice and staff NUMBERS (the written attribute is the decimal number: v<voice>, staff<staff>).

    A  numbers: two 4/4 half bars; a plain note (voice 1, staff 1) and a note X with voice v x staff s x X matched / deleted,
       v over voice_alphabet (all of 1..24 [1..130 thorough] and the digit-boundary values up to 1001), s in 1..9
    B  note kinds: layer 1 = three notes in voice v1 on staff 1, layer 2 = voice v2 on staff 2 holding one of VOICE_KINDS
       (plain notes / a two-note chord / a chain tied over the barline / a grace note and its main note / a note with
       articulations and a fingering); all ordered pairs v1 != v2 over VOICE_PAIR_ALPHA x kind x layer 2 matched / deleted
    C  parts numbered the MusicXML way (4 voices per staff: voice k on staff (k-1)//4 + 1): the first k voices, k = 1..16
       (1..36 thorough: 9 staves), one note per voice sounding together; all matched / every other voice deleted
    D  hand-written files of every dialect: voice of the middle score note over VOICE_TEXT_ALPHA x staff {1, 2, 9} x its
       line a match / a deletion
    """
    m = (4, 4)
    for vo in voice_alphabet(full):
        for sf in STAFF_ALPHA:
            for lab in ("match", "deletion"):
                sc = mk_score([(m, m, None)], [(0, 4)])
                sc["notes"].append(note("x", 4, 8, "E", None, 4, vo, sf))
                c = mk_case(sc)
                yield delete_notes(c, ["x"]) if lab == "deletion" else c
    for v1 in VOICE_PAIR_ALPHA:
        for v2 in VOICE_PAIR_ALPHA:
            if v1 == v2:
                continue
            for kind in VOICE_KINDS:
                for lab in ("match", "deletion"):
                    sc = mk_score([(m, m, (0, "major")), (m, None, None)], [(0, 4), (4, 8), (8, 16)])
                    for n in sc["notes"]:
                        n["voice"] = v1
                    if kind == "plain":
                        l2 = [note("a", 0, 8, "A", None, 2, v2, 2), note("b", 8, 16, "F", None, 2, v2, 2)]
                    elif kind == "chord":
                        l2 = [note("a", 0, 8, "A", None, 2, v2, 2), note("b", 0, 8, "F", None, 2, v2, 2),
                              note("c", 8, 16, "G", None, 2, v2, 2)]
                    elif kind == "tie":
                        l2 = [note("a", 4, 8, "A", None, 2, v2, 2, tie="b"), note("b", 8, 12, "A", None, 2, v2, 2)]
                    elif kind == "grace":
                        l2 = [note("a", 0, 8, "A", None, 2, v2, 2), note("g", 8, 8, "B", -1, 2, v2, 2, grace=True),
                              note("b", 8, 16, "F", None, 2, v2, 2)]
                    else:
                        l2 = [note("a", 0, 8, "A", None, 2, v2, 2, art=["staccato", "accent"], fing=2),
                              note("b", 8, 16, "F", None, 2, v2, 2, art=["accent"])]
                    sc["notes"] += l2
                    c = mk_case(sc)
                    if lab == "deletion":
                        delete_notes(c, [n["id"] for n in l2 if n["id"] in {a[1] for a in c["align"]}])
                    yield c
    for k in range(1, (36 if full else 16) + 1):
        for lab in ("match", "alternate"):
            if lab == "alternate" and k < 2:
                continue
            sc = mk_score([(m, m, None)], [])
            for v in range(1, k + 1):
                st = STEPS[(2 * v) % 7]
                # distinct pitches: the octave falls with the staff, inside a staff with the voice
                sc["notes"].append(note("k%d" % v, 0, 8, st, None, 7 - (v - 1) // 7, v, (v - 1) // 4 + 1))
            c = mk_case(sc)
            if lab == "alternate":
                delete_notes(c, ["k%d" % v for v in range(2, k + 1, 2)])
            yield c
    for version in VERSIONS:
        for vo in VOICE_TEXT_ALPHA:
            for sf in (1, 2, 9):
                for lab in ("match", "deletion"):
                    c = base_content(version)
                    p = sorted(c["pnotes"])
                    c["snotes"]["s2"].update(voice=vo, staff=sf)
                    c["lines"] = [["match", "s1", p[0], 0], [lab, "s2", p[1] if lab == "match" else None, 0], ["match", "s3", p[2], 0]]
                    yield dict(kind="text", content=c)


def gen_chords(full):
    """chords and voices: two or three simultaneous notes with all duration combinations from {1,2,4 units},
    equal pitch in two voices (voice overlap) as match and as deletion; grace notes (1-2) before a main note at the
    bar start, mid bar and after a pickup, matched or deleted"""
    m = (4, 4)
    durs = (2, 4, 8)
    for d1 in durs:
        for d2 in durs:
            for d3 in (None,) + durs:
                for on in (0, 4):
                    for st2 in ("E", "C"):
                        for lab in ("match", "deletion"):
                            sc = mk_score([(m, m, None), (m, None, None)], [(8, 16)])
                            sc["notes"][0]["step"] = "G"
                            sc["notes"].append(note("a", on, on + d1, "C", None, 4, 1, 1))
                            sc["notes"].append(note("b", on, on + d2, st2, None, 4, 2, 1))
                            if d3:
                                sc["notes"].append(note("c", on, on + d3, "A", None, 3, 3, 2))
                            c = mk_case(sc)
                            if lab == "deletion":
                                pid = [a[2] for a in c["align"] if a[1] == "b"][0]
                                c["align"] = [a if a[1] != "b" else ["deletion", "b", None, None] for a in c["align"]]
                                c["align"].append(["insertion", None, pid, None])
                            yield c
    for ng in (1, 2):
        for pos in (0, 4, 8):
            for pk in (False, True):
                for labs in itertools.product(("match", "deletion"), repeat=ng):
                    off = 2 if pk else 0
                    bars = ([(m, m, None, 2)] if pk else []) + [(m, None if pk else m, None), (m, None, None)]
                    spans = ([(0, 2)] if pk else []) + [(off, off + 4), (off + 4, off + 8), (off + 8, off + 16)]
                    sc = mk_score(bars, spans)
                    for g in range(ng):
                        sc["notes"].append(note("g%d" % g, off + pos, off + pos, "DF"[g], None, 5, 1, 1, grace=True))
                    c = mk_case(sc)
                    for g, lab in enumerate(labs):
                        if lab == "deletion":
                            pid = [a[2] for a in c["align"] if a[1] == "g%d" % g][0]
                            c["align"] = [a if a[1] != "g%d" % g else ["deletion", a[1], None, None] for a in c["align"]]
                            c["align"].append(["insertion", None, pid, None])
                    yield c


GRACE_COUNTS_Q = [c for c in itertools.product((0, 1, 2), repeat=3) if 1 <= sum(c) <= 2] + [(1, 1, 1)]
GRACE_COUNTS_T = [c for c in itertools.product((0, 1, 2), repeat=3) if 1 <= sum(c) <= 3]


def gen_graces(full, core=False):
    """partial alignments over grace notes AND their main notes: three consecutive regular notes (two 4/4 bars) with
    0-2 grace notes before each of them (1-2 grace notes in all, or one before every note; thorough: 1-3 in all),
    optionally a second regular note (other voice) sounding with one of the three; EVERY score note - regular or grace -
    is a match or a deletion, all assignments with at least one matched regular note (so the first / a middle / the
    last matched score position may be matched through grace notes only, through a chord partner only, ...); the
    performed note of a deleted score note is an insertion; the thorough tier varies one more dimension at a time: the
    performed notes of deleted notes absent from the performance / a one-unit pickup before the bars (its note always
    matched) / the alignment list reversed.
    core=True: the sub-scope enumerated completely in the quick tier whatever the seed (no partner; partner with one
    grace note in all)"""
    m = (4, 4)
    for counts in (GRACE_COUNTS_T if full else GRACE_COUNTS_Q):
        for partner in (None, 0, 1, 2):
            if core and partner is not None and sum(counts) > 1:
                continue
            for pk in ((False, True) if full else (False,)):
                off = 2 if pk else 0
                bars = ([(m, m, None, 2)] if pk else []) + [(m, None if pk else m, None), (m, None, None)]
                reg = [(off, off + 4), (off + 4, off + 8), (off + 8, off + 16)]
                sc = mk_score(bars, ([(0, 2)] if pk else []) + reg)
                # ids of the three regular notes (mk_score numbers the notes by onset)
                rid = ["s%d" % (i + (1 if pk else 0)) for i in range(3)]
                free = list(rid)
                for p, cnt in enumerate(counts):
                    for g in range(cnt):
                        sc["notes"].append(note("g%d%d" % (p, g), reg[p][0], reg[p][0], "DF"[g], None, 5, 1, 1, grace=True))
                        free.append("g%d%d" % (p, g))
                if partner is not None:
                    sc["notes"].append(note("c", reg[partner][0], reg[partner][1], "A", None, 3, 2, 1))
                    free.append("c")
                regular = set(rid) | {"c"}
                ap = auto_perf(sc)
                for labs in itertools.product(("match", "deletion"), repeat=len(free)):
                    lab = dict(zip(free, labs))
                    if not any(l == "match" and i in regular for i, l in lab.items()):
                        continue  # precondition: a matched note with a score duration
                    for gone in (("insertion", "absent") if full else ("insertion",)):
                        if gone == "absent" and ("deletion" not in labs or pk):
                            continue
                        for order in (("fwd", "rev") if (full and not pk and gone == "insertion") else ("fwd",)):
                            perf = []
                            align = []
                            for pid, pitch, on, off_, vel, sid in ap:
                                if lab.get(sid, "match") == "match":
                                    perf.append([pid, pitch, on, off_, vel])
                                    align.append(["match", sid, pid, None])
                                else:
                                    align.append(["deletion", sid, None, None])
                                    if gone == "insertion":
                                        perf.append([pid, pitch, on, off_, vel])
                                        align.append(["insertion", None, pid, None])
                            if order == "rev":
                                align = align[::-1]
                            yield mk_case(sc, align=align, perf=perf)


def gen_labels(full, ks=None, max_extra=2):
    """all assignments of {match, deletion} to k<=4 score notes (>=1 match) x 0-2 extra performed notes, each an
    insertion or an ornament of any score note, placed before, between or after the matched notes; alignment list in
    given and reversed order; performed ids with and without the 'n' prefix"""
    m = (4, 4)
    for k in (ks or ((2, 3, 4) if full else (3, 4))):
        spans = {2: [(0, 4), (4, 8)], 3: [(0, 2), (2, 4), (4, 8)], 4: [(0, 2), (2, 4), (2, 4), (4, 8)],
                 5: [(0, 2), (2, 4), (2, 4), (4, 6), (6, 8)]}[k]
        sc = mk_score([(m, m, None)], spans)
        if k >= 4:
            sc["notes"][2]["voice"] = 2
        ids = [n["id"] for n in sc["notes"]]
        base = auto_perf(sc)
        for labs in itertools.product(("match", "deletion"), repeat=k):
            if "match" not in labs:
                continue
            for nx in range(max_extra + 1):
                kinds = [("insertion", None)] + [("ornament", i) for i in ids]
                for ex in itertools.product(kinds, repeat=nx):
                    for variant in range(2 if nx else 1):
                        for order in ("fwd", "rev"):
                            for pfx in ("n", "p") if (order == "fwd" and variant == 0) else ("n",):
                                perf = []
                                align = []
                                for (pid, pitch, on, off, vel, sid), lab in zip(base, labs):
                                    if lab == "match":
                                        perf.append([pfx + pid[1:], pitch, on, off, vel])
                                        align.append(["match", sid, pfx + pid[1:], None])
                                    else:
                                        align.append(["deletion", sid, None, None])
                                for j, (kind, anchor) in enumerate(ex):
                                    # variant 0: extras after / between; variant 1: before the first note / late
                                    on = [700 + 900 * j, 5 + 1200 * j][variant] + 7 * j
                                    pid = "%s9%d" % (pfx, j)
                                    perf.append([pid, 80 + j, on, on + 60, 90 + j])
                                    if kind == "insertion":
                                        align.append(["insertion", None, pid, None])
                                    else:
                                        align.append(["ornament", anchor, pid, ("trill", "mordent")[j % 2]])
                                if order == "rev":
                                    align = align[::-1]
                                    perf = perf[::-1]
                                yield mk_case(sc, align=align, perf=perf)


CLOCKS = [(480, 500000), (960, 500000), (384, 600000), (1000, 1000000), (4000, 500000), (24, 250000), (480, 333333)]


def gen_clock(full, all_streams=False):
    """clock pairs x note times (on the tick grid incl. 0 and 10^6, off the grid as exact seconds incl. exact half
    ticks and thirds) x every pedal stream of length 0-3 over {64, 67, 66} x tick {0, 7} x value {0, 127} without
    exact repetitions"""
    m = (4, 4)
    sc = mk_score([(m, m, None)], [(0, 4), (4, 8)])
    events = [(num, t, v) for num in (64, 67) for t in (0, 7) for v in (0, 127)] + [(66, 3, 90), (64, ["s", "1001/700"], 64)]
    streams = [()]
    for n in (1, 2, 3):
        for st in itertools.permutations(events, n):
            streams.append(st)
    for ppq, mpq in CLOCKS:
        def half(k):
            return ["s", "%d/%d" % ((2 * k + 1) * mpq, 2 * 10 ** 6 * ppq)]
        timesets = [
            [(0, 10), (12, 1000000), (5, 6)],
            [(["s", "1/3"], ["s", "2/3"]), (["s", "1/1"], ["s", "7/3"]), (["s", "10/7"], ["s", "1001/700"])],
            [(half(0), half(1)), (half(10), half(11)), (half(3), half(4))],
        ]
        for ti, ts in enumerate(timesets):
            perf = [["n%d" % i, 60 + i, on, off, 1 + 63 * i] for i, (on, off) in enumerate(ts)]
            align = [["match", "s0", "n0", None], ["match", "s1", "n1", None], ["insertion", None, "n2", None]]
            if all_streams:
                if ti == 0:
                    continue  # already in the space "clock"
                sub = streams
            else:
                sub = streams if (ti == 0 and (full or (ppq, mpq) in CLOCKS[:3])) else streams[:1 + len(events) + 20]
            for st in sub:
                yield mk_case(sc, align=align, perf=perf, ctrl=st, ppq=ppq, mpq=mpq)
    # exporter defaults (no ppq/mpq given)
    for st in ([] if all_streams else streams[:10]):
        perf = [["n%d" % i, 60 + i, on, off, 1 + 63 * i] for i, (on, off) in enumerate([(0, 10), (12, 100000), (5, 6)])]
        align = [["match", "s0", "n0", None], ["match", "s1", "n1", None], ["insertion", None, "n2", None]]
        yield mk_case(sc, align=align, perf=perf, ctrl=st, defaults=True)


PED_VALUES = [0, 64, 127]
PED_TICKS = [7, 961]


def ped_time_points():
    """contents of one time point of a pedal: 1..3 distinct values of PED_VALUES in every order (15)"""
    out = []
    for k in (1, 2, 3):
        out += [list(p) for p in itertools.permutations(PED_VALUES, k)]
    return out


def gen_pedal_order(full):
    """several events of one pedal on ONE tick (a pedal pressed and released within a tick, a device that quantises):
    streams of one or two time points (ticks 7 and 961), each holding 1..3 distinct values of {0, 64, 127} in every
    order, at least one time point with several values (12 + 216 streams) x the stream on the sustain pedal / on the
    soft pedal / on both (events interleaved) x the events of a time point at exactly the same time / at different
    times inside the tick, in the order of the list (T-1/8, T+1/8 or T-1/4, T, T+1/4 ticks) x clock.
    quick: all 228 streams at equal times with the first clock; the 12 one-point streams also at different times and with
    a second clock; thorough: the full product over the 7 clocks"""
    m = (4, 4)
    sc = mk_score([(m, m, None)], [(0, 4), (4, 8)])
    pts = ped_time_points()
    streams = [[p] for p in pts if len(p) > 1] + [[a, b] for a in pts for b in pts if len(a) > 1 or len(b) > 1]
    perf = [["n%d" % i, 60 + i, on, off, 1 + 63 * i] for i, (on, off) in enumerate([(0, 10), (12, 2000), (5, 970)])]
    align = [["match", "s0", "n0", None], ["match", "s1", "n1", None], ["insertion", None, "n2", None]]
    for ci, (ppq, mpq) in enumerate(CLOCKS if full else [CLOCKS[0], CLOCKS[2]]):
        for st in streams:
            if not full and ci > 0 and len(st) > 1:
                continue
            for near in (False, True):
                if not full and near and len(st) > 1:
                    continue
                for mode in ("sustain", "soft", "both"):
                    ctrl = []
                    for T, vals in zip(PED_TICKS, st):
                        for j, v in enumerate(vals):
                            if near and len(vals) > 1:
                                # exact seconds of tick T + (2j - (k-1))/8
                                t = ["s", "%d/%d" % ((8 * T + 2 * j - (len(vals) - 1)) * mpq, 8 * 10 ** 6 * ppq)]
                            else:
                                t = T
                            for num in {"sustain": (64,), "soft": (67,), "both": (64, 67)}[mode]:
                                ctrl.append((num, t, v))
                    yield mk_case(sc, align=align, perf=perf, ctrl=ctrl, ppq=ppq, mpq=mpq)


LARGE_OFFSETS = [2 ** 22 + 1, 2 ** 23 + 5, 2 ** 24 + 1, 2 ** 25 + 3, 2 ** 26 + 1, 2 ** 27 + 7, 2 ** 28 + 1, 2 ** 30 + 1]


def gen_clock_large(full):
    """magnitude dimension of the space clock: the same small performances late in a long recording. Every time (notes and
    pedals) of 4 time sets - tick grid (3 notes), tick grid (6 notes, 4 of them insertions), exact seconds off the grid
    (thirds, sevenths), exact half ticks - shifted by an offset of LARGE_OFFSETS ticks (2**22+1 .. 2**30+1: 73 minutes to
    13 days at 960 ticks/s; the tick column of PerformedPart.note_array is int32, so 2**31 is the limit of the library)
    x 7 clocks x pedals {none, 3 events}; thorough adds the offsets 3*2**k+1"""
    m = (4, 4)
    sc = mk_score([(m, m, None)], [(0, 4), (4, 8)])
    offsets = LARGE_OFFSETS + ([3 * 2 ** k + 1 for k in range(21, 29)] if full else [])
    for O in offsets:
        for ppq, mpq in CLOCKS:
            def sh(x):
                if isinstance(x, (list, tuple)):
                    v = M.sec_of(x, ppq, mpq) + F(O * mpq, 10 ** 6 * ppq)
                    return ["s", "%d/%d" % (v.numerator, v.denominator)]
                return O + x

            def half(k):
                return ["s", "%d/%d" % ((2 * k + 1) * mpq, 2 * 10 ** 6 * ppq)]
            timesets = [
                [(0, 10), (12, 1000000), (5, 6)],
                [(0, 10), (12, 1000000), (5, 6), (101, 333), (334, 777), (778, 1555)],
                [(["s", "1/3"], ["s", "2/3"]), (["s", "1/1"], ["s", "7/3"]), (["s", "10/7"], ["s", "1001/700"])],
                [(half(0), half(1)), (half(10), half(11)), (half(3), half(4))],
            ]
            for ts in timesets:
                perf = [["n%d" % i, 60 + i, sh(on), sh(off), 1 + 20 * i] for i, (on, off) in enumerate(ts)]
                align = [["match", "s0", "n0", None], ["match", "s1", "n1", None]] + \
                        [["insertion", None, "n%d" % i, None] for i in range(2, len(ts))]
                for ped in ([], [(64, 3, 127), (67, ["s", "1/3"], 5), (64, 2001, 0)]):
                    ctrl = [(num, sh(t), v) for num, t, v in ped]
                    yield mk_case(sc, align=align, perf=perf, ctrl=ctrl, ppq=ppq, mpq=mpq)


SRC_CLOCKS = [(480, 500000), (480, 250000), (480, 600000), (960, 500000), (384, 600000)]
REQ_CLOCKS = [(480, 500000), (480, 250000), (480, 333333), (960, 500000), (384, 600000), None]  # None = exporter defaults
RESAVE_TIMES = [[(0, 10), (5, 6), (12, 1000)], [(480, 960), (961, 1441), (1001, 1999)]]
RESAVE_PEDALS = [[], [(64, 7, 127)], [(67, 0, 5), (64, 3, 100), (64, 961, 0)]]


def gen_resave(full):
    """performed parts whose notes carry tick counts (note_on_tick / note_off_tick), as parts read from a MIDI or a match
    file do, saved with a requested clock that may differ from the clock the ticks were counted in.

    source clock (ppq_s, mpq_s) in SRC_CLOCKS x requested clock in REQ_CLOCKS (incl. equal ppq with another mpq, both
    equal, both different, exporter defaults) x 2 note-time sets on the source tick grid x 3 pedal streams x
      built: hand-built part, tick fields {both, only note_on_tick} x declared clock of the PerformedPart {source clock,
             480/500000 as load_performance_midi declares whatever the tempo of the file, the requested clock}
      match: the part is what load_match returns for the plain part saved with the source clock
      midi:  the part is what load_performance_midi returns for the plain part saved as MIDI with the source clock
    The seconds are the reference: loaded ticks = saved seconds in the requested clock."""
    m = (4, 4)
    sc = mk_score([(m, m, None)], [(0, 4), (4, 8)])
    align = [["match", "s0", "n0", None], ["match", "s1", "n2", None], ["insertion", None, "n1", None]]
    src_clocks = SRC_CLOCKS + ([(1000, 1000000), (24, 250000)] if full else [])
    for ppq_s, mpq_s in src_clocks:
        def sec(t):
            return ["s", "%d/%d" % (t * mpq_s, 10 ** 6 * ppq_s)]
        for req in REQ_CLOCKS + ([(4000, 500000), (480, 1000000)] if full else []):
            for ts in RESAVE_TIMES:
                # ids in the order load_performance_midi numbers the notes (by onset)
                perf = [["n%d" % i, 60 + i, sec(on), sec(off), 1 + 63 * i] for i, (on, off) in enumerate(ts)]
                for ped in RESAVE_PEDALS:
                    ctrl = [(num, sec(t), v) for num, t, v in ped]
                    variants = [("built", f, d) for f in ("both", "on") for d in ("src", "midi", "req")]
                    variants += [("match", "both", "src"), ("midi", "both", "midi")]
                    for via, fields, decl in variants:
                        if via == "built" and len(ped) == 1 and not full:
                            continue  # quick tier: hand-built parts with the empty and the 3-event stream only
                        kw = dict(defaults=True) if req is None else dict(ppq=req[0], mpq=req[1])
                        c = mk_case(sc, align=align, perf=perf, ctrl=ctrl, via=via, **kw)
                        c["perf"]["src"] = [ppq_s, mpq_s, fields]
                        c["perf"]["decl"] = {"src": [ppq_s, mpq_s], "midi": [ppq_s, 500000], "req": [c["ppq"], c["mpq"]]}[decl]
                        yield c


REUSE_OPS = ["P0", "P1", "S", "A", "W"]


def gen_reuse(full):
    """one parsed MatchFile (load_matchfile of the written file) queried several times: every sequence of 1..3 (4 in the
    thorough tier) operations over P0 = performed_part_from_match(mf), P1 = the same with first_note_at_zero=True,
    S = part_from_matchfile(mf), A = note_alignment_from_matchfile(mf), W = mf.write + load_match of the rewritten
    file; the result of EVERY operation is compared with the saved data (P1: all note times shifted by the earliest
    onset); plus the single fresh loads L0/L1 = load_match(first_note_at_zero=False/True).
    bases: earliest onset tick {0, 7, 960} x 2 clocks (3 thorough) x pedals {none, 3 events}; 3 score notes in 2 bars
    (match, deletion, match) + an insertion + an ornament"""
    m = (4, 4)
    sc = mk_score([(m, m, (0, "major")), (m, None, None)], [(0, 4), (4, 8), (8, 16)])
    seqs = [[o] for o in ("L0", "L1")]
    for n in ((1, 2, 3, 4) if full else (1, 2, 3)):
        seqs += [list(x) for x in itertools.product(REUSE_OPS, repeat=n)]
    for f in (0, 7, 960):
        for ppq, mpq in ([CLOCKS[0], CLOCKS[2], CLOCKS[3]] if full else [CLOCKS[0], CLOCKS[2]]):
            for ped in ([], [(64, 3, 100), (67, f + 9, 10), (64, f + 400, 0)]):
                perf = [["n0", 60, f + 20, f + 120, 50], ["n1", 67, f + 300, f + 420, 60], ["n2", 80, f, f + 60, 70],
                        ["n3", 90, f + 500, f + 530, 80]]
                align = [["match", "s0", "n0", None], ["deletion", "s1", None, None], ["match", "s2", "n1", None],
                         ["insertion", None, "n2", None], ["ornament", "s2", "n3", "trill"]]
                base = mk_case(sc, align=align, perf=perf, ctrl=ped, ppq=ppq, mpq=mpq)
                for ops in seqs:
                    if len(ops) == 3 and not ped and not full:
                        continue  # quick tier: the bases without pedal lines get the sequences up to length 2
                    yield dict(kind="reuse", base=base, ops=ops)


def gen_options(full):
    """api (Part/PerformedPart, Score/Performance, returned MatchFile) x assume_unfolded x representative scores"""
    m = (6, 8)
    L = blen(m)
    scores = []
    scores.append(mk_score([(m, m, (2, "minor"), 1), (m, None, None), ((2, 4), (2, 4), (-1, "major")), ((2, 4), None, None)],
                           [(0, 1), (1, 4), (4, 1 + L), (1 + L, 3 + L), (3 + L, 5 + L), (5 + L, 9 + L)]))
    s2 = mk_score([((3, 4), (3, 4), (0, "major")), ((3, 4), None, None)], [(0, 6), (6, 12)])
    s2["notes"] += [note("t0", 2, 6, "A", None, 3, 2, 2, tie="t1"), note("t1", 6, 8, "A", None, 3, 2, 2),
                    note("g", 6, 6, "B", -1, 4, 1, 1, grace=True, art=["accent"])]
    scores.append(s2)
    for sc in scores:
        base = mk_case(sc)
        for api in ("part", "score", "matchfile"):
            for unf in (True, False):
                for extra in (0, 1, 2):
                    c = copy.deepcopy(base)
                    c["opts"] = dict(api=api, unfolded=unf)
                    if extra >= 1:
                        c["perf"]["notes"].append(["n77", 90, 333, 444, 77])
                        c["align"].append(["ornament", sc["notes"][1]["id"], "n77", "trill"])
                    if extra >= 2:
                        a = c["align"][0]
                        c["align"][0] = ["deletion", a[1], None, None]
                        c["align"].append(["insertion", None, a[2], None])
                        c["perf"]["ctrl"] = [[64, 3, 100], [67, 9, 10]]
                    yield c


VERSIONS = ["1.0.0", "0.5.0", "0.4.0", "0.3.0", "0.2.0", "0.1.0", "none"]


def base_content(version, idx=(0, 1, 3), ts=(3, 4), ks=(0, "major"), ppq=480, mpq=500000):
    sn = {}
    for j, i in enumerate(idx):
        st, al, oc = PITCHES[j]
        sn["s%d" % (j + 1)] = dict(step=st, alter=al, oct=oc, voice=1 + j % 2, staff=1 + j % 2, i=i)
    pn = {}
    for j in range(5):
        st, al, oc = PITCHES[(j + 3) % len(PITCHES)]
        pid = ("n%d" if version == "1.0.0" else "%d") % (j + 1)
        pn[pid] = dict(step=st, alter=al, oct=oc, on=100 + 150 * j, off=200 + 150 * j, vel=50 + j)
    return dict(version=version, ppq=ppq, mpq=mpq, ts=list(ts), ks=list(ks), snotes=sn, pnotes=pn, lines=[], pedal=[])


def gen_dupids(versions, names=None, rmax=4):
    """files with repeated ids: every subset of <= 4 lines (given and reversed order) of an 11-line alphabet over score
    ids {s1,s2} and performed ids {1,2,3}: matches sharing a score or a performed id, two textually different deletions
    of one score note, two different insertions of one performed note, an ornament; dialects 1.0.0 and 0.5.0 (all 7
    in the thorough tier)"""
    for version in versions:
        c0 = base_content(version, idx=(0, 1))
        p = sorted(c0["pnotes"])
        # names = (k1, k2): score note j is called like the performed note p[kj] (None: its own name sj), so that the
        # score and the performed ids share one namespace, as in files whose notes are numbered n1..nK on both sides
        s1, s2 = [("s%d" % (j + 1)) if k is None else p[k] for j, k in enumerate(names or (None, None))]
        c0["snotes"] = {s1: c0["snotes"]["s1"], s2: c0["snotes"]["s2"]}
        alpha = [["match", s1, p[0], 0], ["match", s1, p[1], 0], ["match", s2, p[0], 0],
                 ["deletion", s1, None, 0], ["deletion", s1, None, 1], ["deletion", s2, None, 0],
                 ["insertion", None, p[0], 0], ["insertion", None, p[0], 1], ["insertion", None, p[1], 0],
                 ["ornament", s1, p[2], 0], ["insertion", None, p[2], 0]]
        for r in range(1, rmax + 1):
            for sub in itertools.combinations(range(len(alpha)), r):
                ls = [alpha[k] for k in sub]
                if sum(1 for l in ls if l[2] == p[2]) > 1:
                    continue  # an id shared by an ornament and an insertion: the documentation does not say
                for rev in (False, True):
                    if rev and r == 1:
                        continue
                    c = copy.deepcopy(c0)
                    c["lines"] = ls[::-1] if rev else ls
                    yield dict(kind="text", content=c)
        # textually identical repetitions are one line
        for k in range(len(alpha)):
            c = copy.deepcopy(c0)
            c["lines"] = [alpha[0], alpha[k], alpha[k], alpha[5]]
            yield dict(kind="text", content=c)


def gen_dialects(full):
    """the same small content written in every historical dialect (1.0.0, 0.5.0, 0.4.0, 0.3.0, 0.2.0, 0.1.0, no version
    line): all line-kind assignments of 3 score notes x one optional extra performed line; 30 keys x 3 meters; spellings;
    clocks and pedals"""
    for version in VERSIONS:
        old = version != "1.0.0"
        skinds = ["match", "deletion"] + (["trailing_score", "no_played"] if old else [])
        xkinds = [None, "insertion", "ornament"] + (["hammer_bounce", "trailing_played"] if old else [])
        for idx in ((0, 1, 3), (2, 3, 4)):
            for ks3 in itertools.product(skinds, repeat=3):
                if "match" not in ks3:
                    continue
                for xk in xkinds:
                    c = base_content(version, idx=idx)
                    p = sorted(c["pnotes"])
                    pi = 0
                    for j, k in enumerate(ks3):
                        sid = "s%d" % (j + 1)
                        if k == "match":
                            c["lines"].append(["match", sid, p[pi], 0])
                            pi += 1
                        else:
                            c["lines"].append([k, sid, None, 0])
                    if xk == "ornament":
                        c["lines"].append(["ornament", "s2", p[4], 0])
                    elif xk:
                        c["lines"].append([xk, None, p[4], 0])
                    yield dict(kind="text", content=c)
        for ts in ((3, 4), (6, 8), (2, 2)):
            for mode in ("major", "minor"):
                for f in range(-7, 8):
                    c = base_content(version, ts=ts, ks=(f, mode))
                    p = sorted(c["pnotes"])
                    c["lines"] = [["match", "s1", p[0], 0], ["deletion", "s2", None, 0], ["match", "s3", p[1], 0]]
                    yield dict(kind="text", content=c)
        for st in STEPS:
            for al in (None, 1, -1, 2, -2):
                for oc in (1, 5):
                    c = base_content(version)
                    p = sorted(c["pnotes"])
                    c["snotes"]["s2"].update(step=st, alter=al, oct=oc)
                    c["pnotes"][p[1]].update(step=st, alter=al, oct=oc)
                    c["lines"] = [["match", "s1", p[0], 0], ["match", "s2", p[1], 0], ["insertion", None, p[2], 0]]
                    yield dict(kind="text", content=c)
        for ppq, mpq in CLOCKS:
            for pedal in ([], [["sustain", 0, 127]], [["soft", 3, 5], ["sustain", 3, 5], ["sustain", 9, 0]]):
                c = base_content(version, ppq=ppq, mpq=mpq)
                p = sorted(c["pnotes"])
                c["lines"] = [["match", "s1", p[0], 0], ["match", "s2", p[1], 0], ["ornament", "s2", p[2], 0]]
                c["pedal"] = pedal
                yield dict(kind="text", content=c)


SHARED_NAMES = [(a, b) for a in (None, 0, 1, 2, 3) for b in (None, 0, 1, 2, 3) if (a, b) != (None, None) and a != b]


def gen_dupids_shared(versions, rmax, namings=None):
    """the files of gen_dupids with score ids and performed ids drawn from ONE namespace: each of the two score notes is
    named like one of the performed notes of the file (the three that occur in the line alphabet or a fourth that occurs
    in no line) or keeps its own name; every injective naming with at least one shared name (%d namings); the documented
    resolution counts score ids and performed ids separately, so a repeated id of one kind must not touch a line of the
    other kind that carries the same string"""
    for names in (SHARED_NAMES if namings is None else namings):
        for case in gen_dupids(versions, names=names, rmax=rmax):
            case["names"] = list(names)
            yield case


gen_dupids_shared.__doc__ = gen_dupids_shared.__doc__ % len(SHARED_NAMES)


FIXTURES = ["Chopin_op10_no3_p01.match", "mozart_k265_var1.match", "test_fuer_elise.match"]


def gen_fixtures():
    for f in FIXTURES:
        for cs in (False, True):
            yield dict(kind="fixture", file=f, create_score=cs)


def with_block(gen_full, gen_core, B, seed):
    """core scope + the block seed % B of the remainder of the full scope"""
    def it():
        core = set()
        from mc.core import case_digest
        for c in gen_core():
            core.add(case_digest(c))
            yield c
        for c in gen_full():
            if case_digest(c) in core:
                continue
            if block_of(c, B) == seed % B:
                yield c
    return it


def spaces(tier, seed):
    thorough = tier == "thorough"
    sp = []
    b_rh = ("8 meters (4/4 3/4 2/4 6/8 3/8 2/2 5/8 9/8); every labelled composition (<=%d parts, note/rest) of one bar on the "
            "meter's unit grid in 3 layouts (first bar, middle bar, after a one-unit pickup)")
    if thorough:
        sp.append(Space("rhythm", lambda: gen_rhythm(False), True, b_rh % 3 + "; all notes matched"))
        sp.append(Space("rhythm-4parts", lambda: gen_rhythm(False, 4), True,
                        "the same layouts for the compositions into exactly 4 parts"))
        sp.append(Space("rhythm-pairs", lambda: gen_rhythm_pairs(), True,
                        "all ordered pairs [A|B] of <=3-part bars (8 meters, 14-86 patterns each)"))
        sp.append(Space("rhythm-triples", lambda: gen_rhythm_triples(), True,
                        "all ordered triples [A|B|C] of <=2-part bars, 8 meters"))
    else:
        sp.append(Space("rhythm", with_block(lambda: gen_rhythm_pairs(), lambda: gen_rhythm(False), 4, seed), True,
                        b_rh % 3 + ", complete; + block seed%4 of all ordered pairs of such bars (meters with <= 90 patterns)"))
    sp.append(Space("ties", lambda: gen_ties(True, thorough), True,
                    "5 meters%s, 3 bars, every (start,end) of a long note on the unit grid, written split at the barlines or "
                    "unsplit, other voice with a head in every bar or none in bar 2" % (" + 5/8, 9/8" if thorough else "")))
    sp.append(Space("tuplets", lambda: gen_tuplets(thorough), True,
                    "one 2/4 bar on the grid of divs 3, 5, 6%s: every labelled composition (<=3 parts), 2 layouts"
                    % (", 12" if thorough else "")))
    sp.append(Space("pickups", lambda: gen_pickups(thorough), True,
                    "8 meters, anacrusis of every length on the unit grid with one or two notes (first at the measure start), "
                    "followed by 3-5 bar contents and a full bar"))
    sp.append(Space("tsig", lambda: gen_tsig(thorough), True,
                    "all 64 ordered meter pairs as a change at bar 2, with/without pickup, 3-5 contents of the changed "
                    "bar; double changes over %d meters" % (8 if thorough else 4)))
    sp.append(Space("gaps", lambda: gen_gaps(thorough), True,
                    "bars without a note line next to signature changes: note bar | k=1..%d empty bars | bar with a (new or "
                    "repeated) time signature | full bar, all 64 ordered meter pairs, with/without one-unit pickup, 3-5 contents "
                    "of the bar after the gap, gap empty / covered by a tie chain ending with the gap / ending one bar later, "
                    "optional key change after the gap; gap between two changes (m0|m1|gap|m2, %d meters, k=1..2); two gaps "
                    "with a change after each (4 meters)" % ((3, 8) if thorough else (2, 4))))
    sp.append(Space("ksig", lambda: gen_ksig(thorough), True,
                    "45 keys at the start (2 layouts); 132 ordered key pairs x {4/4,6/8} x pickup x {note-led, rest-led} "
                    "bar; key+time changes in same/different bars over 5 meters; late/redundant/returning keys; "
                    "triplet-led bars with divs 3, 6, 12"))
    sp.append(Space("attrs", lambda: gen_attrs(thorough), True,
                    "7 steps x 6 alters x 3 octaves x 4 (voice,staff); 16 articulation subsets x {match,deletion} x fingering"))
    sp.append(Space("voices", lambda: gen_voices(thorough), True,
                    "voice and staff numbers of 1-4 digits: note with voice in {%s, 199, 200, 255, 999, 1000, 1001} x staff 1..9 x "
                    "matched/deleted; two layers with all ordered pairs of distinct voices over {1,2,9,10,11,12,20,100} x 5 kinds of "
                    "the second layer (plain, chord, chain tied over the barline, grace + main note, articulations + fingering) x "
                    "matched/deleted; parts numbered the MusicXML way (4 voices per staff), first k voices for k = 1..%d, all matched / "
                    "every other deleted; hand-written files of 7 dialects x 14 voice numbers (1..1000) x staff {1,2,9} x "
                    "match/deletion line. Staves stay below 10 (a staff number of two digits is read back as its last digit on "
                    "the current tree: proposed_fixes/C08-s-staff-number-digits.diff)"
                    % (("1..130", 36) if thorough else ("1..24, 29, 30, 31, 40, 50, 90, 99, 100, 101, 109, 110, 111, 120", 16))))
    sp.append(Space("chords", lambda: gen_chords(thorough), True,
                    "2-3 simultaneous notes, durations {1,2,4 quarters}^3, 2 onsets, equal/different pitch, match/deletion; "
                    "1-2 grace notes at 3 positions, with/without pickup, all label assignments"))
    b_gr = ("three consecutive regular notes in two 4/4 bars, 0-2 grace notes before each (%s), optional second regular note "
            "(other voice) sounding with the 1st/2nd/3rd; every score note (regular, grace, partner) a match or a deletion: all "
            "assignments with >= 1 matched regular note; deleted notes' performed notes are insertions%s")
    if thorough:
        sp.append(Space("graces", lambda: gen_graces(True), True,
                        b_gr % ("1-3 grace notes in all", "; one more dimension at a time: those performed notes absent / a one-unit pickup / alignment list reversed")))
    else:
        sp.append(Space("graces", with_block(lambda: gen_graces(False), lambda: gen_graces(False, core=True), 3, seed), True,
                        b_gr % ("1-2 grace notes in all, or one before every note", "") + "; complete without partner and for "
                        "one grace note with partner, + block seed%3 of the rest"))
    sp.append(Space("labels", lambda: gen_labels(True), True,
                    "k in 2..4 score notes, all {match,deletion}^k with >=1 match, 0-2 extra performed notes each an "
                    "insertion or an ornament of any score note, 2 placements, list order fwd/rev, id prefix n/p"))
    sp.append(Space("clock", lambda: gen_clock(True), True,
                    "7 (ppq,mpq) pairs x 3 time sets (grid, exact seconds off the grid, exact half ticks) x every pedal stream "
                    "of length 0-3 over 10 events (numbers 64/67/66, on and off the tick grid) for the grid set, the first 31 "
                    "streams otherwise; exporter defaults"))
    sp.append(Space("pedal-order", lambda: gen_pedal_order(thorough), True,
                    "several events of one pedal on one tick: streams of 1-2 time points (ticks 7, 961), each with 1-3 distinct "
                    "values of {0,64,127} in every order, >= 1 time point with several values (228 streams) x {sustain, soft, "
                    "both interleaved} x events of a time point at equal times / at increasing times inside the tick x clock; "
                    + ("full product over 7 clocks" if thorough else
                       "all streams at equal times with 480/500000; the 12 one-point streams also at different times and "
                       "with 384/600000")))
    sp.append(Space("clock-large", lambda: gen_clock_large(thorough), True,
                    "magnitude dimension of clock: 4 time sets (grid 3 notes, grid 6 notes, exact thirds/sevenths of a second, "
                    "exact half ticks) with every note and pedal time shifted by %d offsets (2**22+1, 2**23+5, 2**24+1, 2**25+3, "
                    "2**26+1, 2**27+7, 2**28+1, 2**30+1%s ticks; below 2**31, the int32 tick column of the performance note "
                    "array) x 7 clocks x pedals {none, 3 events}" % ((16, "; 3*2**k+1 for k=21..28") if thorough else (8, ""))))
    if thorough:
        sp.append(Space("clock-all", lambda: gen_clock(True, all_streams=True), True,
                        "as clock, but every pedal stream (length 0-3 over 10 events) for all 3 time sets and all 7 clocks"))
        sp.append(Space("labels-5", lambda: gen_labels(True, ks=(5,), max_extra=1), True,
                        "5 score notes: all {match,deletion}^5 with >=1 match x 0-1 extra performed note"))
    sp.append(Space("options", lambda: gen_options(thorough), True,
                    "3 call forms x assume_unfolded x 2 scores x 3 alignment variants"))
    sp.append(Space("resave", lambda: gen_resave(thorough), True,
                    "performed parts whose notes carry tick counts (note_on_tick/note_off_tick), saved with another clock: %d "
                    "source clocks x %d requested clocks (same ppq other mpq, both equal, both different, exporter defaults) x 2 "
                    "note-time sets x 3 pedal streams%s x {hand-built with both / only the onset tick field x declared clock "
                    "source / (ppq_s, 500000) / requested; part returned by load_match; part returned by load_performance_midi}"
                    % ((7, 8, "") if thorough else (5, 6, " (hand-built: the empty and the 3-event stream)"))))
    sp.append(Space("reuse", lambda: gen_reuse(thorough), True,
                    "one parsed MatchFile queried repeatedly: every sequence of 1..%d operations over {performed part, "
                    "performed part with first_note_at_zero, score part, alignment, write+reload}, every result compared with "
                    "the saved data; fresh load_match with/without first_note_at_zero; bases: earliest onset tick {0,7,960} x "
                    "%d clocks x pedals {none, 3 events}%s" % ((4, 3, "") if thorough else (3, 2, "; length-3 sequences for the bases with pedals"))))
    b_dup = ("hand-written files (independent writer): every subset of <=4 of 11 note lines with shared ids, both orders, "
             "textual repetitions; dialects ")
    if thorough:
        sp.append(Space("dupids", lambda: gen_dupids(VERSIONS), True, b_dup + "all 7"))
    else:
        extra = [v for v in VERSIONS if v not in ("1.0.0", "0.5.0")][seed % 5]
        sp.append(Space("dupids", lambda: gen_dupids(["1.0.0", "0.5.0", extra]), True, b_dup + "1.0.0, 0.5.0 and %s (seed%%5)" % extra))
    b_sh = ("the dupids files with score and performed ids in one namespace: each of the 2 score notes named like one of 4 "
            "performed notes of the file (3 used in the line alphabet, 1 unused) or by its own name, all %d injective namings "
            "with >=1 shared name x every subset of <=%d of the 11 note lines, both orders, textual repetitions; score ids "
            "and performed ids are counted separately by the documented resolution; dialects ")
    if thorough:
        sp.append(Space("dupids-shared", lambda: itertools.chain(gen_dupids_shared(["1.0.0"], 4), gen_dupids_shared(VERSIONS[1:], 3)), True,
                        b_sh % (len(SHARED_NAMES), 4) + "1.0.0; subsets of <=3 lines for the 6 older dialects"))
    else:
        used = [nm for nm in SHARED_NAMES if 3 not in nm]  # names that occur in the line alphabet
        both = [nm for nm in used if None not in nm]  # both score notes share a name with a performed note
        sp.append(Space("dupids-shared", lambda: itertools.chain(gen_dupids_shared(["1.0.0"], 3, used),
                                                                 gen_dupids_shared([extra], 3, both)), True,
                        "quick: subsets of <=3 lines, the %d namings over the 3 performed names used in lines for 1.0.0 and the %d "
                        "namings with both score names shared for %s (seed%%5); thorough scope: " % (len(used), len(both), extra)
                        + b_sh % (len(SHARED_NAMES), 4) + "1.0.0; subsets of <=3 lines for the 6 older dialects"))
    sp.append(Space("dialects", lambda: gen_dialects(thorough), True,
                    "hand-written files in 7 dialects: all line kinds of 3 score notes x optional extra line x 2 placements; "
                    "30 keys x 3 meters; 70 spellings; 7 clocks x 3 pedal streams"))
    sp.append(Space("fixtures", lambda: gen_fixtures(), True,
                    "the 3 fixture match files of the repository (1.0.0, 1.0.0, 0.4.0), with and without score"))
    return sp


def _bar_without_note_line(case, violation=None):
    """some bar of the score holds no head of a written (matched or deleted) score note"""
    if not isinstance(case, dict) or "score" not in case:
        return False
    sc = case["score"]
    written = {a[1] for a in case["align"] if a[0] in ("match", "deletion")}
    heads = [h for h, _, _ in M.chains(sc) if h["id"] in written]
    for b in M.bar_table(sc):
        if not any(b["start"] <= h["s"] < b["end"] for h in heads):
            return True
    return False


TRIGGERS = {"bar_without_note_line": _bar_without_note_line}

if __name__ == "__main__":
    import checks.c08 as _m

    run_check(_m)
