"""C15 - merging parts keeps every note at the same musical time in disjoint voices.

Bounded-exhaustive enumeration of small scores (2-3 parts, every container shape, the three
reassign modes, divisions pairs/triples whose lcm exceeds all of them) against an exact reference
model written over the abstract part descriptions of mc/ir.py (mc/c15_model.py).  The real
`partitura.score.merge_parts` and the score-level `note_array` are executed on every case, on
freshly built inputs (merging is documented to consume its input).

Clauses (each names the sentence of the statement that licenses it)
  merge                 merge_parts returns (no exception) for every input of the quantifier
  divisions             "rescaled to the least common multiple of the parts' divisions": the merged
                        part has the single divisions value lcm, in its quarter table, in
                        quarter_durations() and at every time point
  registration          "yields a part that contains": every element is registered at the point its
                        start/end refers to, and the points belong to the merged part
  elements-present      "contains every note, rest and non-structural element of every input at the
                        same musical time" (class, content, start and end in quarters)
  structural-first-only "measures, signatures and the other structural elements listed in the
                        documentation come from the first part only"
  elements-extra        nothing else appears in the merged part
  voice-/staff-disjoint "notes from different inputs never share a voice (staff)"
  voice-/staff-shared   "notes that shared one still do"
  voice-/staff-distinct a renumbering keeps apart what was apart inside one input
  merged-note-array     onset, duration (divisions and quarters), pitch, voice and staff columns of
                        the merged part's note array against the reference
  score-note-array      the score-level note array against the reference
  sounding-equal        "the sounding notes of the merged part equal those of the score-level note
                        array" (direct comparison of the two arrays)
  single-identity/-unchanged  "A single part (or a group or list holding one) is returned as is"
  parts-order           "flattening of groups and scores" (anchor): Score.parts / iter_parts hand out the
                        parts of a nested container depth-first, so that "the first part" is the first
                        part of the score (evaluated on every multi-part case; sub-space
                        `container-trees` enumerates every nesting of groups)
Sub-space `part-identities` merges parts that share their id and/or their name and abbreviation in every
possible way (the parts of separately built or loaded scores are all called "P1"): the inputs of the statement
are the parts at their positions in the list, whatever they are called.
Sub-space `edited-scores` hands merge_parts the Score object itself after the score's flat part list was
changed following construction (public item assignment `score[i] = part`, in-place edits of the documented list
`score.parts`, assignment of a new list): every edit history to depth 2 over set / append / insert / delete /
swap.  "The parts of a score" are then the parts it currently holds (Score.parts - what the score-level note
array, len(), indexing and iteration read), not the parts it was constructed with.
Sub-spaces `magnitude-divisions`, `magnitude-ticks` and `long-timelines` add a magnitude dimension to the small
families: divisions of several hundred to 65537 (lcm up to 4e7), content shifted 16 and 1000 quarters from the
start, single notes at ticks multiplied by up to 10080 and shifted beyond 2**16 and 2**24, and a regular pattern over
6 (thorough: up to 64) measures - "positions and durations rescaled to the least common multiple" has to hold
wherever the result is representable (all merged positions below 2**31).
The convenience loader `load_score_as_part` (anchor) is run on written MusicXML files in sub-spaces
`loader` and `loader-noteless` with the divisions, registration, voice and note-array clauses and with
elements-present restricted to notes, rests and unpitched notes (identified by id).
"""
import itertools
import re
from collections import Counter
from fractions import Fraction

import numpy as np

from mc.core import CaseResult, Space, run_check, guarded, block_of
from mc import c15_model as M
from mc.c15_model import note, rest, part_spec, STEPS, MODES, SHAPES_N, lcm_all, pdivs

PID = "C15"
RULE = (
    "every case is one (container shape, reassign mode, list of part descriptions) triple; cases of a "
    "sub-space are the full product of the stated alphabets (cycled coordinates are named in the "
    "bounds); non-trivial = at least two parts with at least one sounding note in two of them, or a "
    "single-part input (identity clause)"
)
ASSUMPTIONS = [
    "musical time of a timeline position t of a part with divisions d is t/d quarters from position 0; all "
    "generated parts start their first measure at 0 with a complete measure (or have no measures), so "
    "no pickup shift enters the quarter columns",
    "'notes' in the voice/staff clauses are pitched notes and grace notes; a rest or unpitched note takes "
    "part in the clauses only if its voice (staff) is also used by a pitched note of the same part",
    "in 'auto' mode both voices and staves are required to be disjoint across inputs (docstring: unique "
    "staff and voice numbers); in 'voice' mode only voices, in 'staff' mode only staves",
    "a renumbering is read as injective inside one input (notes of one input that did not share a voice "
    "(staff) still do not)",
    "Clef is listed as first-part-only in the docstring but kept for later parts by the code in staff/auto "
    "mode: both accepted there; DaCapo, Fine, Fermata, Ending and Tempo of later parts are dropped by the "
    "code without being documented: both accepted; of the first part they must be kept",
    "staff/voice numbers of non-note elements (Words, Direction, Clef) are not compared",
    "TimePoint.quarter of the merged part must equal the lcm (it is the divisions value the time point "
    "reports and the MusicXML exporter and symbolic-duration estimator read)",
    "float32 columns are compared within 1e-6 relative; integer columns exactly",
    "the division columns of the note arrays are 32-bit signed integers (documented dtype '<i4'): the magnitude "
    "sub-spaces generate only inputs whose merged positions (input position x lcm / divisions) and whose lcm stay below "
    "2**31; input positions, divisions and the merged positions themselves are Python ints of any size below that, so "
    "products such as position x lcm (up to 4e12) exceed 32 bits in the generated cases",
    "mc/ir.py builder (public construction API) is trusted to build what the description says",
    "'the first part' and the order of 'the parts of a score' are the depth-first order of the part/group "
    "tree (docstring of iter_parts: groups 'are traversed in a depth-first fashion'; Score.parts is built by it)",
    "'the parts of a score' are the Part objects of its documented attribute Score.parts ('All Part objects') at the "
    "time of the call: Score.__getitem__/__setitem__/__iter__/__len__ and Score.note_array (the score-level note array "
    "the statement compares with) all read it; Score.part_structure (the grouping the score was constructed with, "
    "which Score.__setitem__ does not update) does not decide which parts are merged.  Scores holding the same Part "
    "twice, and groups whose children were changed after the Score was built, are not generated",
    "the MusicXML exporter/importer pair is trusted to keep ids, classes, voices and times of notes, rests and "
    "unpitched notes and the <divisions> of every part of the generated files (complete 4/4 measures)",
]
CHUNK = 8

_ID_PREFIX = re.compile(r"^(P\d\d_)+")


# ---------------------------------------------------------------------------------------------
# observation of real objects


def _i(x):
    return None if x is None else int(x)


def obs_content(o):
    n = type(o).__name__
    if n in ("Note", "GraceNote"):
        return (o.id, o.step, _i(o.alter) or 0, _i(o.octave))
    if n == "UnpitchedNote":
        return (o.id, o.step, _i(o.octave))
    if n == "Rest":
        return (o.id,)
    if n == "Measure":
        return (o.number,)
    if n == "TimeSignature":
        return (_i(o.beats), _i(o.beat_type))
    if n == "KeySignature":
        return (_i(o.fifths), o.mode)
    if n == "Clef":
        return (o.sign, _i(o.line), _i(o.octave_change))
    if n in ("Page", "System"):
        return (_i(o.number),)
    if n == "Barline":
        return (o.style,)
    if n in ("Slur", "Tuplet"):
        a, b = o.start_note, o.end_note
        return (None if a is None else a.id, None if b is None else b.id)
    if n in ("Words",) or hasattr(o, "raw_text"):
        return (o.text,)
    if n == "Tempo":
        return (_i(o.bpm) if float(o.bpm) == int(o.bpm) else float(o.bpm),)
    if n == "Ending":
        return (_i(o.number),)
    if n == "Fermata":
        return (None if o.ref is None else o.ref.id,)
    return ()


def fmt_item(it):
    cls, content, sq, eq = it
    return "%s%s@%s..%s" % (cls, list(content), sq, eq)


STRUCT_CLASSES = {M.CLASS_OF[k] for k in M.FIRST_ONLY} | {"Clef"} | {M.CLASS_OF[k] for k in M.CODE_ONLY_DISCARD}


def check_registration(res, merged):
    """every object reachable from the point registries is registered where its start/end says"""
    pts = list(merged._points)
    pid = {id(tp) for tp in pts}
    bad = []
    ts = [int(tp.t) for tp in pts]
    if ts != sorted(set(ts)):
        bad.append("points not strictly increasing: %s" % ts[:12])
    started = {}
    for tp in pts:
        for cls, oo in tp.starting_objects.items():
            for o in oo:
                if o.start is not tp:
                    bad.append("%s listed as starting at %s but start=%s" % (type(o).__name__, tp.t, getattr(o.start, "t", None)))
                started[id(o)] = o
    for tp in pts:
        for cls, oo in tp.ending_objects.items():
            for o in oo:
                if o.end is not tp:
                    bad.append("%s listed as ending at %s but end=%s" % (type(o).__name__, tp.t, getattr(o.end, "t", None)))
                if id(o) not in started:
                    bad.append("%s ends at %s without starting in the part" % (type(o).__name__, tp.t))
    for o in started.values():
        if o.end is not None:
            if id(o.end) not in pid:
                bad.append("%s end point t=%s is not a point of the merged part" % (type(o).__name__, o.end.t))
            elif not any(o is x for x in o.end.ending_objects.get(type(o), [])):
                bad.append("%s not listed among the objects ending at its end t=%s" % (type(o).__name__, o.end.t))
    if bad:
        res.fail("registration", expected="consistent registries", observed=bad[:4], where="merge_parts: time points")
    return list(started.values())


def check_relation(res, case, attr, gobjs):
    """voice (or staff) classes: injective per input, disjoint across inputs"""
    gn = M.generic_notes(case)
    col = 3 if attr == "voice" else 4
    used = {(g[0], g[col]) for g in gn if g[2] in M.NOTE_KINDS}
    fwd = {}
    for g in gn:
        key = (g[0], g[col])
        if key not in used:
            continue
        o = gobjs.get(g[1])
        if o is None:
            continue  # reported by elements-present
        new = getattr(o, attr)
        if new is None:
            new = 1 if attr == "staff" else "None"
        else:
            new = int(new)
        fwd.setdefault(key, {}).setdefault(new, []).append(g[1])
    ok = True
    for key in sorted(fwd):
        if len(fwd[key]) > 1:
            ok = False
            res.fail("%s-shared" % attr, expected="part %d %s %s -> one %s" % (key[0], attr, key[1], attr),
                     observed={str(k): v for k, v in sorted(fwd[key].items(), key=lambda kv: str(kv[0]))},
                     where="merge_parts: %s numbers" % attr, detail="mode=%s" % case["mode"])
    inv = {}
    for key in sorted(fwd):
        for new in fwd[key]:
            inv.setdefault(new, []).append(key)
    for new in sorted(inv, key=str):
        keys = inv[new]
        if len(keys) > 1:
            ok = False
            nparts = len({k[0] for k in keys})
            clause = "%s-disjoint" % attr if nparts > 1 else "%s-distinct" % attr
            res.fail(clause, expected="different %s numbers" % attr,
                     observed="%s %s shared by (part, original %s) %s" % (attr, new, attr, keys),
                     where="merge_parts: %s numbers" % attr, detail="mode=%s" % case["mode"])
    return ok


def close32(obs, ref):
    r = float(ref)
    return abs(float(obs) - r) <= 1e-6 * max(1.0, abs(r))


def check_merged(res, case, merged, S, stats, elements=True):
    parts = case["parts"]
    mode = case["mode"]
    L = lcm_all([pdivs(p) for p in parts])
    if not isinstance(merged, S.Part):
        res.fail("merge", expected="a Part", observed=type(merged).__name__, where="merge_parts")
        return None

    # --- divisions
    qd = [int(x) for x in merged._quarter_durations]
    qt = [int(x) for x in merged._quarter_times]
    tpq = sorted({_i(tp.quarter) for tp in merged._points})
    ok, qds = guarded(res, "divisions", lambda: [[int(a), int(b)] for a, b in merged.quarter_durations()])
    obs = {"table": [qt, qd], "quarter_durations()": qds, "TimePoint.quarter": tpq}
    good = qd == [L] and (ok and [r[1] for r in qds] == [L]) and (tpq in ([L], []))
    if not good:
        res.fail("divisions", expected="single divisions value %d everywhere" % L, observed=obs,
                 where="merge_parts: divisions", detail="input divisions %s" % [pdivs(p) for p in parts])

    # --- registration and element table
    objs = check_registration(res, merged)
    if not elements:  # (a part read back from a file: the element table is the importer's business,
        # except for the notes, rests and unpitched notes, which keep their ids in the file)
        check_generic_present(res, case, objs, S, L)
        return check_notes(res, case, merged, S, objs, L)
    # public view, class by class (iter_all() without a class enumerates every subclass of object per point)
    classes = sorted({type(o) for o in objs}, key=lambda c: c.__name__)
    ok, pub = guarded(res, "registration", lambda: [o for c in classes for o in merged.iter_all(c)])
    if ok and Counter(id(o) for o in pub) != Counter(id(o) for o in objs):
        res.fail("registration", expected="%d objects in the registries" % len(objs),
                 observed="%d objects from iter_all(cls)" % len(pub), where="merge_parts: iter_all")
    observed = Counter()
    for o in objs:
        sq = Fraction(int(o.start.t), L)
        eq = None if o.end is None else Fraction(int(o.end.t), L)
        observed[(type(o).__name__, obs_content(o), sq, eq)] += 1
    must, may = M.expected_elements(case)
    cm, cy = Counter(must), Counter(may)
    missing = cm - observed
    if missing:
        res.fail("elements-present", expected=sorted(fmt_item(x) for x in missing.elements())[:6],
                 observed=sorted(fmt_item(x) for x in (observed - cm).elements())[:6] or "absent",
                 where="merge_parts: elements", detail="missing from the merged part (times in quarters); mode=%s" % mode)
    extra = (observed - cm) - cy
    if extra:
        ex_struct = [x for x in extra.elements() if x[0] in STRUCT_CLASSES]
        ex_other = [x for x in extra.elements() if x[0] not in STRUCT_CLASSES]
        if ex_struct and not missing:
            res.fail("structural-first-only", expected="only the first part's %s" % sorted({x[0] for x in ex_struct}),
                     observed=sorted(fmt_item(x) for x in ex_struct)[:6], where="merge_parts: structural elements",
                     detail="mode=%s" % mode)
        if ex_other and not missing:
            res.fail("elements-extra", expected="no further elements", observed=sorted(fmt_item(x) for x in ex_other)[:6],
                     where="merge_parts: elements", detail="mode=%s" % mode)
    stats["elements"] = sum(observed.values())
    return check_notes(res, case, merged, S, objs, L)


def check_generic_present(res, case, objs, S, L):
    """every note, grace note, rest and unpitched note of every input is in the merged part, with its class, at
    its musical time (used for parts read back from a file)"""
    got = Counter()
    for o in objs:
        if isinstance(o, S.GenericNote):
            got[(type(o).__name__, (o.id,), Fraction(int(o.start.t), L), Fraction(int(o.end.t), L))] += 1
    exp = Counter()
    for part in case["parts"]:
        d = pdivs(part)
        for o in part["objs"]:
            if o["k"] in M.GN_KINDS:
                exp[(M.CLASS_OF[o["k"]], (o["id"],), Fraction(o["s"], d), Fraction(o["e"], d))] += 1
    missing = exp - got
    if missing:
        res.fail("elements-present", expected=sorted(fmt_item(x) for x in missing.elements())[:6],
                 observed=sorted(fmt_item(x) for x in (got - exp).elements())[:6] or "absent",
                 where="load_score_as_part: notes and rests",
                 detail="missing from the merged part (times in quarters); input divisions %s" % [pdivs(p) for p in case["parts"]])


def check_order(res, case, arg, S, built=None):
    """depth-first flattening of the container: iter_parts (lists, tuples, groups) and Score.parts.
    Returns a Score (or the PartGroup) holding the structure, for the score-level note array.
    `built` = the Part objects in list order: the flattening is then also compared by object (parts may
    share their ids)."""
    exp = [p["id"] for p in case["parts"]]

    def same(got_parts):
        if [p.id for p in got_parts] != exp:
            return False
        return built is None or (len(got_parts) == len(built) and all(a is b for a, b in zip(got_parts, built)))

    def show(got_parts):
        if built is None or [p.id for p in got_parts] != exp:
            return [p.id for p in got_parts]
        pos = {id(b): i for i, b in enumerate(built)}
        return ["input %s" % pos.get(id(p), "?") for p in got_parts]

    holder = arg
    if not isinstance(arg, S.Score):
        ok, got = guarded(res, "parts-order", lambda: list(S.iter_parts(arg)))
        if ok and not same(got):
            res.fail("parts-order", expected=exp, observed=show(got), where="iter_parts", detail="shape=%s" % case["shape"])
        if not isinstance(arg, S.PartGroup):
            ok, holder = guarded(res, "parts-order", lambda: S.Score(arg, id="sc"))
            if not ok:
                return None
    if isinstance(holder, S.Score):
        got = list(holder.parts)
        if not same(got):
            res.fail("parts-order", expected=exp, observed=show(got), where="Score.parts", detail="shape=%s" % case["shape"])
        if "edits" in case:  # the other public views of the flat part list
            for name, fn in (("Score.__iter__", lambda: list(holder)),
                             ("Score.__getitem__", lambda: [holder[i] for i in range(len(holder))])):
                ok, got = guarded(res, "parts-order", fn)
                if ok and not same(got):
                    res.fail("parts-order", expected=exp, observed=show(got), where=name, detail="shape=%s" % case["shape"])
    return holder


def check_notes(res, case, merged, S, objs, L):
    parts = case["parts"]
    mode = case["mode"]
    # --- voices / staves
    gobjs = {}
    for o in objs:
        if isinstance(o, S.GenericNote):
            gobjs[o.id] = o
    if mode in ("voice", "auto"):
        check_relation(res, case, "voice", gobjs)
    if mode in ("staff", "auto"):
        check_relation(res, case, "staff", gobjs)

    # --- note array of the merged part
    ref = M.sounding_rows(case)
    origin_m = min(first_quarter(p) for p in parts)
    ok, na = guarded(res, "merged-note-array", merged.note_array, include_staff=True)
    rows = None
    if ok:
        rows = {}
        dup = False
        for r in na:
            if str(r["id"]) in rows:
                dup = True
            rows[str(r["id"])] = r
        if dup or sorted(rows) != sorted(ref):
            res.fail("merged-note-array", expected=sorted(ref), observed=sorted(str(r["id"]) for r in na),
                     where="merge_parts: note array", detail="ids of the sounding notes")
        else:
            bad = []
            for nid in sorted(ref):
                pi, on, du, pitch, v, st = ref[nid]
                r = rows[nid]
                exp = (int(on * L), int(du * L), pitch)
                got = (int(r["onset_div"]), int(r["duration_div"]), int(r["pitch"]))
                if exp != got or not close32(r["onset_quarter"], on - origin_m) or not close32(r["duration_quarter"], du):
                    bad.append((nid, "expected (onset_div, duration_div, pitch, onset_q, duration_q)",
                                list(exp) + [str(on - origin_m), str(du)], "observed",
                                list(got) + [float(r["onset_quarter"]), float(r["duration_quarter"])]))
                o = gobjs.get(nid)
                if o is not None:
                    ov = o.voice
                    os_ = o.staff
                    if ov is not None and int(r["voice"]) != int(ov):
                        bad.append((nid, "voice column", int(r["voice"]), "object voice", int(ov)))
                    # (how a missing staff is shown in the array is not this property's business)
                    if (int(r["staff"]) != int(os_)) if os_ is not None else (int(r["staff"]) not in (0, 1)):
                        bad.append((nid, "staff column", int(r["staff"]), "object staff", _i(os_)))
            if bad:
                res.fail("merged-note-array", expected="reference rows at lcm %d" % L, observed=bad[:4],
                         where="merge_parts: note array", detail="mode=%s divisions=%s" % (mode, [pdivs(p) for p in parts]))
    return rows


def first_quarter(part):
    """musical time (quarters from timeline 0) of the first time point of a part spec: the time maps put
    their zero there (C02: 'zero lies ... at the first time point'; all generated first measures are complete)"""
    ts = [o[k] for o in part["objs"] for k in ("s", "e") if o.get(k) is not None]
    return Fraction(min(ts), pdivs(part)) if ts else Fraction(0)


def check_score_array(res, case, sna, merged_rows):
    parts = case["parts"]
    ref = M.sounding_rows(case)
    with_notes = sorted({v[0] for v in ref.values()})
    Ln = lcm_all([pdivs(parts[i]) for i in with_notes]) if with_notes else 1
    L = lcm_all([pdivs(p) for p in parts])
    rows = {}
    for r in sna:
        rows.setdefault(_ID_PREFIX.sub("", str(r["id"])), []).append(r)
    if sorted(rows) != sorted(ref) or any(len(v) != 1 for v in rows.values()):
        res.fail("score-note-array", expected=sorted(ref), observed=sorted(str(r["id"]) for r in sna),
                 where="note_array_from_part_list", detail="ids of the sounding notes")
        return
    # common unit of the division columns: the lcm of the parts that have notes (what the code does)
    # or the lcm of all parts -- one of them, for all rows
    bad = None
    for U in ([Ln] if Ln == L else [Ln, L]):
        cur = []
        for nid in sorted(ref):
            pi, on, du, pitch, v, st = ref[nid]
            r = rows[nid][0]
            exp = (int(on * U), int(du * U), pitch, U)
            got = (int(r["onset_div"]), int(r["duration_div"]), int(r["pitch"]), int(r["divs_pq"]))
            org = first_quarter(parts[pi])
            if exp != got or not close32(r["onset_quarter"], on - org) or not close32(r["duration_quarter"], du):
                cur.append((nid, "expected (onset_div, duration_div, pitch, divs_pq, onset_q, duration_q)",
                            list(exp) + [str(on - org), str(du)], "observed",
                            list(got) + [float(r["onset_quarter"]), float(r["duration_quarter"])]))
        if not cur:
            bad = None
            break
        if bad is None:
            bad = cur
    if bad:
        res.fail("score-note-array", expected="reference rows at lcm %d" % Ln, observed=bad[:4],
                 where="note_array_from_part_list", detail="divisions=%s" % [pdivs(p) for p in parts])
    if merged_rows is not None and sorted(merged_rows) == sorted(rows):
        diff = []
        for nid in sorted(rows):
            a, b = merged_rows[nid], rows[nid][0]
            ka = (float(a["onset_quarter"]), float(a["duration_quarter"]), int(a["pitch"]))
            kb = (float(b["onset_quarter"]), float(b["duration_quarter"]), int(b["pitch"]))
            # quarter onsets are measured from each container's own first time point: comparable only
            # when every part starts where the merged part starts
            same_origin = len({first_quarter(p) for p in parts}) == 1
            same = (close32(ka[0], kb[0]) or not same_origin) and close32(ka[1], kb[1]) and ka[2] == kb[2]
            if int(b["divs_pq"]) == L:
                same = same and int(a["onset_div"]) == int(b["onset_div"]) and int(a["duration_div"]) == int(b["duration_div"])
            if not same:
                diff.append((nid, "merged", [int(a["onset_div"]), int(a["duration_div"])] + list(ka),
                             "score-level", [int(b["onset_div"]), int(b["duration_div"])] + list(kb)))
        if diff:
            res.fail("sounding-equal", expected="equal sounding notes", observed=diff[:4],
                     where="merge_parts vs note_array_from_part_list")


# ---------------------------------------------------------------------------------------------


def build_arg(case, res, S, build_part):
    """(argument for merge_parts, the Part objects it holds in order) built fresh from the case description;
    (None, None) if an edit of sub-space `edited-scores` raised"""
    if "edits" not in case:
        parts = [build_part(p) for p in case["parts"]]
        return M.make_container(case["shape"], parts, S), parts
    pool = [build_part(p) for p in case["pool"]]
    score = M.make_container(case["shape"].split(":", 1)[1], [pool[i] for i in case["init"]], S)
    if case["pre"]:
        # the score is read before it is edited (nothing may be remembered from it)
        if len(case["init"]) > 1:
            guarded(res, "score-note-array", score.note_array)
        guarded(res, "parts-order", lambda: (len(score), list(score)))
        res.transitions += 1
    for e in case["edits"]:
        ok, _ = guarded(res, "parts-order", M.do_edit, score, e["op"], e["how"], pool)
        res.transitions += 1
        if not ok:
            return None, None
    return score, [pool[i] for i in case["final"]]


def eval_single(case, res):
    import partitura.score as S
    from mc.ir import build_part
    from mc.fingerprint import fp_part, diff

    arg, parts = build_arg(case, res, S, build_part)
    if arg is None:
        res.outcome = "single:edit-exception"
        return res
    part = parts[0]
    fp0 = fp_part(part)
    ok, out = guarded(res, "merge", S.merge_parts, arg, case["mode"])
    res.transitions += 1
    if not ok:
        res.outcome = "single:exception"
        return res
    if out is not part:
        res.fail("single-identity", expected="the input part itself",
                 observed=type(out).__name__ if "edits" not in case or not isinstance(out, S.Part) else
                 "another Part (id %s, %d notes)" % (out.id, len(out.notes)),
                 where="merge_parts: single part", detail="shape=%s mode=%s" % (case["shape"], case["mode"]))
    fp1 = fp_part(part)
    if fp1 != fp0:
        res.fail("single-unchanged", expected="unchanged part", observed=diff(fp0, fp1)[:3],
                 where="merge_parts: single part", detail="shape=%s mode=%s" % (case["shape"], case["mode"]))
    res.outcome = "single:%s:%s" % (case["shape"] if "edits" not in case else "edited", "same" if out is part else "other")
    res.nontrivial = True
    return res


def eval_loader(case, res):
    """load_score_as_part: the score is written as MusicXML (one <divisions> per part), read back and merged
    by the convenience loader (default mode 'voice'); notes are identified by their ids"""
    import os
    import shutil
    import tempfile

    import partitura
    import partitura.score as S
    from mc.ir import build_part

    score = S.Score([build_part(p) for p in case["parts"]], id="sc")
    tmp = tempfile.mkdtemp(prefix="c15-")
    try:
        fn = os.path.join(tmp, "s.musicxml")
        ok, _ = guarded(res, "loader-export", partitura.save_musicxml, score, fn)
        res.transitions = 1
        if not ok:
            res.outcome = "loader:export-exception"
            return res
        ok, merged = guarded(res, "merge", partitura.load_score_as_part, fn)
        res.transitions += 1
    finally:
        shutil.rmtree(tmp, ignore_errors=True)
    if not ok:
        res.outcome = "loader:exception"
        return res
    check_merged(res, case, merged, S, {}, elements=False)
    res.transitions += 1
    res.nontrivial = True
    res.outcome = "loader:n%d:%s" % (len(case["parts"]), "ok" if not res.violations else "viol")
    return res


def eval_case(case):
    import partitura.score as S
    from mc.ir import build_part

    res = CaseResult(states=1, transitions=0, traces=1)
    parts_spec = case["parts"]
    if case["shape"] == "file-musicxml":
        return eval_loader(case, res)
    if len(parts_spec) == 1:
        return eval_single(case, res)
    mode = case["mode"]
    stats = {}
    arg, parts = build_arg(case, res, S, build_part)
    if arg is None:
        res.outcome = "edit-exception"
        return res
    ok, merged = guarded(res, "merge", S.merge_parts, arg, mode)
    res.transitions += 1
    rows = None
    if ok:
        rows = check_merged(res, case, merged, S, stats)
        res.transitions += 2

    ref = M.sounding_rows(case)
    arg2, parts2 = build_arg(case, res, S, build_part)
    holder = check_order(res, case, arg2, S, parts2) if arg2 is not None else None
    res.transitions += 1
    if ref:
        if holder is not None:
            ok2, sna = guarded(res, "score-note-array", holder.note_array, include_staff=True, include_divs_per_quarter=True)
            res.transitions += 1
            if ok2:
                check_score_array(res, case, sna, rows)
    res.traces = 2
    nparts_with_notes = len({v[0] for v in ref.values()})
    res.nontrivial = nparts_with_notes >= 2
    L = lcm_all([pdivs(p) for p in parts_spec])
    if not ok:
        res.outcome = "exception:%s" % mode
    else:
        nv = len({(int(r["voice"]), int(r["staff"])) for r in rows.values()}) if rows else 0
        res.outcome = "%s%s:n%d:lcm%s:vs%d:%s" % ("ed:" if "edits" in case else "", mode, len(parts_spec),
                                               "=max" if L == max(pdivs(p) for p in parts_spec) else ">max",
                                               min(nv, 6), "ok" if not res.violations else "viol")
    return res


# ---------------------------------------------------------------------------------------------
# generators
#
# Cost model: merge_parts walks every time point of every input with iter_all(), which enumerates all
# subclasses of `object` per point (several ms each), so the cost of a case is proportional to the
# number of time points.  Sub-spaces therefore use as few distinct positions as their subject allows.


def mk(shape, mode, parts, tag):
    return {"shape": shape, "mode": mode, "parts": parts, "tag": tag}


def rich_part(i, d):
    """fixed content used where the divisions are the subject: off-quarter onsets in the part's own
    grid, a tie, two voices, a rest, a slur, directions, full structure (4 time points)"""
    s0, s1 = STEPS[(2 * i) % 7], STEPS[(2 * i + 1) % 7]
    n = lambda j: M.pid_note(i, j)
    objs = [
        note(n(0), 0, 1, s0, 4, 1, 1),
        note(n(1), 1, 1 + d, s1, 4, 2, 1, tie=n(2)),
        note(n(2), 1 + d, 4 * d, s1, 4, 2, 1),
        note(n(3), 1, 4 * d, s0, 5, 1, 1),
        rest("p%dr0" % i, 0, 1, 2, 1),
        {"k": "slur", "a": n(0), "b": n(1)},
        {"k": "words", "s": 1, "text": "w%d" % i, "staff": 1},
        {"k": "dyn", "s": 0, "text": "f", "staff": 1},
    ]
    return part_spec(i, d, objs)


def gen_divisions(tier):
    th = tier == "thorough"
    D2 = [1, 2, 3, 4, 5, 6, 8, 12] + ([10, 16, 480, 960] if th else [])
    D3 = [1, 2, 3, 4, 6] + ([5, 12] if th else [])

    def g():
        k = 0
        for t, (a, b) in enumerate(itertools.product(D2, D2)):
            for mode in MODES:
                k += 1
                if not th and MODES[t % 3] != mode:
                    continue
                yield mk(SHAPES_N[2][k % 6], mode, [rich_part(0, a), rich_part(1, b)], "div2")
        for t, ds in enumerate(itertools.product(D3, D3, D3)):
            for mode in MODES:
                k += 1
                if not th and MODES[t % 3] != mode:
                    continue
                yield mk(SHAPES_N[3][k % 7], mode, [rich_part(i, d) for i, d in enumerate(ds)], "div3")
    return g


DIV_PAIRS = [(1, 1), (2, 3), (4, 6), (3, 2)]
DIV_TRIPLES = [(2, 3, 4), (1, 1, 1), (6, 4, 1), (3, 2, 3)]


def vs_part(i, d, vss, struct=False):
    """simultaneous notes of one division with the given (voice, staff) values (2 time points)"""
    objs = []
    for j, (v, s) in enumerate(vss):
        objs.append(note(M.pid_note(i, j), 0, 1, STEPS[(3 * i + j) % 7], 4 + j // 7, v, s))
    return part_spec(i, d, objs, struct=struct)


def multisets(vals):
    return [[a, b] if a != b else [a] for a, b in itertools.combinations_with_replacement(vals, 2)]


def vs_patterns(voices):
    return multisets([(v, s) for v in voices for s in (None, 1, 2)])


def gen_vs_pairs(tier):
    """thorough: every pair of patterns x 3 modes.  quick: all pairs of the 21 patterns over voices {1,3} in
    auto mode (reads voices and staves); voice mode: all pairs of the 6 voice multisets over {1,2,3} (staff
    cycled); staff mode: all pairs of the 6 staff multisets over {None,1,2} (voice cycled)"""
    def g():
        k = 0
        if tier == "thorough":
            pats = vs_patterns((1, 2, 3))
            for pa, pb in itertools.product(pats, pats):
                for mode in MODES:
                    k += 1
                    da, db = DIV_PAIRS[k % 4]
                    yield mk(SHAPES_N[2][k % 6], mode, [vs_part(0, da, pa), vs_part(1, db, pb)], "vs2")
            return
        pats = vs_patterns((1, 3))
        for pa, pb in itertools.product(pats, pats):
            k += 1
            da, db = DIV_PAIRS[k % 4]
            yield mk(SHAPES_N[2][k % 6], "auto", [vs_part(0, da, pa), vs_part(1, db, pb)], "vs2")
        for va, vb in itertools.product(multisets((1, 2, 3)), repeat=2):
            k += 1
            da, db = DIV_PAIRS[k % 4]
            st = (None, 1, 2)
            pa = [(v, st[(k + j) % 3]) for j, v in enumerate(va)]
            pb = [(v, st[(k + j + 1) % 3]) for j, v in enumerate(vb)]
            yield mk(SHAPES_N[2][k % 6], "voice", [vs_part(0, da, pa), vs_part(1, db, pb)], "vs2")
        for sa, sb in itertools.product(multisets((None, 1, 2)), repeat=2):
            k += 1
            da, db = DIV_PAIRS[k % 4]
            pa = [(1 + (k + j) % 3, s) for j, s in enumerate(sa)]
            pb = [(1 + (k + j + 1) % 3, s) for j, s in enumerate(sb)]
            yield mk(SHAPES_N[2][k % 6], "staff", [vs_part(0, da, pa), vs_part(1, db, pb)], "vs2")
    return g


PAT5 = [[(1, None)], [(2, 2)], [(1, 1), (1, 2)], [(3, 1), (1, 1)], [(1, None), (2, 2)]]
PAT10 = PAT5 + [[(2, None), (2, 1)], [(3, 2)], [(1, 1)], [(2, 2), (3, 2)], [(1, None), (2, None)]]


def gen_vs_triples(tier):
    pats = PAT10 if tier == "thorough" else PAT5

    def g():
        k = 0
        for ps in itertools.product(pats, repeat=3):
            for mode in MODES:
                k += 1
                ds = DIV_TRIPLES[k % 4]
                yield mk(SHAPES_N[3][k % 7], mode, [vs_part(i, ds[i], p) for i, p in enumerate(ps)], "vs3")
    return g


SLOTS = [(a, b) for a in (0, 1, 2, 3) for b in (1, 2, 3)]
TIMING_CHOICES = [[s] for s in SLOTS] + [list(c) for c in itertools.combinations(SLOTS, 2)]
TIMING_DIVS = [(1, 2), (2, 3), (3, 4), (4, 6), (6, 4), (3, 3), (2, 1)]
TIMING_DIVS_FULL = [(2, 3), (4, 6), (3, 4)]
TIMING_B = 64


def timing_part(i, d, slots):
    objs = []
    for j, (a, b) in enumerate(slots):
        objs.append(note(M.pid_note(i, j), a, a + b, STEPS[(2 * i + j) % 7], 4, 1 + j, 1))
    return part_spec(i, d, objs, struct=False)


def gen_timing_core():
    """every single-note slot in either part x 7 divisions pairs (slot of the other part, mode, shape cycled)"""
    def g():
        k = 0
        for which in (0, 1):
            for s in SLOTS:
                for ds in TIMING_DIVS:
                    k += 1
                    o = SLOTS[(5 * k) % 12]
                    ca, cb = ([s], [o]) if which == 0 else ([o], [s])
                    yield mk(SHAPES_N[2][k % 6], MODES[k % 3], [timing_part(0, ds[0], ca), timing_part(1, ds[1], cb)], "timing")
    return g


def gen_timing(tier, seed):
    def g():
        k = 0
        for ca in TIMING_CHOICES:
            for cb in TIMING_CHOICES:
                for ds in TIMING_DIVS_FULL:
                    k += 1
                    if tier != "thorough" and block_of([ca, cb, ds], TIMING_B) != seed % TIMING_B:
                        continue
                    yield mk(SHAPES_N[2][k % 6], MODES[k % 3], [timing_part(0, ds[0], ca), timing_part(1, ds[1], cb)], "timing")
    return g


def menu(i, d, m):
    """event groups; all times in the part's own divisions, inside one 4/4 measure"""
    n = lambda j: M.pid_note(i, j)
    a, b = STEPS[(2 * i) % 7], STEPS[(2 * i + 3) % 7]
    if m == 0:
        return [note(n(0), 0, d, a)]
    if m == 1:
        return [note(n(0), 0, d, a), note(n(1), 0, d, b)]
    if m == 2:
        return [note(n(0), 0, d, a, tie=n(1)), note(n(1), d, 2 * d, a)]
    if m == 3:  # chain of three with an off-quarter joint, second voice against it
        return [note(n(0), 0, 1, a, tie=n(1)), note(n(1), 1, 1 + d, a, tie=n(2)), note(n(2), 1 + d, 4 * d, a),
                note(n(3), 1, 4 * d, b, voice=2)]
    if m == 4:
        return [{"k": "grace", "id": n(0), "s": d, "e": d, "step": b, "oct": 4, "voice": 1, "staff": None,
                 "gtype": "acciaccatura", "next": n(1)}, note(n(1), d, 2 * d, a)]
    if m == 5:
        return [rest("p%dr0" % i, 0, d), note(n(0), d, d + 1, a)]
    if m == 6:
        return [{"k": "unpitched", "id": "p%du0" % i, "s": 0, "e": d, "step": "E", "oct": 4, "voice": 1, "staff": None},
                note(n(0), 1, 2, a)]
    if m == 7:
        return [note(n(0), 0, 1, a, alter=1), note(n(1), 1, 2, b, alter=-1, voice=2)]
    if m == 8:
        return [note(n(0), 0, 2 * d, a, voice=1), note(n(1), 1, d + 1, b, voice=2)]
    if m == 9:
        sym = {"type": "eighth", "actual_notes": 3, "normal_notes": 2}
        return [note(n(0), 0, 1, a, sym=sym), note(n(1), 1, 2, b, sym=sym), note(n(2), 2, 3, a, sym=sym),
                {"k": "tuplet", "a": n(0), "b": n(2), "actual": 3, "normal": 2}, {"k": "slur", "a": n(0), "b": n(2)}]
    if m == 10:
        return [note(n(0), 3 * d, 4 * d, a), note(n(1), 4 * d - 1, 4 * d, b, voice=2)]
    if m == 11:
        return [note(n(0), 1, 2, a, staff=2, voice=3)]
    raise ValueError(m)


NMENU = 12
KINDS_B = 16


def gen_kinds(tier, seed):
    th = tier == "thorough"

    def g():
        k = 0
        for t, (ma, mb) in enumerate(itertools.product(range(NMENU), range(NMENU))):
            for mode in MODES:
                k += 1
                if not th and MODES[(t + t // NMENU) % 3] != mode:
                    continue
                ds = TIMING_DIVS[k % 7]
                yield mk(SHAPES_N[2][k % 6], mode, [part_spec(0, ds[0], menu(0, ds[0], ma)), part_spec(1, ds[1], menu(1, ds[1], mb))], "kinds2")
        for t, ms in enumerate(itertools.product(range(NMENU), repeat=3)):
            k += 1
            if not th and block_of(list(ms), KINDS_B) != seed % KINDS_B:
                continue
            ds = DIV_TRIPLES[k % 4]
            yield mk(SHAPES_N[3][k % 7], MODES[(t + t // NMENU) % 3],
                     [part_spec(i, ds[i], menu(i, ds[i], m), struct=(i != 1)) for i, m in enumerate(ms)], "kinds3")
    return g


def extra(i, d, kind):
    """one additional element for part i (the base notes p{i}n0 0..1 and p{i}n1 1..1+d exist; one 4/4 measure)"""
    n0, n1 = M.pid_note(i, 0), M.pid_note(i, 1)
    if kind == "words-nostaff":
        return [{"k": "words", "s": 1, "text": "w%d" % i}]
    if kind == "words-staff1":
        return [{"k": "words", "s": 1, "text": "w%d" % i, "staff": 1}]
    if kind == "dyn-nostaff":
        return [{"k": "dyn", "s": 1 + d, "text": "p"}]
    if kind == "dyn-staff1":
        return [{"k": "dyn", "s": 1 + d, "text": "p", "staff": 1}]
    if kind == "sfz":
        return [{"k": "sfz", "s": 1, "text": "sfz", "staff": 1}]
    if kind == "wedge":
        return [{"k": "wedge", "s": 1, "e": 4 * d, "dir": "+", "staff": 1}]
    if kind == "wedge-open":
        return [{"k": "wedge", "s": 1 + d, "dir": "-", "staff": 1}]
    if kind == "tempodir":
        return [{"k": "tempodir", "s": 0, "text": "adagio", "staff": 1}]
    if kind == "slur":
        return [{"k": "slur", "a": n0, "b": n1}]
    if kind == "tuplet":
        return [{"k": "tuplet", "a": n0, "b": n1, "actual": 3, "normal": 2}]
    if kind == "repeat":
        return [{"k": "repeat", "s": 0, "e": 4 * d}]
    if kind == "segno":
        return [{"k": "segno", "s": 1}]
    if kind == "coda":
        return [{"k": "coda", "s": 1 + d}]
    if kind == "tocoda":
        return [{"k": "tocoda", "s": 1}]
    if kind == "dalsegno":
        return [{"k": "dalsegno", "s": 4 * d}]
    if kind == "tempo":
        return [{"k": "tempo", "s": 0, "bpm": 60 + i, "unit": "q"}]
    if kind == "fermata":
        return [{"k": "fermata", "s": 1, "ref": n1}]
    if kind == "ending":
        return [{"k": "ending", "s": 0, "e": 4 * d, "number": 1}]
    if kind == "dacapo":
        return [{"k": "dacapo", "s": 4 * d}]
    if kind == "fine":
        return [{"k": "fine", "s": 1 + d}]
    if kind == "rest":
        return [rest("p%dr0" % i, 1 + d, 4 * d, 1, 1)]
    if kind == "clef-change":
        return [{"k": "clef", "s": 1 + d, "staff": 1, "sign": "C", "line": 3, "oct": 0}]
    if kind == "ts-change":
        return [{"k": "ts", "s": 4 * d, "beats": 3, "beat_type": 4}]
    if kind == "ks-change":
        return [{"k": "ks", "s": 1 + d, "fifths": 3 + i, "mode": "minor"}]
    if kind == "midbarline":
        return [{"k": "barline", "s": 1 + d, "style": "light-light"}]
    raise ValueError(kind)


EXTRA_KINDS = ["words-nostaff", "words-staff1", "dyn-nostaff", "dyn-staff1", "sfz", "wedge", "wedge-open", "tempodir",
               "slur", "tuplet", "repeat", "segno", "coda", "tocoda", "dalsegno", "tempo", "fermata", "ending", "dacapo",
               "fine", "rest", "clef-change", "ts-change", "ks-change", "midbarline"]


def base_notes(i, d, staff=1):
    return [note(M.pid_note(i, 0), 0, 1, STEPS[(2 * i) % 7], 4, 1, staff),
            note(M.pid_note(i, 1), 1, 1 + d, STEPS[(2 * i + 1) % 7], 4, 1 + (i % 2), staff)]


STAFFED_KINDS = ("words-nostaff", "words-staff1", "dyn-nostaff", "dyn-staff1", "sfz", "wedge", "wedge-open", "tempodir",
                 "rest", "clef-change")


def gen_elements(tier):
    th = tier == "thorough"

    def g():
        k = 0
        for kind in EXTRA_KINDS:
            masks = ((2, 1), (2, 2), (2, 3), (3, 2), (3, 7)) + (((3, 1), (3, 3), (3, 4), (3, 5), (3, 6)) if th else ())
            for t, (n, mask) in enumerate(masks):
                for mode in MODES:
                    k += 1
                    # elements that carry a staff (or a voice) are treated differently by every mode
                    if not th and kind not in STAFFED_KINDS and MODES[(t + EXTRA_KINDS.index(kind)) % 3] != mode:
                        continue
                    ds = ((2, 3, 4), (6, 1, 4), (3, 4, 2))[k % 3]
                    parts = []
                    for i in range(n):
                        objs = base_notes(i, ds[i]) + (extra(i, ds[i], kind) if mask >> i & 1 else [])
                        parts.append(part_spec(i, ds[i], objs))
                    yield mk(SHAPES_N[n][k % len(SHAPES_N[n])], mode, parts, "elem:%s:%d/%d" % (kind, mask, n))
        # which structural kinds the first part / the later parts carry
        allk = M.FIRST_ONLY + ("clef",)
        for kind in allk:
            for t, (first_has, later_has) in enumerate(((False, False), (False, True), (True, False), (True, True))):
                for mode in MODES:
                    for n in (2, 3):
                        if not th:
                            if n == 3 and (first_has or not later_has):
                                continue
                            if kind != "clef" and MODES[(t + allk.index(kind)) % 3] != mode:
                                continue
                        k += 1
                        ds = (3, 2, 4)[:n]
                        parts = []
                        for i in range(n):
                            has = first_has if i == 0 else later_has
                            kinds = tuple(x for x in allk if x != kind or has)
                            parts.append(part_spec(i, ds[i], base_notes(i, ds[i]), kinds=kinds))
                        yield mk(SHAPES_N[n][k % len(SHAPES_N[n])], mode, parts,
                                 "struct:%s:%d%d" % (kind, first_has, later_has))
        # no structure at all in the first part / in all parts / in the later parts; two measures
        for which in ("first-bare", "all-bare", "later-bare", "two-measures"):
            for mode in MODES:
                for n in (2, 3):
                    ds = (4, 6, 3)[:n]
                    parts = []
                    for i in range(n):
                        bare = which == "all-bare" or (which == "first-bare" and i == 0) or (which == "later-bare" and i > 0)
                        parts.append(part_spec(i, ds[i], base_notes(i, ds[i], staff=None if i % 2 else 1), struct=not bare,
                                               nmeas=2 if which == "two-measures" else 1))
                    yield mk("list", mode, parts, "struct:%s" % which)
    return g


def gen_single():
    def g():
        for shape in SHAPES_N[1]:
            for mode in MODES:
                for m in range(NMENU):
                    for struct in (False, True):
                        for d in (1, 6):
                            yield mk(shape, mode, [part_spec(0, d, menu(0, d, m), struct=struct)], "single")
    return g


def gen_many_voices():
    """a part with k voices next to parts with one or two voices: auto mode k in 3..6, other modes k = 5"""
    def g():
        for mode in MODES:
            for k in ((3, 4, 5, 6) if mode == "auto" else (5,)):
                for staves in ("one", "none", "two", "four-per-staff"):
                    for other in (1, 2):
                        for pos in (0, 1, 2):
                            many = []
                            for j in range(k):
                                st = {"one": 1, "none": None, "two": 1 + (j % 2), "four-per-staff": 1 + j // 4}[staves]
                                many.append((j + 1, st))
                            few = [(v + 1, 1) for v in range(other)]
                            n = 2 if pos < 2 else 3
                            ds = (2, 3, 1)
                            parts = []
                            for i in range(n):
                                is_many = (i == pos) if pos < 2 else (i == 1)
                                parts.append(vs_part(i, ds[i], many if is_many else few))
                            yield mk("list" if k % 2 else "score", mode, parts, "many:%d:%s" % (k, staves))
    return g


def gen_voice_chains():
    """three or four parts with every combination of voice counts from {1, 2, 4, 5, 6} (one staff each): the
    offsets of later parts must account for every earlier part, also after a part with more than 4 voices"""
    def g():
        counts = (1, 2, 4, 5, 6)
        combos = list(itertools.product(counts, repeat=3)) + [(6, 3, 2, 1), (5, 5, 1, 1), (1, 6, 4, 1), (4, 4, 4, 4)]
        for mode in ("auto", "voice"):
            for ks in combos:
                ds = (2, 3, 1, 4)
                parts = [vs_part(i, ds[i], [(v + 1, 1) for v in range(k)]) for i, k in enumerate(ks)]
                yield mk("list", mode, parts, "chain:%s" % "-".join(map(str, ks)))
    return g


def gen_noteless():
    """one part without any note: empty, rest only, direction only, structure only"""
    def g():
        k = 0
        for content in ("empty", "rest", "rest-nostaff", "words", "structure"):
            for n in (2, 3):
                for pos in range(n):
                    for mode in MODES:
                        k += 1
                        ds = ((2, 3, 4), (4, 1, 1), (1, 4, 2))[k % 3]
                        parts = []
                        for i in range(n):
                            d = ds[i]
                            if i != pos:
                                parts.append(part_spec(i, d, base_notes(i, d)))
                            elif content == "empty":
                                parts.append(part_spec(i, d, [], struct=False))
                            elif content == "rest":
                                parts.append(part_spec(i, d, [rest("p%dr0" % i, 1, 1 + d, 1, 1)]))
                            elif content == "rest-nostaff":
                                parts.append(part_spec(i, d, [rest("p%dr0" % i, 1, 1 + d, 1, None)], struct=False))
                            elif content == "words":
                                parts.append(part_spec(i, d, [{"k": "words", "s": 1, "text": "tacet", "staff": 1}], struct=False))
                            else:
                                parts.append(part_spec(i, d, []))
                        yield mk("list" if pos % 2 else "score", mode, parts, "noteless:%s:%d" % (content, pos))
    return g


OFF = {
    "rest-voice2": lambda i, d: [rest("p%dr0" % i, 0, 1, 2, 1)],
    "rest-voice5-staff2": lambda i, d: [rest("p%dr0" % i, 0, 4 * d, 5, 2)],
    "rest-staff2": lambda i, d: [rest("p%dr0" % i, 0, 4 * d, 1, 2)],
    "unpitched-voice3": lambda i, d: [{"k": "unpitched", "id": "p%du0" % i, "s": 0, "e": 1, "step": "E", "oct": 4, "voice": 3, "staff": 1}],
    "words-staff2": lambda i, d: [{"k": "words", "s": 1, "text": "w", "staff": 2}],
    "dyn-staff2": lambda i, d: [{"k": "dyn", "s": 1, "text": "f", "staff": 2}],
    "clef-staff2": lambda i, d: [{"k": "clef", "s": 0, "staff": 2, "sign": "F", "line": 4, "oct": 0}],
}


def gen_off_note():
    """rests, unpitched notes, directions and clefs in voices/staves no pitched note of the part uses
    (only presence, times and absence of exceptions are claimed for them)"""
    def g():
        k = 0
        for name in sorted(OFF):
            for mask in (1, 2, 3):
                for mode in MODES:
                    k += 1
                    ds = ((2, 3), (4, 6))[k % 2]
                    parts = []
                    for i in range(2):
                        objs = base_notes(i, ds[i]) + (OFF[name](i, ds[i]) if mask >> i & 1 else [])
                        parts.append(part_spec(i, ds[i], objs))
                    yield mk("list", mode, parts, "off:%s:%d" % (name, mask))
    return g


def gen_grace_top():
    """a part (not the last) whose highest voice and/or staff is used by grace notes only: the voice/staff
    offsets of the following parts must still clear it"""
    def g():
        k = 0
        for gv, gs in ((2, 1), (3, 1), (1, 2), (2, 2), (4, 3)):
            for nparts in (2, 3):
                for which in range(nparts - 1):
                    for mode in MODES:
                        k += 1
                        ds = ((2, 3, 4), (4, 6, 3), (1, 1, 1))[k % 3][:nparts]
                        parts = []
                        for i in range(nparts):
                            objs = base_notes(i, ds[i])
                            if i == which:
                                objs = objs + [{"k": "grace", "id": "p%dg0" % i, "s": 1, "e": 1, "step": "A", "oct": 4, "voice": gv, "staff": gs,
                                                "gtype": "acciaccatura", "next": M.pid_note(i, 1)}]
                            parts.append(part_spec(i, ds[i], objs))
                        yield mk("list", mode, parts, "grace-top:v%d:s%d:p%d" % (gv, gs, which))
    return g


def loader_content(i, d, v):
    """complete 4/4 measures (so that the file has no pickup), off-quarter joints, distinct ids"""
    n = lambda j: M.pid_note(i, j)
    a, b, c = STEPS[(3 * i) % 7], STEPS[(3 * i + 1) % 7], STEPS[(3 * i + 2) % 7]
    o = 4 + i % 2
    if v == 0:
        return [note(n(0), 0, 1, a, o, 1, 1), note(n(1), 1, 4 * d, b, o, 1, 1)]
    if v == 1:
        return [note(n(0), 0, 4 * d, a, o, 1, 1), note(n(1), 0, 1, b, o, 2, 1), note(n(2), 1, 4 * d, c, o, 2, 1)]
    return [note(n(0), 0, 2 * d, a, o, 1, 1), note(n(1), 0, 2 * d, b, o, 1, 1), note(n(2), 2 * d, 4 * d, c, o, 1, 1)]


def gen_loader():
    def g():
        for ds in [(1, 1), (1, 2), (2, 3), (3, 2), (4, 6), (3, 4), (6, 4), (1, 2, 3), (2, 3, 4), (6, 6, 4)]:
            for v in (0, 1, 2):
                parts = [part_spec(i, d, loader_content(i, d, v), kinds=("ts", "measure", "ks", "clef")) for i, d in enumerate(ds)]
                yield mk("file-musicxml", "voice", parts, "loader:%d" % v)
    return g


TREE_DIVS = [(2, 3, 4, 6), (1, 1, 1, 1), (6, 4, 1, 3), (3, 2, 3, 2)]


def gen_trees(tier):
    """every nesting of PartGroups over the parts (depth-first order = list order) under every root container"""
    th = tier == "thorough"

    def g():
        k = 0
        for n in (2, 3, 4) if th else (2, 3):
            roots = ("list", "tuple", "group", "score") if n == 2 else ("list", "group", "score")
            for t, f in enumerate(M.forests(n, 2)):
                forest = M.number_leaves(f)
                for r, root in enumerate(roots):
                    for mode in MODES:
                        k += 1
                        if MODES[(t + r) % 3] != mode and (n == 4 or (n == 3 and not th)):
                            continue
                        ds = TREE_DIVS[k % 4]
                        parts = [part_spec(i, ds[i], base_notes(i, ds[i])) for i in range(n)]
                        yield mk(M.tree_shape(root, forest), mode, parts, "tree%d" % n)
    return g


def set_partitions(n):
    """restricted-growth strings of length n (every partition of the part positions into classes), in
    lexicographic order"""
    out = [[0]]
    for _ in range(n - 1):
        out = [r + [c] for r in out for c in range(max(r) + 2)]
    return out


ID_LABELS = {"str": ("P1", "P2", "P3"), "none-first": (None, "P1", "P2")}
NAME_LABELS = {"str": ("Piano", "Violin", "Voice"), "none-first": (None, "Piano", "Violin")}
ABBR_OF = {None: None, "Piano": "Pno.", "Violin": "Vl.", "Voice": "V."}
IDENT_DIVS = {2: [(2, 3), (3, 2), (4, 6), (1, 1)], 3: [(2, 3, 4), (6, 4, 1), (3, 2, 3), (1, 1, 1)]}
IDENT_DIVS_TH = {2: [(1, 2), (6, 4), (3, 4), (5, 5)], 3: [(2, 3, 2), (3, 3, 2), (1, 6, 4), (4, 4, 4)]}


def with_identity(part, pid, name):
    part = dict(part)
    part["id"] = pid
    part["name"] = name
    part["abbr"] = ABBR_OF[name]
    return part


def gen_identities(tier):
    """parts that are distinguishable by their position only: the identifying attributes of the parts (id; part
    name and abbreviation) are shared between parts in every possible way"""
    th = tier == "thorough"

    def g():
        k = 0
        for n in (2, 3):
            rgs = set_partitions(n)
            divs = IDENT_DIVS[n] + (IDENT_DIVS_TH[n] if th else [])
            nshape = len(SHAPES_N[n])
            for ti, idp in enumerate(rgs):
                for tn, namep in enumerate(rgs):
                    for tl, lab in enumerate(("str", "none-first")):
                        for tc, content in enumerate(("rich", "vs")):
                            # quick, 3 parts: the name partition, the labels and the content follow the other coordinates
                            if not th and n == 3 and (tn != (ti + tl) % len(rgs) or tc != (ti + tl) % 2):
                                continue
                            for ds in divs:
                                for mode in MODES:
                                    k += 1
                                    parts = []
                                    for i in range(n):
                                        if content == "rich":
                                            p = rich_part(i, ds[i])
                                        else:
                                            p = vs_part(i, ds[i], PAT5[(k + 2 * i) % 5], struct=(i + k) % 2 == 0)
                                        parts.append(with_identity(p, ID_LABELS[lab][idp[i]], NAME_LABELS[lab][namep[i]]))
                                    yield mk(SHAPES_N[n][k % nshape], mode, parts,
                                             "ident:%s:%s:%s:%s" % ("".join(map(str, idp)), "".join(map(str, namep)), lab, content))
    return g


LOADER_KINDS = ("notes", "rests", "unpitched", "rest+unpitched", "structure")


def loader_part(i, d, kind):
    """one complete 4/4 measure: pitched notes in two voices / two rests / two unpitched notes / an unpitched note
    against rests with an off-quarter joint in a second voice / measure and signatures only"""
    K = ("ts", "measure", "ks", "clef")
    u = lambda j, s, e, v: {"k": "unpitched", "id": "p%du%d" % (i, j), "s": s, "e": e, "step": "E", "oct": 4, "voice": v, "staff": 1}
    if kind == "notes":
        objs = loader_content(i, d, 1)
    elif kind == "rests":
        objs = [rest("p%dr0" % i, 0, 2 * d, 1, 1), rest("p%dr1" % i, 2 * d, 4 * d, 1, 1)]
    elif kind == "unpitched":
        objs = [u(0, 0, d, 1), u(1, d, 4 * d, 1)]
    elif kind == "rest+unpitched":
        objs = [u(0, 0, 4 * d, 1), rest("p%dr0" % i, 0, 1, 2, 1), rest("p%dr1" % i, 1, 4 * d, 2, 1)]
    elif kind == "structure":
        objs = []
    else:
        raise ValueError(kind)
    return part_spec(i, d, objs, kinds=K)


def gen_loader_noteless():
    def g():
        k = 0
        for kinds in itertools.product(LOADER_KINDS, repeat=2):
            for ds in ((4, 3), (3, 4), (2, 2), (1, 6)):
                yield mk("file-musicxml", "voice", [loader_part(i, ds[i], kd) for i, kd in enumerate(kinds)],
                         "loader:%s" % "/".join(kinds))
        for kinds in itertools.product(LOADER_KINDS, repeat=3):
            k += 1
            ds = ((2, 3, 4), (4, 6, 3), (6, 1, 4))[k % 3]
            yield mk("file-musicxml", "voice", [loader_part(i, ds[i], kd) for i, kd in enumerate(kinds)],
                     "loader:%s" % "/".join(kinds))
    return g


EDIT_INIT_SHAPES = {1: ("score", "score-group"), 2: ("score", "score-group"), 3: ("score", "score-group", "score-mixed")}
EDIT_DIVS = [(2, 3, 4, 6, 1), (1, 1, 1, 1, 1), (6, 4, 1, 3, 2), (3, 2, 3, 2, 4)]


def mk_edited(k, shape, mode, n0, steps, pre):
    """steps = [(op, how), ...] over part numbers: 0..n0-1 are the parts the Score is built with, higher numbers
    the parts brought in by the edits"""
    final = list(range(n0))
    for op, _ in steps:
        final = M.apply_edit(final, op)
    npool = n0 + sum(1 for op, _ in steps if M.edit_adds(op))
    ds = EDIT_DIVS[k % 4]
    pool = [part_spec(i, ds[i], base_notes(i, ds[i])) for i in range(npool)]
    c = mk("edited:" + shape, mode, [pool[i] for i in final], "edit:" + "+".join("%s/%s" % (op[0], how) for op, how in steps))
    c.update(pool=pool, init=list(range(n0)), final=final, pre=pre,
             edits=[{"op": op, "how": how} for op, how in steps])
    return c


def gen_edited(tier):
    """a Score built from n0 parts (flat, in one group, or group + part), read or not, then edited, then handed
    to merge_parts as it is"""
    th = tier == "thorough"

    def g():
        k = 0
        # one edit: every edit x every way of carrying it out
        for n0 in (1, 2, 3):
            for shape in EDIT_INIT_SHAPES[n0]:
                for t, op in enumerate(M.edit_ops(n0, n0)):
                    for h, how in enumerate(M.EDIT_HOWS[op[0]]):
                        for mode in MODES:
                            for pre in (0, 1):
                                k += 1
                                if not th and (MODES[(t + h) % 3] != mode or pre != (t + h + n0) % 2):
                                    continue
                                yield mk_edited(k, shape, mode, n0, [(op, how)], pre)
        # two edits
        for n0 in ((1, 2, 3) if th else (2,)):
            for shape in EDIT_INIT_SHAPES[n0]:
                t = 0
                for op1 in M.edit_ops(n0, n0):
                    l1 = M.apply_edit(list(range(n0)), op1)
                    for op2 in M.edit_ops(len(l1), n0 + (1 if M.edit_adds(op1) else 0)):
                        t += 1
                        H1, H2 = M.EDIT_HOWS[op1[0]], M.EDIT_HOWS[op2[0]]
                        if th and n0 < 3:
                            for h1 in H1:
                                for h2 in H2:
                                    k += 1
                                    yield mk_edited(k, shape, MODES[(t + k) % 3], n0, [(op1, h1), (op2, h2)], (k // 3) % 2)
                        else:
                            k += 1
                            yield mk_edited(k, shape, MODES[t % 3], n0, [(op1, H1[t % len(H1)]), (op2, H2[(t // 2) % len(H2)])],
                                            (t // 3) % 2)
    return g


# ---------------------------------------------------------------------------------------------
# magnitude dimension: the same small families at large divisions, far from the start of the timeline, and
# a regular pattern over many measures.  The note arrays store positions as 32-bit signed integers, so every
# generated case keeps every position of the merged part (and of the score-level array) below 2**31.

I32 = 2 ** 31
MAG_DIVS = [1, 480, 625, 768, 10080, 65537]
MAG_DIVS_TH = [6, 960, 44100]
MAG_TRIPLES = [(625, 768, 600), (480, 960, 10080), (1, 768, 625), (65537, 1, 480)]
MAG_OFFQ = [0, 16, 1000]
ALL_STRUCT = M.FIRST_ONLY + ("clef",)


def shifted_rich_part(i, d, offq):
    """the fixed rich content of space 'divisions', `offq` quarters (a multiple of 4) after the start of the
    timeline; signatures, clef, page and system stay at 0, the final barline follows the content; the measures
    0..offq/4 are all there for offq <= 16, none for larger offsets (cost: one time point per measure)"""
    base = rich_part(i, d)
    sh = offq * d
    objs = []
    for o in base["objs"]:
        if o["k"] in ALL_STRUCT:
            continue
        o = dict(o)
        for key in ("s", "e"):
            if o.get(key) is not None:
                o[key] = o[key] + sh
        objs.append(o)
    kinds = ALL_STRUCT if offq <= 16 else tuple(k for k in ALL_STRUCT if k != "measure")
    return part_spec(i, d, objs, kinds=kinds, nmeas=offq // 4 + 1)


def gen_magnitude_divisions(tier):
    th = tier == "thorough"
    D = MAG_DIVS + (MAG_DIVS_TH if th else [])

    def g():
        k = 0
        tuples = [(a, b) for a in D for b in D] + MAG_TRIPLES
        for t, ds in enumerate(tuples):
            L = lcm_all(ds)
            for u, offq in enumerate(MAG_OFFQ):
                if (offq + 4) * L >= I32:
                    continue  # not representable in the 32-bit columns of the note arrays
                for mode in MODES:
                    k += 1
                    if not th and MODES[(t + u) % 3] != mode:
                        continue
                    n = len(ds)
                    yield mk(SHAPES_N[n][k % len(SHAPES_N[n])], mode, [shifted_rich_part(i, d, offq) for i, d in enumerate(ds)],
                             "mag-div:%s:+%dq" % ("/".join(map(str, ds)), offq))
    return g


TICK_PAIRS = [(1, 1), (480, 960), (960, 480), (768, 625), (625, 768), (10080, 625), (1, 65537), (65537, 480), (44100, 48000)]
TICK_FACT = [1, 480, 10080]
TICK_OFF = [0, 2 ** 16 + 1, 2 ** 24 + 1]


def mag_timing_part(i, d, slot, f, o):
    a, b = slot
    return part_spec(i, d, [note(M.pid_note(i, 0), o + a * f, o + (a + b) * f, STEPS[(2 * i) % 7], 4, 1, 1)], struct=False)


def gen_magnitude_ticks(tier):
    """one note per part (no structure); the note of one part ("subject") at tick o + a*f .. o + (a+b)*f for every
    slot (a, b), factor f and offset o, the note of the other part at a plain slot near 0"""
    th = tier == "thorough"

    def g():
        k = c = 0
        for which in (0, 1):
            for ds in TICK_PAIRS:
                mult = lcm_all(ds) // ds[which]
                for f in TICK_FACT:
                    for o in TICK_OFF:
                        if (o + 6 * f) * mult >= I32:
                            continue
                        c += 1
                        for si, s in enumerate(SLOTS):
                            k += 1
                            if not th and si != (5 * c) % 12:
                                continue
                            other = SLOTS[(5 * k) % 12]
                            sub = mag_timing_part(which, ds[which], s, f, o)
                            oth = mag_timing_part(1 - which, ds[1 - which], other, 1, 0)
                            yield mk(SHAPES_N[2][k % 6], MODES[k % 3], [sub, oth] if which == 0 else [oth, sub],
                                     "mag-tick:%s:p%d:x%d:+%d" % ("/".join(map(str, ds)), which, f, o))
    return g


LONG_DIVS = [(4, 6), (768, 625), (625, 768, 600)]


def long_part(i, d, nmeas):
    """nmeas complete 4/4 measures; on every quarter one quarter note in each of two voices"""
    objs = []
    j = 0
    for qn in range(4 * nmeas):
        for v in (1, 2):
            objs.append(note(M.pid_note(i, j), qn * d, (qn + 1) * d, STEPS[(i + qn + 2 * v) % 7], 3 + v, v, 1))
            j += 1
    return part_spec(i, d, objs, nmeas=nmeas)


def gen_long(tier):
    th = tier == "thorough"

    def g():
        for nmeas in ((6, 24, 64) if th else (6,)):
            for t, ds in enumerate(LONG_DIVS):
                for mode in MODES:
                    if not th and MODES[t] != mode:
                        continue
                    yield mk("score" if len(ds) == 2 else "list", mode, [long_part(i, d, nmeas) for i, d in enumerate(ds)],
                             "long:%d:%s" % (nmeas, "/".join(map(str, ds))))
    return g


def spaces(tier, seed):
    th = tier == "thorough"
    sp = []
    sp.append(Space("divisions", gen_divisions(tier), True,
                    "all ordered pairs of divisions from {1,2,3,4,5,6,8,12} (thorough: +{10,16,480,960}) and all ordered triples from "
                    "{1,2,3,4,6} (thorough: +{5,12}); mode cycled (thorough: x 3 modes), container shape cycled over 6 / 7; fixed rich "
                    "content per part (off-quarter onsets, tie, two voices, rest, slur, directions, full structure)"))
    sp.append(Space("voices-staves-pairs", gen_vs_pairs(tier), True,
                    "2 parts of simultaneous notes; " + (
                        "each part every multiset of one or two (voice, staff) values, voice in {1,2,3}, staff in {None,1,2}: 45 x 45 x 3 modes"
                        if th else
                        "auto: each part every multiset of one or two (voice, staff) values with voice in {1,3}, staff in {None,1,2} "
                        "(21 x 21); voice: every pair of voice multisets over {1,2,3} (6 x 6, staff cycled); staff: every pair of staff "
                        "multisets over {None,1,2} (6 x 6, voice cycled)")
                    + "; divisions pair cycled over {(1,1),(2,3),(4,6),(3,2)}, shape cycled over 6"))
    sp.append(Space("voices-staves-triples", gen_vs_triples(tier), True,
                    "3 parts, each one of %d voice/staff patterns: %d x 3 modes; divisions triple cycled over "
                    "{(2,3,4),(1,1,1),(6,4,1),(3,2,3)}, shape cycled over 7" % ((10, 1000) if th else (5, 125))))
    sp.append(Space("timing-core", gen_timing_core(), True,
                    "one note per part: each of 12 (onset, duration) slots (onsets {0,1,2,3} x durations {1,2,3} divisions) in either "
                    "part x 7 divisions pairs; slot of the other part, mode and shape cycled"))
    if th:
        sp.append(Space("timing", gen_timing(tier, seed), True,
                        "2 parts, each 1 or 2 notes from the 12 slots (78 choices per part) x divisions {(2,3),(4,6),(3,4)}: 18252 cases; "
                        "mode cycled over 3, shape cycled over 6"))
    else:
        sp.append(Space("timing-block", gen_timing(tier, seed), True,
                        "hash block seed%%%d of the thorough 'timing' space (78 x 78 note choices x 3 divisions pairs)" % TIMING_B))
    sp.append(Space("kinds", gen_kinds(tier, seed), True,
                    "12 event groups (single, chord, tied pair, tie chain against a second voice, grace, rest, unpitched, alterations, "
                    "overlapping voices, tuplet+slur, end of measure, staff 2 voice 3): all 144 pairs (" +
                    ("x 3 modes" if th else "mode cycled") + "; divisions pair and shape cycled); triples: " +
                    ("all 1728" if th else "hash block seed%%%d of the 1728" % KINDS_B) + ", mode cycled"))
    sp.append(Space("elements", gen_elements(tier), True,
                    "25 kinds of additional element x subsets of the parts carrying it (2 parts: all 3; 3 parts: middle, all; "
                    "thorough: all 7) x 3 modes for staff-carrying kinds, mode cycled for the others (thorough: x 3), divisions triple "
                    "cycled over 3; 7 structural kinds x (first part has it or not) x (later parts have it or not); bare parts; two measures"))
    sp.append(Space("single", gen_single(), True,
                    "one part in 8 container shapes (Part, list, tuple, group, list of group, nested group, Score, Score of group) x 3 "
                    "modes x 12 event groups x structure on/off x divisions {1,6}"))
    sp.append(Space("loader", gen_loader(), True,
                    "load_score_as_part on a MusicXML file written from 2-3 parts: 10 divisions tuples x 3 contents (one voice, two "
                    "voices, chord) filling one 4/4 measure; divisions, time points, note array and voice classes of the result"))
    sp.append(Space("many-voices", gen_many_voices(), True,
                    "a part with k voices (auto: k in 3..6; voice, staff: k = 5) on one staff / no staff / two staves / four voices per "
                    "staff, next to parts with 1..2 voices, in first, second or middle position"))
    sp.append(Space("voice-chains", gen_voice_chains(), True,
                    "3 parts x every combination of voice counts {1,2,4,5,6}^3 (+ four 4-part chains) x modes auto, voice"))
    sp.append(Space("noteless-part", gen_noteless(), True,
                    "one part without notes (empty, rest, rest without staff, words, structure only) at every position of 2 and 3 parts "
                    "x 3 modes, divisions triple cycled over 3"))
    sp.append(Space("grace-top-voice", gen_grace_top(), True,
                    "2-3 parts x a non-last part whose highest voice/staff (5 (voice, staff) choices) is used by a grace note only x 3 modes"))
    sp.append(Space("off-note-voices", gen_off_note(), True,
                    "7 kinds of element in a voice/staff that no pitched note of its part uses x carried by first, second or both "
                    "parts x 3 modes, divisions pair cycled over 2"))
    sp.append(Space("container-trees", gen_trees(tier), True,
                    "every ordered forest of PartGroups over the parts in depth-first order, groups nested at most 2 deep below "
                    "the root container, groups with a single child (part or sub-group) included: 14 forests of 2 parts x root "
                    "container in {list, tuple, group, Score} x 3 modes; 70 forests of 3 parts x root in {list, group, Score} " +
                    ("x 3 modes; 353 forests of 4 parts x 3 roots, mode cycled" if th else "(mode cycled)") +
                    "; parts with distinct measures, signatures, clef, page, system and barline; divisions tuple cycled over 4"))
    sp.append(Space("loader-noteless", gen_loader_noteless(), True,
                    "load_score_as_part on a MusicXML file written from 2-3 parts, each part one of 5 contents filling one 4/4 "
                    "measure (pitched notes in two voices, rests only, unpitched notes only, unpitched note against rests, "
                    "measure and signatures only): 25 pairs x 4 divisions pairs {(4,3),(3,4),(2,2),(1,6)} + 125 triples "
                    "(divisions triple cycled over 3); divisions, time points, presence and times of every note, rest and "
                    "unpitched note, note array and voice classes of the result"))
    sp.append(Space("part-identities", gen_identities(tier), True,
                    "2 and 3 parts that share their identifying attributes: every partition of the part positions into classes of "
                    "equal id (2; 5) x every partition into classes of equal part name/abbreviation (2; 5) x labels (strings; the first "
                    "class None) x content (fixed rich content of space 'divisions'; simultaneous notes with one of 5 voice/staff "
                    "patterns, cycled, structure on/off cycled) x divisions tuples {(2,3),(3,2),(4,6),(1,1)} / {(2,3,4),(6,4,1),(3,2,3),"
                    "(1,1,1)}" + (" + 4 more each" if th else "") + " x 3 modes; note ids stay distinct; shape cycled over 6 / 7" +
                    ("" if th else "; quick, 3 parts: name partition, labels and content cycled with the id partition "
                                   "(5 id partitions x 2 x 4 divisions triples x 3 modes)")))
    sp.append(Space("edited-scores", gen_edited(tier), True,
                    "merge_parts(score) on a Score built from n0 parts (distinct structure, divisions tuple cycled over 4) as a "
                    "flat list, one group, or group + part (n0 = 3), then edited: an edit is set i := new part / append new / "
                    "insert new at i / delete i (never the last part) / swap i, j, carried out by item access `score[i] = ..` "
                    "(set, swap), by an in-place operation on `score.parts`, or by assigning a new list to `score.parts`; no part "
                    "twice in a score.  One edit: n0 in {1,2,3} x 2-3 initial shapes x every edit (3; 8; 13) x every way (2-3) " +
                    ("x 3 modes x (score read before the edit or not)" if th else
                     "(mode and read-before-edit cycled)") + "; two edits: every sequence, n0 " +
                    ("in {1,2} (19; 69 sequences) x 2 shapes x every pair of ways, mode and read-before-edit cycled, and n0 = 3 (178 "
                     "sequences) x 3 shapes, ways, mode and read-before-edit cycled" if th else
                     "= 2 (69 sequences) x 2 shapes, ways, mode and read-before-edit cycled") +
                    ".  Results of 1 part: identity clauses; of 2-5 parts: all clauses, against the parts the score holds "
                    "after the edits (Score.parts, iteration and indexing compared with the list model)"))
    sp.append(Space("magnitude-divisions", gen_magnitude_divisions(tier), True,
                    "the fixed rich content of space 'divisions' (4 positions per part, full structure) at large divisions and far "
                    "from the start: all ordered pairs of divisions from {1,480,625,768,10080,65537}" +
                    (" + {6,960,44100}" if th else "") + " and the triples (625,768,600), (480,960,10080), (1,768,625), (65537,1,480) "
                    "x content shifted by {0, 16, 1000} quarters in every part (measures 0..4 present for 16, no measures for 1000; "
                    "signatures at 0, final barline after the content) " + ("x 3 modes" if th else "(mode cycled)") +
                    "; shape cycled; tuples x offsets whose last merged position (offset + 4 quarters) x lcm reaches 2**31 are left "
                    "out (32-bit note-array columns); lcm up to 41e6, input positions x lcm up to 4e12"))
    sp.append(Space("magnitude-ticks", gen_magnitude_ticks(tier), True,
                    "one note per part, no structure: the note of either part at ticks o + a*f .. o + (a+b)*f with factor f in "
                    "{1,480,10080} x offset o in {0, 2**16+1, 2**24+1} x 9 divisions pairs {(1,1),(480,960),(960,480),(768,625),"
                    "(625,768),(10080,625),(1,65537),(65537,480),(44100,48000)} (combinations whose merged end reaches 2**31 left "
                    "out) x " + ("all 12 slots (a, b)" if th else "slot (a, b) cycled over the 12") +
                    "; the other part's note at a cycled slot near 0; mode and shape cycled"))
    sp.append(Space("long-timelines", gen_long(tier), True,
                    "a regular pattern (a quarter note in each of two voices on every quarter, complete 4/4 measures, full "
                    "structure) over N measures, N in " + ("{6, 24, 64}" if th else "{6}") +
                    " x divisions {(4,6), (768,625), (625,768,600)} " + ("x 3 modes" if th else "(mode cycled)") +
                    " (cost: about 30 ms per time point and part)"))
    return sp


TRIGGERS = {}

if __name__ == "__main__":
    import checks.c15 as _m

    run_check(_m)
