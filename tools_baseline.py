#!/venv/bin/python
"""Compare a junit xml of the baseline suite with /root/.vp/BASELINE.json stable_pass."""
import json, sys
import xml.etree.ElementTree as ET
base = json.load(open("/root/.vp/BASELINE.json"))
want = set(base["stable_pass"])
root = ET.parse(sys.argv[1]).getroot()
passed = set()
for tc in root.iter("testcase"):
    name = "%s::%s" % (tc.get("classname"), tc.get("name"))
    if not any(ch.tag in ("failure", "error", "skipped") for ch in tc):
        passed.add(name)
missing = sorted(want - passed)
print("baseline stable=%d passed_now=%d missing=%d" % (len(want), len(passed), len(missing)))
for m in missing:
    print("  MISSING", m)
sys.exit(1 if missing else 0)
