"""C18 helpers: abstract (score, performance, alignment) descriptions, builders and exact reference values.

Score description (JSON-able dict):
  {"meter": name in METERS, "pickup": p (grid units, 0 = none),
   "notes": [[id, kind ('n'|'g'), onset, dur, midi pitch, voice], ...],    # times in grid units
   "factor": f (optional, default 1)}     # divisions per grid unit: the part is built with divisions per quarter
                                          # = f x the meter's value and every time multiplied by f (same beats)
The timeline starts at 0; a pickup measure [0, p) precedes the first full measure [p, p + mlen).
Performance description: [[pid, midi pitch, onset_us, dur_us, velocity], ...]  (integer microseconds).
Alignment: list of dicts exactly as partitura expects them.
"""
from fractions import Fraction as F

# meter name -> time signature, divisions per quarter, measure length in divisions, beats per division
METERS = {
    "4/4": dict(ts=(4, 4), divs=2, mlen=8, bpd=F(1, 2)),
    "6/8": dict(ts=(6, 8), divs=2, mlen=6, bpd=F(1, 1)),
    "2/4t": dict(ts=(2, 4), divs=3, mlen=6, bpd=F(1, 3)),
}
METER_NAMES = ["4/4", "6/8", "2/4t"]

NAT = {48: ("C", 3), 50: ("D", 3), 52: ("E", 3), 53: ("F", 3), 55: ("G", 3), 57: ("A", 3), 59: ("B", 3),
       60: ("C", 4), 62: ("D", 4), 64: ("E", 4), 65: ("F", 4), 67: ("G", 4), 69: ("A", 4), 71: ("B", 4),
       72: ("C", 5), 74: ("D", 5), 76: ("E", 5), 77: ("F", 5), 79: ("G", 5), 81: ("A", 5)}


def part_spec(sc):
    m = METERS[sc["meter"]]
    p = sc.get("pickup", 0)
    f = sc.get("factor", 1)
    objs = [{"k": "ts", "s": 0, "beats": m["ts"][0], "beat_type": m["ts"][1]}]
    last = max([n[2] + n[3] for n in sc["notes"]] + [p + 1])
    mno = 1
    if p:
        objs.append({"k": "measure", "s": 0, "e": p * f, "number": 0})
    t = p
    while t < last:
        objs.append({"k": "measure", "s": t * f, "e": (t + m["mlen"]) * f, "number": mno})
        mno += 1
        t += m["mlen"]
    for nid, kind, on, du, pitch, voice in sc["notes"]:
        step, octv = NAT[pitch]
        if kind == "g":
            objs.append({"k": "grace", "s": on * f, "e": on * f, "id": nid, "step": step, "oct": octv, "voice": voice,
                         "gtype": "acciaccatura"})
        else:
            objs.append({"k": "note", "s": on * f, "e": (on + du) * f, "id": nid, "step": step, "oct": octv,
                         "voice": voice})
    return {"id": "P1", "name": "c18", "divs": [[0, m["divs"] * f]], "objs": objs}


def build_part(sc):
    from mc import ir

    return ir.build_part(part_spec(sc))


def build_ppart(perf):
    import partitura.performance as P

    notes = []
    for pid, pitch, on_us, du_us, vel in perf:
        on = on_us / 1e6
        off = (on_us + du_us) / 1e6
        notes.append(dict(id=pid, midi_pitch=pitch, note_on=on, note_off=off, velocity=vel))
    return P.PerformedPart(notes, id="PP1", part_name="c18")


def ref_score(sc):
    """id -> dict(onset_div, beat (Fraction), dur_beat (Fraction), pitch, grace)"""
    m = METERS[sc["meter"]]
    p = sc.get("pickup", 0)
    f = sc.get("factor", 1)
    out = {}
    for nid, kind, on, du, pitch, voice in sc["notes"]:
        out[nid] = dict(div=on * f, beat=F(on - p) * m["bpd"], dur=F(0) if kind == "g" else F(du) * m["bpd"],
                        pitch=pitch, grace=(kind == "g"), voice=voice)
    return out


def ref_perf(perf):
    """pid -> dict(on, dur (floats, seconds), vel, pitch)"""
    return {pid: dict(on=on_us / 1e6, dur=(on_us + du_us) / 1e6 - on_us / 1e6, vel=vel, pitch=pitch)
            for pid, pitch, on_us, du_us, vel in perf}


def ref_matches(sc_ref, pf_ref, align):
    """the alignment's matches whose ids exist on both sides, in alignment order"""
    return [(a["score_id"], a["performance_id"]) for a in align
            if a["label"] == "match" and a["score_id"] in sc_ref and a["performance_id"] in pf_ref]


# ---------------------------------------------------------------------------------------------
# score enumerator


def compositions(n, kmax):
    """all compositions of n into at most kmax positive parts, shortest first, lexicographic"""
    out = []

    def rec(rest, acc):
        if rest == 0:
            out.append(tuple(acc))
            return
        if len(acc) == kmax:
            return
        for a in range(1, rest + 1):
            rec(rest - a, acc + [a])

    rec(n, [])
    return sorted(out, key=lambda c: (len(c), c))


V1_PITCH = [(67, 71), (60, 64), (72, 76), (62, 65), (74, 77)]
V2_PITCH = (55, 69)
GRACE_PITCH = (79, 57)
PICKUP_PITCH = 65


def make_score(meter, pickup, comp, kinds, v2, grace):
    """comp: composition of the body into parts; kinds: per part 'N' note, 'C' chord, 'R' rest;
    v2: None or (pos, dur, pitch index); grace: None or (index of the sounding voice-1 event, pitch index).
    Returns the score description or None if the combination is not well-formed."""
    p = pickup
    notes = []
    if p:
        notes.append(["k0", "n", 0, p, PICKUP_PITCH, 1])
    t = p
    ev = 0
    sounding = []
    for ln, kd in zip(comp, kinds):
        if kd != "R":
            pl, ph = V1_PITCH[ev % len(V1_PITCH)]
            sounding.append(t)
            notes.append(["a%d" % ev, "n", t, ln, pl, 1])
            if kd == "C":
                notes.append(["b%d" % ev, "n", t, ln, ph, 1])
        ev += 1
        t += ln
    if not sounding:
        return None
    if v2 is not None:
        pos, du, pi = v2
        if pos + du > sum(comp):
            return None
        notes.append(["v0", "n", p + pos, du, V2_PITCH[pi], 2])
    if grace is not None:
        gi, pi = grace
        if gi >= len(sounding):
            return None
        notes.append(["g0", "g", sounding[gi], 0, GRACE_PITCH[pi], 1])
    return {"meter": meter, "pickup": p, "notes": notes}


def tile(sc, bars, factor=1):
    """the score followed by one more copy of all its notes (pickup note included) for every entry b of `bars`,
    b measures later; the ids of copy k (k = 2, 3, ...) get the suffix '_k'; `factor` = divisions per grid unit"""
    m = METERS[sc["meter"]]
    notes = [list(n) for n in sc["notes"]]
    for k, b in enumerate(bars):
        for n in sc["notes"]:
            notes.append(["%s_%d" % (n[0], k + 2), n[1], n[2] + b * m["mlen"]] + list(n[3:]))
    out = {"meter": sc["meter"], "pickup": sc.get("pickup", 0), "notes": notes}
    if factor != 1:
        out["factor"] = factor
    return out


def unique_onsets(sc, ids=None):
    return sorted({n[2] for n in sc["notes"] if ids is None or n[0] in ids})


# ---------------------------------------------------------------------------------------------
# performance enumerator

BP_US = (300000, 500000, 800000)  # microseconds per beat


def make_perf(sc, bps, spread_us, dur_style, vel0, start_us=250000, order="fwd"):
    """One performed note per score note.
    bps: microseconds per beat for each interval between successive unique score onsets (cycled when short);
    spread_us: asynchrony added per note inside a score onset (in pitch order); grace notes come 60 ms early;
    dur_style: 's' 100 ms, 'n' nominal (score duration x local beat period), 'o' 1.5 x nominal,
               'm' mixed (cycling s, n, o over the notes); grace notes last 80 ms;
    vel0: velocity of the first note, following notes step by 37 (mod 127, +1)."""
    m = METERS[sc["meter"]]
    uo = unique_onsets(sc)
    T = {uo[0]: F(start_us)}
    loc = {}
    for i in range(len(uo) - 1):
        bp = bps[i % len(bps)] if bps else 500000
        loc[uo[i]] = bp
        T[uo[i + 1]] = T[uo[i]] + F(bp) * (uo[i + 1] - uo[i]) * m["bpd"]
    loc[uo[-1]] = (bps[(len(uo) - 1) % len(bps)] if bps else 500000)
    perf = []
    notes = sorted(sc["notes"], key=lambda n: (n[2], n[4]))
    rank = {}
    for j, (nid, kind, on, du, pitch, voice) in enumerate(notes):
        r = rank.get(on, 0)
        if kind == "g":
            t = T[on] - 60000
            d = F(80000)
        else:
            rank[on] = r + 1
            t = T[on] + spread_us * r
            nominal = F(loc[on]) * du * m["bpd"]
            st = dur_style if dur_style != "m" else "sno"[j % 3]
            d = {"s": F(100000), "n": nominal, "o": nominal * 3 / 2}[st]
        vel = 1 + (vel0 - 1 + 37 * j) % 127
        perf.append(["p_" + nid, pitch, int(round(t)), max(int(round(d)), 80000), vel])
    if order == "rev":
        perf.reverse()
    elif order == "rot":
        perf = perf[1:] + perf[:1]
    return perf


def all_match(sc, perf):
    pids = {row[0] for row in perf}
    return [dict(label="match", score_id=n[0], performance_id="p_" + n[0]) for n in sc["notes"] if "p_" + n[0] in pids]


def reorder(al, how):
    if how == "fwd":
        return list(al)
    if how == "rev":
        return list(reversed(al))
    if how == "odd":  # odd positions first, then even positions
        return al[1::2] + al[0::2]
    raise ValueError(how)


def alignment_variants(sc, perf):
    """All alignments obtained from the note-for-note alignment by at most one change of each kind below.
    Yields (tag, perf', align).  Every score note keeps at most one valid match."""
    base = all_match(sc, perf)
    prow = {row[0]: row for row in perf}
    last_us = max(r[2] + r[3] for r in perf)
    first_us = min(r[2] for r in perf)
    yield "all-match", perf, base
    ids = [n[0] for n in sc["notes"]]
    for sid in ids:
        rest = [a for a in base if a["score_id"] != sid]
        if not rest:
            continue
        # deletion: the note was not played
        yield "del:" + sid, [r for r in perf if r[0] != "p_" + sid], rest + [dict(label="deletion", score_id=sid)]
        # deletion + insertion: both notes exist but are not paired
        yield "del+ins:" + sid, perf, rest + [dict(label="deletion", score_id=sid), dict(label="insertion", performance_id="p_" + sid)]
        # the performed note is an ornament of the score note, the score note itself is matched to nothing
        yield "orn-only:" + sid, perf, rest + [dict(label="ornament", score_id=sid, performance_id="p_" + sid)]
    extras = [["x_early", 50, max(first_us - 200000, 0), 150000, 90], ["x_mid", 84, (first_us + last_us) // 2, 120000, 33],
              ["x_late", 40, last_us + 500000, 2000000, 111]]
    for ex in extras:
        yield "ins:" + ex[0], perf + [ex], base + [dict(label="insertion", performance_id=ex[0])]
        yield "ins-first:" + ex[0], [ex] + perf, [dict(label="insertion", performance_id=ex[0])] + base
    for sid in ids:
        ex = ["x_orn", 86, prow["p_" + sid][2] + 30000, 90000, 77]
        yield "orn:" + sid, perf + [ex], base + [dict(label="ornament", score_id=sid, performance_id="x_orn")]
    # matches that refer to ids missing on one side (e.g. ids of an unfolded score, notes cut from the performance)
    ex = extras[2]
    yield "match-unknown-score-id", perf + [ex], base + [dict(label="match", score_id=ids[0] + "-2", performance_id=ex[0])]
    yield "match-unknown-score-id-first", [ex] + perf, [dict(label="match", score_id="zz", performance_id=ex[0])] + base
    for sid in (ids[0], ids[-1]):
        rest = [a for a in base if a["score_id"] != sid]
        if rest:
            yield "match-unknown-perf-id:" + sid, [r for r in perf if r[0] != "p_" + sid], rest + [dict(label="match", score_id=sid, performance_id="p_" + sid)]
