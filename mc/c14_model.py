"""Reference pedal model for C14 (plain Python, exact Fractions), written from the property statement.

For every note the model returns the set of sounding ends the statement admits:

* no sustain-pedal (controller 64) event at all, or threshold 127      -> the release;
* pedal up at the release (value of the latest earlier event <= threshold; up before the first
  event)                                                               -> the release;
* pedal down at the release -> the first strictly later moment at which a pedal event has a value
  <= threshold or another note of the same pitch (any channel) is struck; if there is no such
  moment the statement leaves the value open (`open` flag: any end >= release is admitted).

Boundary readings (DESIGN section 3, rule 3): events exactly at the release time may or may not count
for the state "at that moment"; a pedal-up event or a re-strike exactly at the release may end the
note at the release; events sharing one time leave any of their states.
"""

CLAUSE = {
    "no-pedal-events": "release-when-no-pedal-events",
    "threshold-127": "release-when-threshold-127",
    "pedal-up-at-release": "release-when-pedal-up",
    "pedal-down-at-release": "first-pedal-up-or-restrike-when-pedal-down",
    "tie": "sound-end-at-coincidence",
}


def ref_sound(notes, ped, thr):
    """notes: [(pitch, on, off)], ped: [(time, value)] (controller 64 only, stream order).
    Returns [(admitted ends, open flag, situation)] per note."""
    out = []
    for i, (p, on, r) in enumerate(notes):
        if not ped:
            out.append(([r], False, "no-pedal-events"))
            continue
        if thr >= 127:
            out.append(([r], False, "threshold-127"))
            continue
        states = set()
        before = [t for t, v in ped if t < r]
        if before:
            tl = max(before)
            states |= set(v > thr for t, v in ped if t == tl)
        else:
            states.add(False)
        base = set(states)
        at = set(v > thr for t, v in ped if t == r)
        states |= at
        restrike_at = any(j != i and q == p and o == r for j, (q, o, _) in enumerate(notes))
        acc = []
        open_ = False
        if False in states:
            acc.append(r)
        if True in states:
            later = [t for t, v in ped if t > r and v <= thr]
            later += [o for j, (q, o, _) in enumerate(notes) if j != i and q == p and o > r]
            if later:
                acc.append(min(later))
            else:
                open_ = True
            if restrike_at:
                acc.append(r)
        if len(base) == 1 and not at and not (restrike_at and True in states):
            why = "pedal-down-at-release" if True in base else "pedal-up-at-release"
        else:
            why = "tie"
        out.append((acc, open_, why))
    return out
