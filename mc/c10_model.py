"""Reference model and case generators for C10 (signature, clef and measure maps).

A *case* is a JSON-able dict
  {"q": quarter duration of the part (int),
   "phases": [[op, ...], ...],      # ops are applied in order; after every phase all maps are queried
   "maps": ["ts", "ks", "clef", "meas"]}   # which families of maps are compared
  optional "arrays": {"kind": "note"|"rest", "entry": way of getting the array (ARRAY_ENTRIES), "second": ops of part B or
                      None, "fixed": {option: bool}}   (space array-option-combinations)
Ops (plain lists):
  ["ts",   t, beats, beat_type]
  ["ks",   t, fifths, mode]            mode in "major" | "minor" | None | "none"
  ["clef", t, staff, sign, line, octave_change|None]
  ["meas", start, end, number]
  ["note", start, end, staff, id]
  ["rest", start, end, staff, id(, voice)]   voice 1 when not given
  ["rm",   i]                          remove the object created by the i-th op (global index)
  ["setq", t, q]                       Part.set_quarter_duration
  ["set",  i, attr, value]             assign an attribute of the object created by the i-th op IN PLACE (no Part.add /
                                       Part.remove): ts beats | beat_type | musical_beats, ks fifths | mode,
                                       clef staff | sign | line | octave_change, meas number
  ["umb",  {"6/8": 3, ...}]            Part.use_musical_beat(dict)   (changes the time signatures in place)
  ["unb"]                              Part.use_notated_beat()
  ["smb",  {...}]                      Part.set_musical_beat_per_ts(dict)

The reference is written from the statement of C10 only (plain Python, Fractions); it never
looks at a partitura object.
"""
import itertools
from fractions import Fraction as F

MUSICAL_BEATS = {6: 2, 9: 3, 12: 4}  # documented in TimeSignature's docstring
MODE_INT = {"major": 1, "minor": -1, None: 1, "none": 1}  # docstring of key_mode_to_int
CLEF_SIGNS = ["G", "F", "C", "percussion", "TAB", "jianpu", "none"]
SET_FIELDS = {"ts": {"beats": 2, "beat_type": 3}, "ks": {"fifths": 2, "mode": 3},
              "clef": {"staff": 2, "sign": 3, "line": 4, "octave_change": 5}, "meas": {"number": 3}}


def default_musical_beats(beats):
    return MUSICAL_BEATS.get(beats, beats)


# ---------------------------------------------------------------------------------------------
# reference state


class State(object):
    """Live elements of the part described by the ops applied so far."""

    def __init__(self, q):
        self.q = {0: q}
        self.live = {}  # global op index -> op
        self.n = 0
        # number of musical beats of every live time signature (an attribute of the element: the
        # documented default at creation, changed by the musical-beat methods of the part or by hand)
        self.mus = {}
        self.mus_given = set()  # time signatures whose musical beats were stated after the last change of `beats`
        self.musical_mode = False  # Part.use_musical_beat is in effect
        self.last_dict = {}
        self.inplace = 0  # number of in-place operations applied so far
        self.open = None  # reason why the statement/documentation leaves the current values open (generator filter)

    def apply(self, op):
        k = op[0]
        if k == "rm":
            del self.live[op[1]]
            self.mus.pop(op[1], None)
            self.mus_given.discard(op[1])
        elif k == "setq":
            self.q[op[1]] = op[2]
        elif k == "set":
            self._set(op[1], op[2], op[3])
            self.inplace += 1
        elif k == "smb":
            self._per_ts(op[1])
            self.inplace += 1
        elif k == "umb":
            # documented: switch to musical beats; the dict sets the musical beats of the named
            # signatures, "otherwise the default values are used"
            if self.musical_mode:
                self.open = "use_musical_beat while musical beats are already in use (documented only as a warning)"
            self.musical_mode = True
            if op[1]:
                self._per_ts(op[1])
            elif any(self.mus[i] != default_musical_beats(self.live[i][2]) for i in self.mus):
                self.open = "use_musical_beat() without dict on hand-set musical beats (kept or reset to the defaults?)"
            self.inplace += 1
        elif k == "unb":
            # documented: back to notated beats and "reset the number of musical beats ... to default values"
            if not self.musical_mode:
                self.open = "use_notated_beat while notated beats are already in use (documented only as a warning)"
            self.musical_mode = False
            self._per_ts({})
            self.inplace += 1
        else:
            self.live[self.n] = op
            if k == "ts":
                self.mus[self.n] = default_musical_beats(op[2])
                key = "%d/%d" % (op[2], op[3])
                if self.last_dict.get(key, self.mus[self.n]) != self.mus[self.n]:
                    self.open = "time signature added after a musical-beat dict naming it (does the dict still apply?)"
        self.n += 1

    def _per_ts(self, d):
        """Part.set_musical_beat_per_ts as documented: the value of the dict for the signatures it
        names ("beats/beat_type"), the default for all others."""
        self.last_dict = dict(d)
        for i, o in self.live.items():
            if o[0] == "ts":
                self.mus[i] = d.get("%d/%d" % (o[2], o[3]), default_musical_beats(o[2]))
                self.mus_given.add(i)

    def _set(self, i, attr, value):
        o = list(self.live[i])
        if o[0] == "ts" and attr == "musical_beats":
            self.mus[i] = value
            self.mus_given.add(i)
            return
        o[SET_FIELDS[o[0]][attr]] = value
        self.live[i] = o
        if o[0] == "ts" and attr == "beats":
            # the element keeps the musical beats it had; the documentation gives the default for
            # the new numerator: only unambiguous when both agree or the value is stated afterwards
            self.mus_given.discard(i)

    def ts_rows(self):
        """[(start, beats, beat_type, musical_beats)] of the live time signatures."""
        return [(o[1], o[2], o[3], self.mus[i]) for i, o in sorted(self.live.items()) if o[0] == "ts"]

    def musical_beats_determined(self):
        return all(self.mus[i] == default_musical_beats(self.live[i][2]) or i in self.mus_given for i in self.mus)

    def of(self, kind):
        return [o for _, o in sorted(self.live.items()) if o[0] == kind]

    def point_times(self):
        ts = set()
        for o in self.live.values():
            if o[0] in ("meas", "note", "rest"):
                ts.add(o[1])
                ts.add(o[2])
            else:
                ts.add(o[1])
        return sorted(ts)

    def nstaves(self):
        n = 1
        for o in self.live.values():
            if o[0] in ("note", "rest") and o[3] is not None:
                n = max(n, o[3])
            if o[0] == "clef" and o[2] is not None:
                n = max(n, o[2])
        return n

    def q_at(self, t):
        v = None
        for k in sorted(self.q):
            if k <= t or v is None:
                v = self.q[k]
        return v


def in_force(elems, t, default):
    """elems: list of (start, value). Latest element starting at or before t; the first one for
    positions before it; `default` when there is none."""
    if not elems:
        return default
    elems = sorted(elems, key=lambda e: e[0])
    cur = elems[0][1]
    for s, v in elems:
        if s <= t:
            cur = v
    return cur


def ref_ts(st, t):
    el = [(r[0], (r[1], r[2], r[3])) for r in st.ts_rows()]
    return in_force(el, t, (4, 4, 4))


def ref_ks(st, t):
    el = [(o[1], (o[2], MODE_INT[o[3]])) for o in st.of("ks")]
    return in_force(el, t, (0, 1))


def ref_clef(st, t):
    """One row per staff 1..n: (staff, sign, line, octave_change)."""
    rows = []
    for s in range(1, st.nstaves() + 1):
        el = [(o[1], (s, o[3], o[4], o[5] if o[5] is not None else 0)) for o in st.of("clef") if o[2] == s]
        rows.append(in_force(el, t, (s, "none", 0, 0)))
    return tuple(rows)


def full_bar(st):
    """Length in divisions of a full bar at the beginning of the part (Fraction)."""
    pts = st.point_times()
    t0 = pts[0]
    b, bt, _ = ref_ts(st, t0)
    return F(b * st.q_at(t0) * 4, bt)


def ref_measures(st):
    """[(start used by the maps, end, number, actual start)], pickup correction applied."""
    ms = sorted((o[1], o[2], o[3]) for o in st.of("meas"))
    out = [[s, e, n, s] for s, e, n in ms]
    if out:
        fb = full_bar(st)
        if out[0][1] - out[0][0] < fb:
            out[0][0] = out[0][1] - fb
    return out


def ref_measure_at(meas, t):
    """The measure containing t (actual start <= t < end) or None."""
    for m in meas:
        if m[3] <= t < m[1]:
            return m
    return None


# ---------------------------------------------------------------------------------------------
# generator-side preconditions (restrict the generator, never the oracle)


def measures_in_scope(st):
    """True iff the measure clauses of the statement have one reading on this state:
    contiguous measures tiling first point .. last point; the full bar at the start is an integer
    number of divisions and is determined by one time signature and one quarter duration."""
    ms = sorted((o[1], o[2]) for o in st.of("meas"))
    pts = st.point_times()
    if not ms or not pts:
        return False
    # the measures lie inside the timeline; it may go on after the final barline (a note sounding on, a later element) and
    # may begin before the first barline (`lead`: only generated without pickup, see below)
    lead = ms[0][0] != pts[0]
    for (s, e), (s2, e2) in zip(ms, ms[1:]):
        if e != s2:
            return False
    if any(e <= s for s, e in ms):
        return False
    t0 = pts[0]
    tss = sorted(st.of("ts"), key=lambda o: o[1])
    first_len = ms[0][1] - ms[0][0]
    fb = full_bar(st)
    if st.musical_mode and tss and tss[0][1] != t0:
        # beats before the first signature are quarters, its musical beat may be longer: two readings again
        first = min(st.ts_rows())
        if first[3] != first[1]:
            return False
    if t0 != 0:
        # the correction is anchored at timeline position 0: only unambiguous without a pickup
        return not lead and first_len >= fb and (not tss or tss[0][1] == t0 or tss[0][3] == 4)
    if lead:
        # elements before the first barline: "pickup" has one reading only when the first measure is a full bar of
        # the one signature / quarter duration in force from the first point to the first barline
        if first_len < fb or any(0 < o[1] <= ms[0][0] for o in tss) or any(0 < k <= ms[0][0] for k in st.q):
            return False
    if tss and tss[0][1] != 0 and tss[0][3] != 4:
        return False  # beats before the first signature are quarters: two readings of "full bar"
    if fb.denominator != 1:
        return False
    b, bt, mb = ref_ts(st, 0)
    dpb = F(st.q_at(0) * 4, bt)
    if st.musical_mode:
        dpb = max(dpb, fb / mb)  # the first beat is a musical beat while these are in use
    if pts[-1] < dpb:
        return False
    for o in tss:
        if 0 < o[1] < dpb:
            return False
    for k in st.q:
        if 0 < k < dpb:
            return False
    return True


# ---------------------------------------------------------------------------------------------
# generators


def perms_of(ops, limit=None):
    ps = list(itertools.permutations(range(len(ops))))
    if limit is not None:
        ps = ps[:limit]
    for p in ps:
        yield [ops[i] for i in p]


def subsets(positions, kmax):
    for k in range(0, kmax + 1):
        for c in itertools.combinations(positions, k):
            yield c


TS_POOL = [(3, 4), (6, 8), (2, 2), (12, 8), (4, 4), (9, 8), (5, 4), (3, 8), (7, 8), (1, 4)]
KS_MODES = ["major", "minor", None]


def gen_ts(L, t0s, pool, kmax, frame="note"):
    """Every placement of <= kmax time signatures on the positions t0..L, every ordered choice of
    distinct values from `pool`, every insertion order."""
    for t0 in t0s:
        pos = list(range(t0, L + 1))
        for c in subsets(pos, kmax):
            for vals in itertools.permutations(pool, len(c)):
                ops = [["ts", t, v[0], v[1]] for t, v in zip(c, vals)]
                for po in perms_of(ops):
                    for fr in (["note"] if not c else ["note", "bare"]) if frame == "both" else [frame]:
                        if fr == "note":
                            yield dict(q=1, maps=["ts"], phases=[[["note", t0, L, 1, "n0"]] + po])
                            if c and len(c) <= 2:
                                # notes added after the signatures, one per position (note-array columns)
                                notes = [["note", t, t + 1, 1, "n%d" % t] for t in range(t0, L)]
                                yield dict(q=1, maps=["ts"], phases=[po + notes])
                        else:
                            yield dict(q=1, maps=["ts"], phases=[po])


def ks_values(kind):
    if kind == "all":
        return [(f, m) for f in range(-7, 8) for m in KS_MODES] + [(2, "none")]
    if kind == "pool6":
        return [(-7, "minor"), (3, None), (0, "major"), (7, "minor"), (-1, None), (-1, "major")]
    if kind == "pool4":
        return [(-7, "minor"), (3, None), (0, "major"), (7, "minor")]
    if kind == "pool3":
        return [(-1, "minor"), (7, None), (0, "major")]
    raise ValueError(kind)


def gen_ks(L, t0s, kmax, pools, frame="both"):
    for t0 in t0s:
        pos = list(range(t0, L + 1))
        for c in subsets(pos, kmax):
            pool = ks_values(pools[len(c)]) if c else []
            for vals in itertools.permutations(pool, len(c)):
                ops = [["ks", t, v[0], v[1]] for t, v in zip(c, vals)]
                for po in perms_of(ops):
                    yield dict(q=1, maps=["ks"], phases=[[["note", t0, L, 1, "n0"]] + po])
                    if c and frame == "both":
                        yield dict(q=1, maps=["ks"], phases=[po])
                    if c and len(c) <= 2:
                        notes = [["note", t, t + 1, 1, "n%d" % t] for t in range(t0, L)]
                        yield dict(q=1, maps=["ks"], phases=[po + notes])


CLEF_VALUES = [("G", 2, None), ("F", 4, 0), ("C", 3, -1), ("percussion", 2, 1), ("TAB", 5, None),
               ("jianpu", 1, 2), ("none", 3, -2), ("G", 1, -1), ("C", 4, 0), ("F", 3, 1)]


def gen_clef_values():
    """One clef at the first point on a one-staff part: every sign x line x octave change."""
    for sign in CLEF_SIGNS:
        for line in (1, 2, 3, 4, 5):
            for oc in (None, -2, -1, 0, 1, 2):
                for t in (0, 2):
                    yield dict(q=1, maps=["clef"], phases=[[["note", 0, 3, 1, "n0"], ["clef", t, 1, sign, line, oc]]])


def gen_clef(L, nst_max, per_staff_max, t0s=(0,), orders=("fwd", "rev", "mix")):
    """Staves 1..n (n <= nst_max); per staff every set of <= per_staff_max clef positions (also
    none: the staff exists through a note or through a clef of a higher staff); values cycle
    through CLEF_VALUES so that neighbours differ; three insertion orders."""
    for t0 in t0s:
        pos = list(range(t0, L + 1))
        per = list(subsets(pos, per_staff_max))
        for n in range(1, nst_max + 1):
            for choice in itertools.product(per, repeat=n):
                for note_staff in sorted(set([1, n])):
                    # the number of staves of the part = max(note staff, clef staves)
                    top = max([note_staff] + [s + 1 for s, c in enumerate(choice) if c])
                    if top != n:
                        continue
                    ops = []
                    vi = 0
                    for s, c in enumerate(choice):
                        for t in c:
                            v = CLEF_VALUES[(vi + 3 * s) % len(CLEF_VALUES)]
                            vi += 1
                            ops.append(["clef", t, s + 1, v[0], v[1], v[2]])
                    note = ["note", t0, L, note_staff, "n0"]
                    for od in orders:
                        if od == "fwd":
                            o2 = [note] + ops
                        elif od == "rev":
                            if len(ops) < 2:
                                continue
                            o2 = ops[::-1] + [note]
                        else:
                            if len(ops) < 3:
                                continue
                            o2 = ops[1::2] + [note] + ops[0::2]
                        yield dict(q=1, maps=["clef"], phases=[o2])


def compositions(n, kmax, parts=None):
    """Ordered compositions of n into <= kmax positive parts."""
    if n == 0:
        yield ()
        return
    if kmax == 0:
        return
    for a in range(1, n + 1):
        if parts is not None and a not in parts:
            continue
        for rest in compositions(n - a, kmax - 1, parts):
            yield (a,) + rest


NUMBERINGS = {
    "from1": lambda k: list(range(1, k + 1)),
    "from0": lambda k: list(range(0, k)),
    "odd": lambda k: [7, 7, 3, 12, 5, 9, 2, 2][:k],
}


def _mk_state(q, ops):
    st = State(q)
    for o in ops:
        st.apply(o)
    return st


def gen_meas(Ls, qs, ts_opts, kmax, numberings, t0s=(0,), with_ks_clef=False, second_ts=True):
    """Every tiling of t0..t0+L by <= kmax measures (all compositions), x quarter duration x
    time-signature option x numbering; notes at every measure start and one position later."""
    for t0 in t0s:
        for L in Ls:
            for comp in compositions(L, kmax):
                bounds = [t0]
                for a in comp:
                    bounds.append(bounds[-1] + a)
                for q in qs:
                    for tso in ts_opts:
                        for nbn in numberings:
                            nums = NUMBERINGS[nbn](len(comp))
                            ops = []
                            if tso is not None:
                                kind, b, bt = tso
                                if kind == "at0":
                                    ops.append(["ts", t0, b, bt])
                                elif kind == "gap":
                                    if len(bounds) < 3:
                                        continue
                                    ops.append(["ts", bounds[1], b, bt])
                                if second_ts and len(bounds) >= 3 and kind == "at0":
                                    ops.append(["ts", bounds[-2], b + 1, bt])
                            meas = [["meas", bounds[i], bounds[i + 1], nums[i]] for i in range(len(comp))]
                            # insertion order: measures last-to-first when the numbering is "odd"
                            if nbn == "odd":
                                meas = meas[::-1]
                            ops = ops + meas
                            noteset = sorted(set(bounds[:-1] + [b_ + 1 for b_ in bounds[:-1] if b_ + 1 < bounds[-1]]))
                            ops += [["note", t, t + 1, 1, "n%d" % t] for t in noteset]
                            if with_ks_clef:
                                ops += [["ks", t0, -1, "minor"], ["clef", t0, 1, "F", 4, 0]]
                            if not measures_in_scope(_mk_state(q, ops)):
                                continue
                            yield dict(q=q, maps=["ts", "meas"] + (["ks", "clef"] if with_ks_clef else []), phases=[ops])


TAIL_KINDS = ("over", "after", "late", "ks", "clef", "ts")
LEAD_KINDS = ("note", "ks")


def gen_meas_beyond(Ls, qs, ts_opts, kmax, tails, leads=(0,), tail_kinds=TAIL_KINDS, lead_kinds=LEAD_KINDS,
                    numberings=("from1",)):
    """Measures that do NOT span the whole timeline: every tiling of g..g+L by <= kmax measures, the timeline going on
    for d in `tails` divisions after the final barline E (d=0: not at all) because of
      over: a note starting at the last barline and ending at E+d     after: a note E..E+d
      late: a note E+d-1..E+d (d >= 2)          ks / clef / ts: a key signature / clef / 2/4 starting at E+d
    and beginning g in `leads` divisions before the first barline (g=0: not at all) because of a note 0..g (and 0..1) or
    a key signature at 0; at least one of d, g is positive. Notes at every measure start and one position later."""
    for g in leads:
        for L in Ls:
            for comp in compositions(L, kmax):
                bounds = [g]
                for a in comp:
                    bounds.append(bounds[-1] + a)
                E = bounds[-1]
                for q in qs:
                    for tso in ts_opts:
                        for nbn in numberings:
                            nums = NUMBERINGS[nbn](len(comp))
                            ops = []
                            if tso is not None:
                                kind, b, bt = tso
                                if kind == "at0":
                                    ops.append(["ts", 0, b, bt])
                                elif kind == "gap":
                                    if len(bounds) < 3:
                                        continue
                                    ops.append(["ts", bounds[1], b, bt])
                            ops += [["meas", bounds[i], bounds[i + 1], nums[i]] for i in range(len(comp))]
                            noteset = sorted(set(bounds[:-1] + [b_ + 1 for b_ in bounds[:-1] if b_ + 1 < E]))
                            ops += [["note", t, t + 1, 1, "n%d" % t] for t in noteset]
                            for lk in (lead_kinds if g else (None,)):
                                lead = []
                                if lk == "note":
                                    lead = [["note", 0, g, 1, "lead"]] + ([["note", 0, 1, 1, "lead1"]] if g > 1 else [])
                                elif lk == "ks":
                                    lead = [["ks", 0, 4, "minor"]]
                                for d in tails:
                                    for tk in (tail_kinds if d else (None,)):
                                        if not d and not g:
                                            continue
                                        tail = []
                                        if tk == "over":
                                            tail = [["note", bounds[-2], E + d, 1, "over"]]
                                        elif tk == "after":
                                            tail = [["note", E, E + d, 1, "after"]]
                                        elif tk == "late":
                                            if d < 2:
                                                continue
                                            tail = [["note", E + d - 1, E + d, 1, "late"]]
                                        elif tk == "ks":
                                            tail = [["ks", E + d, -3, None]]
                                        elif tk == "clef":
                                            tail = [["clef", E + d, 1, "C", 4, 1]]
                                        elif tk == "ts":
                                            tail = [["ts", E + d, 2, 4]]
                                        # the lead comes first or last in the insertion order
                                        allops = (lead + ops + tail) if (d + g) % 2 else (tail + ops + lead)
                                        if not measures_in_scope(_mk_state(q, allops)):
                                            continue
                                        maps = ["ts", "meas"] + [k for k in ("ks", "clef") if any(o[0] == k for o in allops)]
                                        yield dict(q=q, maps=maps, phases=[allops], beyond=[g, d])


FILL_KINDS = ("both", "notes", "rests")


def gen_onsets_outside(Ls, qs, ts_opts, kmax, gds, fills=FILL_KINDS, numberings=("from1",)):
    """Notes and rests STARTING at positions that lie in no measure: every tiling of g..g+L by <= kmax measures; for
    every (g, d) in `gds` the timeline begins g divisions before the first barline and goes on d divisions after the final
    barline E, and an element of one division starts at EVERY position 0..g-1 and E..E+d-1 (so also exactly 1, 2, ...
    lengths of the last measure after its start, and one length of the first measure before it):
      fill "notes": a note at each of them   "rests": a rest at each   "both": a note and a rest at each.
    Inside the measures: a note at every measure start and one position later, a rest at every measure start (fill
    "rests"/"both") and one position later (fill "both")."""
    for g, d in gds:
        if not g and not d:
            continue
        for L in Ls:
            for comp in compositions(L, kmax):
                bounds = [g]
                for a in comp:
                    bounds.append(bounds[-1] + a)
                E = bounds[-1]
                outside = list(range(0, g)) + list(range(E, E + d))
                for q in qs:
                    for tso in ts_opts:
                        for nbn in numberings:
                            nums = NUMBERINGS[nbn](len(comp))
                            ops = []
                            if tso is not None:
                                kind, b, bt = tso
                                if kind == "at0":
                                    ops.append(["ts", 0, b, bt])
                                elif kind == "gap":
                                    if len(bounds) < 3:
                                        continue
                                    ops.append(["ts", bounds[1], b, bt])
                            meas = [["meas", bounds[i], bounds[i + 1], nums[i]] for i in range(len(comp))]
                            if nbn == "odd":
                                meas = meas[::-1]
                            ops += meas
                            inside = sorted(set(bounds[:-1] + [b_ + 1 for b_ in bounds[:-1] if b_ + 1 < E]))
                            for fill in fills:
                                el = [["note", t, t + 1, 1, "n%d" % t] for t in inside]
                                if fill != "notes":
                                    el += [["rest", t, t + 1, 1, "r%d" % t] for t in (inside if fill == "both" else bounds[:-1])]
                                out = []
                                if fill != "rests":
                                    out += [["note", t, t + 1, 1, "n%d" % t] for t in outside]
                                if fill != "notes":
                                    out += [["rest", t, t + 1, 1, "r%d" % t] for t in outside]
                                # the elements outside the measures come first or last in the insertion order
                                allops = (ops + el + out) if (d + g + L) % 2 else (out[::-1] + ops + el)
                                if not measures_in_scope(_mk_state(q, allops)):
                                    continue
                                yield dict(q=q, maps=["meas"], phases=[allops], beyond=[g, d], fill=fill)


# ---------------------------------------------------------------------------------------------
# the optional columns of note / rest arrays under every combination of the array options

# how the array is obtained; "2" = from the two parts [A, B], "2r" = [B, A], "1" = from the list [A]
ARRAY_ENTRIES = {
    "note": ["Part.note_array", "note_array_from_part", "note_array_from_part_list:2", "PartGroup.note_array:2",
             "Score.note_array:2"],
    "rest": ["Part.rest_array", "rest_array_from_part", "rest_array_from_part_list:2", "PartGroup.rest_array:2"],
}
ARRAY_ENTRIES_WIDE = {
    "note": ["note_array_from_part_list:1", "note_array_from_part_list:2r", "Score.note_array:1"],
    "rest": ["rest_array_from_part_list:1", "rest_array_from_part_list:2r"],
}
ARRAY_OPTIONS_NOTE = ["include_pitch_spelling", "include_key_signature", "include_time_signature",
                      "include_metrical_position", "include_grace_notes", "include_staff", "include_divs_per_quarter"]
ARRAY_OPTIONS_REST = ["include_pitch_spelling", "include_key_signature", "include_time_signature",
                      "include_metrical_position", "include_grace_notes", "include_staff", "collapse"]


def array_options(entry):
    """The boolean options the entry point accepts (rest_array_from_part_list and PartGroup.rest_array have no
    include_metrical_position)."""
    if "note_array" in entry:
        # the part-list forms always compute the divisions per quarter (they need them to merge the parts)
        return [o for o in ARRAY_OPTIONS_NOTE if o != "include_divs_per_quarter" or ":" not in entry]
    if entry.startswith("Part.") or entry == "rest_array_from_part":
        return list(ARRAY_OPTIONS_REST)
    return [o for o in ARRAY_OPTIONS_REST if o != "include_metrical_position"]


def array_companion(q):
    """Ops of the second part B of the two-part entries (same quarter duration as A, other values than any part A:
    5/4 then 7/8, 6 flats minor then 6 sharps, a pickup of one division, ids m*/s*)."""
    ops = [["ts", 0, 5, 4], ["ts", 1 + 5 * q, 7, 8], ["ks", 0, -6, "minor"], ["ks", 2, 6, "major"],
           ["meas", 0, 1, 0], ["meas", 1, 1 + 5 * q, 1], ["meas", 1 + 5 * q, 3 + 5 * q, 2]]
    for t in (0, 1, 2, 1 + 5 * q, 2 + 5 * q):
        ops.append(["note", t, t + 1, 1, "m%d" % t])
        ops.append(["rest", t, t + 1, 2, "s%d" % t])
    if not measures_in_scope(_mk_state(q, ops)):
        raise AssertionError("companion part outside the scope of the measure clauses")
    return ops


KS_OPTS = [(), ((0, 3, "major"),), ((2, -2, "minor"),), ((0, -5, None), (3, 1, "minor"))]


def gen_array_parts(Ls, qs, kmax, ts_opts, ks_opts=KS_OPTS, cycle_ks=False):
    """(q, ops) of the parts A: every tiling of 0..L by <= kmax measures x quarter duration x time-signature option
    (as in gen_meas: 'at0' adds a change at the last barline) x key-signature option (cycle_ks: one option per part,
    cycled along the enumeration); a note AND a rest of one division start at every position 0..L-1 (rests on staff 1 / 2
    alternately, voices 1 / 2 in pairs so that collapse=True joins some and keeps some)."""
    n = 0
    for L in Ls:
        for ci, comp in enumerate(compositions(L, kmax)):
            bounds = [0]
            for a in comp:
                bounds.append(bounds[-1] + a)
            for q in qs:
                for tso in ts_opts:
                    ops = []
                    if tso is not None:
                        kind, b, bt = tso
                        if kind == "at0":
                            ops.append(["ts", 0, b, bt])
                            if len(bounds) >= 3:
                                ops.append(["ts", bounds[-2], b + 1, bt])
                        elif kind == "gap":
                            if len(bounds) < 3:
                                continue
                            ops.append(["ts", bounds[1], b, bt])
                    ops += [["meas", bounds[i], bounds[i + 1], i + 1] for i in range(len(comp))]
                    if not measures_in_scope(_mk_state(q, ops + [["note", 0, L, 1, "x"]])):
                        continue
                    n += 1
                    for ki, kso in enumerate(ks_opts):
                        if cycle_ks and ki != (n + ci) % len(ks_opts):
                            continue
                        el = [["ks", t, f, m] for t, f, m in kso if t <= L]
                        for t in range(L):
                            el.append(["note", t, t + 1, 1, "n%d" % t])
                            el.append(["rest", t, t + 1, 1 + t % 2, "r%d" % t, 1 + (t // 2) % 2])
                        # signatures first or last in the insertion order
                        allops = (ops + el) if (n + ki) % 2 else (el + ops)
                        if measures_in_scope(_mk_state(q, allops)):
                            yield q, allops


ARRAY_FIXED = 3  # the first options of the list are fixed by the case, the others enumerated by the check


def gen_array_options(Ls, qs, kmax, ts_opts, cycle_ks=False, entries=ARRAY_ENTRIES):
    """One case per (part A, way of obtaining the array, values of the first ARRAY_FIXED options of that entry point);
    the check then builds the array for EVERY subset of the remaining boolean options - together every subset of all
    options. (Split only to spread the work over the workers; the maps of A are queried in the first of the cases.)"""
    for q, ops in gen_array_parts(Ls, qs, kmax, ts_opts, cycle_ks=cycle_ks):
        for kind in ("note", "rest"):
            for entry in entries[kind]:
                second = array_companion(q) if entry.endswith((":2", ":2r")) else None
                head = array_options(entry)[:ARRAY_FIXED]
                for bits in itertools.product((False, True), repeat=len(head)):
                    yield dict(q=q, maps=[] if any(bits) else ["ts", "ks", "meas"], phases=[ops],
                               arrays=dict(kind=kind, entry=entry, second=second, fixed=dict(zip(head, bits))))


def gen_meas_setq(Ls, kmax):
    """Measures with a change of the quarter duration at a later barline (irregular lengths in
    divisions, regular in quarters)."""
    for L in Ls:
        for comp in compositions(L, kmax):
            if len(comp) < 2:
                continue
            bounds = [0]
            for a in comp:
                bounds.append(bounds[-1] + a)
            for q, q2 in ((1, 2), (2, 1), (2, 3)):
                for tso in (None, (4, 4), (3, 4), (6, 8)):
                    for ci in range(1, len(comp)):
                        ops = [["note", 0, L, 1, "n0"]]
                        if tso:
                            ops.append(["ts", 0, tso[0], tso[1]])
                        ops += [["meas", bounds[i], bounds[i + 1], i + 1] for i in range(len(comp))]
                        ops.append(["setq", bounds[ci], q2])
                        if not measures_in_scope(_mk_state(q, ops)):
                            continue
                        yield dict(q=q, maps=["ts", "meas"], phases=[ops])


def gen_edits(L, wide=False):
    """Two- and three-phase cases: a base part is queried, then edited through Part.add /
    Part.remove, then queried again (the maps are rebuilt from the timeline on every access)."""
    base_variants = []
    frame = [["note", 0, L, 1, "n0"]]
    m2 = L // 2
    meas = [["meas", 0, m2, 1], ["meas", m2, L, 2]]
    base_variants.append(("empty", frame + meas))
    base_variants.append(("one", frame + meas + [["ts", 0, 2, 4], ["ks", 0, 3, "major"], ["clef", 0, 1, "G", 2, 0]]))
    base_variants.append(("gap", frame + meas + [["ts", m2, 2, 4], ["ks", 2, -7, "minor"], ["clef", 1, 1, "F", 4, None]]))
    base_variants.append(("two", frame + meas + [["ts", 0, 2, 4], ["ts", m2, 3, 4], ["ks", 0, 3, "major"], ["ks", 3, 0, None],
                                                 ["clef", 0, 1, "G", 2, 0], ["clef", 3, 1, "C", 3, 1]]))
    # a clef that is the only element of the top staff: removing it lowers the number of staves (a count the part may cache)
    base_variants.append(("topstaff", frame + meas + [["clef", 0, 1, "G", 2, 0], ["clef", 0, 2, "F", 4, 0]]))
    base_variants.append(("topstaff3", frame + meas + [["clef", 0, 1, "G", 2, 0], ["clef", 1, 3, "C", 3, 0]]))
    positions = list(range(0, L + 1))
    for name, base in base_variants:
        nbase = len(base)
        edits = []
        for t in positions:
            edits.append([["ts", t, 5, 4]])
            edits.append([["ks", t, -1, "minor"]])
            edits.append([["clef", t, 1, "percussion", 2, None]])
            edits.append([["clef", t, 2, "TAB", 5, 0]])
            edits.append([["clef", t, 3, "jianpu", 1, -1]])
        edits.append([["note", 0, L, 2, "n1"]])
        edits.append([["note", 1, 2, 3, "n2"]])
        edits.append([["meas", L, L + m2, 3], ["note", L, L + m2, 1, "n3"]])
        # the timeline goes on after the final barline: a note sounding over it, an element after it
        edits.append([["note", L - 1, L + 2, 1, "n4"]])
        edits.append([["ks", L + 1, 2, "major"]])
        for i, o in enumerate(base):
            if o[0] in ("ts", "ks", "clef"):
                edits.append([["rm", i]])
        for e in edits:
            case = dict(q=1, maps=["ts", "ks", "clef", "meas"], phases=[base, e])
            if _case_in_scope(case):
                yield case
        if wide:
            for e1, e2 in itertools.permutations(edits, 2):
                if any(o[0] == "rm" for o in e1) and any(o[0] == "rm" for o in e2) and e1 == e2:
                    continue
                if any(o[0] == "meas" for o in e1 + e2) and (e1[0][0] == "meas") and (e2[0][0] == "meas"):
                    continue
                if _clash(base, e1, e2):
                    continue
                case = dict(q=1, maps=["ts", "ks", "clef", "meas"], phases=[base, e1, e2])
                if _case_in_scope(case):
                    yield case


def _clash(base, e1, e2):
    """Two elements of one kind (and staff) at one time, or a double removal."""
    seen = set()
    ops = list(base)
    rm = set()
    for o in e1 + e2:
        if o[0] == "rm":
            if o[1] in rm:
                return True
            rm.add(o[1])
    for i, o in enumerate(ops + e1 + e2):
        if o[0] in ("ts", "ks"):
            key = (o[0], o[1])
        elif o[0] == "clef":
            key = (o[0], o[1], o[2])
        elif o[0] == "meas":
            key = (o[0], o[1])
        else:
            continue
        if i in rm:
            continue
        if key in seen:
            return True
        seen.add(key)
    return False


def _case_in_scope(case):
    """Every phase of the case satisfies the generator preconditions (distinct start times per
    kind and staff; measure clauses only compared where they have one reading)."""
    st = State(case["q"])
    for ph in case["phases"]:
        for o in ph:
            st.apply(o)
        for kind in ("ts", "ks"):
            tt = [o[1] for o in st.of(kind)]
            if len(tt) != len(set(tt)):
                return False
        cc = [(o[1], o[2]) for o in st.of("clef")]
        if len(cc) != len(set(cc)):
            return False
        if "meas" in case["maps"] and st.of("meas") and not measures_in_scope(st):
            return False
    return True


# ---------------------------------------------------------------------------------------------
# in-place changes: the elements are changed without Part.add / Part.remove, then the maps are queried again


def inplace_bases():
    """(name, quarter duration, ops) of the base parts of the in-place spaces."""
    out = []
    # two signatures (6/8 then 2/4, quarter = 2 divisions), two of each other kind, two staves
    out.append(("two", 2, [
        ["note", 0, 10, 1, "n0"], ["note", 6, 8, 2, "n1"], ["note", 1, 2, 1, "n2"],
        ["ts", 0, 6, 8], ["ts", 6, 2, 4], ["meas", 0, 6, 1], ["meas", 6, 10, 2],
        ["ks", 0, 3, "major"], ["ks", 6, -2, "minor"], ["clef", 0, 1, "G", 2, 0], ["clef", 6, 2, "F", 4, None]]))
    # elements start after the first point
    out.append(("gap", 1, [
        ["note", 0, 6, 1, "n0"], ["note", 3, 4, 1, "n1"], ["note", 5, 6, 2, "n2"],
        ["ts", 3, 3, 4], ["meas", 0, 3, 1], ["meas", 3, 6, 2],
        ["ks", 2, 0, None], ["clef", 1, 1, "C", 3, -1], ["clef", 4, 1, "TAB", 5, 1]]))
    # pickup measure, 3/4 then 4/4; staff 1 has no clef
    out.append(("pickup", 1, [
        ["note", 0, 8, 1, "n0"], ["note", 1, 2, 1, "n1"], ["note", 4, 6, 2, "n2"],
        ["ts", 0, 3, 4], ["ts", 4, 4, 4], ["meas", 0, 1, 0], ["meas", 1, 4, 1], ["meas", 4, 8, 2],
        ["clef", 0, 2, "percussion", 2, None]]))
    # one signature with a compound numerator, one staff, no clef
    out.append(("single", 1, [
        ["note", 0, 12, 1, "n0"], ["note", 6, 7, 1, "n1"],
        ["ts", 0, 12, 8], ["meas", 0, 6, 1], ["meas", 6, 12, 2], ["ks", 0, -7, "minor"]]))
    # no signature at all (documented defaults)
    out.append(("none", 1, [
        ["note", 0, 4, 1, "n0"], ["note", 2, 3, 1, "n1"], ["meas", 0, 4, 1], ["clef", 0, 1, "F", 4, 0]]))
    return out


BEATS_PARTNER = {6: 2, 2: 6, 9: 3, 3: 9, 12: 4, 4: 12}  # numerators with the same documented number of musical beats


def _alt_musical_beats(beats):
    for v in (3, 1, 2, 5):
        if v != beats and v != default_musical_beats(beats):
            return v


def inplace_steps(base):
    """The alphabet of edit steps for a base part: dict family -> list of steps; a step is a list
    of ops applied together before the next query."""
    ts = [(i, o) for i, o in enumerate(base) if o[0] == "ts"]
    names = ["%d/%d" % (o[2], o[3]) for _, o in ts] or ["4/4"]
    beats = [o[2] for _, o in ts] or [4]
    d_all = dict((n, _alt_musical_beats(b)) for n, b in zip(names, beats))
    d_first = {names[0]: beats[0]}  # the notated number of beats, stated explicitly
    d_last = {names[-1]: _alt_musical_beats(beats[-1]) + 1, "5/8": 1}
    mode = [[["umb", {}]], [["umb", d_all]], [["umb", d_first]], [["umb", d_last]], [["unb"]],
            [["smb", {}]], [["smb", d_all]], [["smb", d_last]]]
    tsed = []
    for i, o in ts:
        tsed.append([["set", i, "beats", BEATS_PARTNER[o[2]]]])
        tsed.append([["set", i, "beat_type", 8 if o[3] == 4 else 4]])
        tsed.append([["set", i, "beats", 5], ["set", i, "musical_beats", 5]])
        tsed.append([["set", i, "musical_beats", _alt_musical_beats(o[2])]])
        tsed.append([["rm", i]])
    used = set(o[1] for _, o in ts)
    last = max(max(o[1], o[2]) if o[0] in ("note", "meas") else o[1] for o in base)
    free = [t for t in range(0, last + 1) if t not in used]
    for t in (free[0], free[len(free) // 2], free[-1]):
        if [["ts", t, 5, 4]] not in tsed:
            tsed.append([["ts", t, 5, 4]])
    other = []
    for i, o in enumerate(base):
        if o[0] == "ks":
            other.append([["set", i, "fifths", -o[2] - 1]])
            other.append([["set", i, "mode", "minor" if o[3] != "minor" else None]])
        elif o[0] == "clef":
            other.append([["set", i, "sign", "jianpu" if o[3] != "jianpu" else "G"]])
            other.append([["set", i, "line", o[4] % 5 + 1], ["set", i, "octave_change", None if o[5] is not None else -2]])
            other.append([["set", i, "staff", 3 - o[2]]])
        elif o[0] == "meas":
            other.append([["set", i, "number", o[3] + 7]])
    mid = free[len(free) // 2]
    other.append([["ks", mid, 5, None]])
    other.append([["clef", mid, 1, "none", 3, 2]])
    return {"mode": mode, "ts": tsed, "other": other}


def inplace_maps(q, phases, maps):
    """Generator-side precondition of an in-place case: None if some phase leaves the statement
    open, else the families of maps that have one reading after every phase."""
    st = State(q)
    maps = list(maps)
    nst = None
    for ph in phases:
        for o in ph:
            if o[0] in ("rm", "set") and o[1] not in st.live:
                return None
            st.apply(o)
        if st.open or not st.musical_beats_determined():
            return None
        for kind in ("ts", "ks"):
            tt = [o[1] for o in st.of(kind)]
            if len(tt) != len(set(tt)):
                return None
        cc = [(o[1], o[2]) for o in st.of("clef")]
        if len(cc) != len(set(cc)):
            return None
        if nst is not None and st.nstaves() != nst and all(o[0] in ("set", "umb", "unb", "smb") for o in ph):
            # an in-place change of the number of staves: Part.number_of_staves is documented as
            # computed once and refreshed by Part.add / Part.remove (reported, not generated)
            return None
        nst = st.nstaves()
        if "meas" in maps and (not st.of("meas") or not measures_in_scope(st)):
            maps.remove("meas")
    return maps


def _inplace_case(base, q, steps, maps, name):
    phases = [base] + [list(s) for s in steps]
    m = inplace_maps(q, phases, maps)
    if not m:
        return None
    return dict(q=q, maps=m, phases=phases, inplace=name)


def gen_inplace_single():
    """base queried, ONE step of the whole alphabet, queried again; all four families of maps."""
    for name, q, base in inplace_bases():
        al = inplace_steps(base)
        for s in al["mode"] + al["ts"] + al["other"]:
            c = _inplace_case(base, q, [s], ["ts", "ks", "clef", "meas"], name)
            if c:
                yield c


def gen_inplace_ts(depth, alphabet=("mode", "ts"), maps=("ts",), min_depth=2):
    """base queried, then every sequence of min_depth..depth steps over the given alphabet,
    queried after every step."""
    for name, q, base in inplace_bases():
        al = inplace_steps(base)
        steps = sum((al[k] for k in alphabet), [])
        for d in range(min_depth, depth + 1):
            for seq in itertools.product(steps, repeat=d):
                c = _inplace_case(base, q, seq, list(maps), name)
                if c:
                    yield c


# ---------------------------------------------------------------------------------------------
# a caller writes into an array a map returned, then queries the same map object again


def gen_requery(wide=False):
    """Single-phase parts for the space write-into-result-then-query (case key "scribble"): 0-2 (wide: 0-3) key
    signatures / time signatures on a short timeline, clefs on <= 2 staves, tilings by 1-3 (wide: 1-4) measures with
    and without elements after the final barline, and the rich base parts of the edit and in-place spaces."""
    ts_opts = [None, ("at0", 3, 4), ("at0", 6, 8), ("gap", 3, 4)]
    if not wide:
        gens = [gen_ks(3, (0, 1), 2, {1: "pool6", 2: "pool3"}),
                gen_ts(3, (0, 1), TS_POOL[:3], 2, frame="both"),
                gen_clef(2, 2, 1), gen_clef(1, 2, 2),
                gen_meas(range(1, 6), (1,), ts_opts, 3, ("from1",)),
                gen_meas((6,), (2,), ts_opts, 3, ("from0",), with_ks_clef=True),
                gen_meas_beyond((3, 4), (1,), ts_opts[:3], 2, (0, 2), leads=(0, 1), tail_kinds=("over", "ks"))]
    else:
        gens = [gen_ks(4, (0, 2), 3, {1: "all", 2: "pool4", 3: "pool3"}),
                gen_ts(4, (0, 2), TS_POOL[:4], 2, frame="both"),
                gen_clef(3, 2, 2), gen_clef(2, 3, 1),
                gen_meas(range(1, 9), (1, 2), ts_opts + [("at0", 2, 2)], 4, ("from1",)),
                gen_meas((4, 6, 8), (1, 2), ts_opts, 3, ("from0",), with_ks_clef=True),
                gen_meas_beyond(range(2, 7), (1,), ts_opts, 3, (0, 1, 3), leads=(0, 2), tail_kinds=("over", "late", "ks"))]
    for c in itertools.chain(*gens):
        c = dict(c)
        c["scribble"] = 1
        yield c
    if not wide:
        for name, q, base in inplace_bases():
            m = inplace_maps(q, [base], ["ts", "ks", "clef", "meas"])
            if m:
                yield dict(q=q, maps=m, phases=[base], scribble=1)
        for L in (6, 8):
            seen = []
            for c in gen_edits(L):
                if c["phases"][0] not in seen:
                    seen.append(c["phases"][0])
                    yield dict(q=1, maps=list(c["maps"]), phases=[c["phases"][0]], scribble=1)


# ---------------------------------------------------------------------------------------------
# large magnitudes: the small families with every time multiplied by a factor and shifted by an offset, and long
# regular parts; positions are queried in the neighbourhood of every time point (case key "near")

INT32_MAX = 2 ** 31 - 1
MAG_FACTORS = (1, 480, 10080, 302400)
MAG_OFFSETS = (0, 2 ** 16 + 1, 2 ** 24 + 1, 2 ** 31 + 1)
NEAR = 3


class Ref(object):
    """The reference of a state with the element tables gathered once (same readings as ref_ts / ref_ks / ref_clef /
    ref_measures / ref_measure_at, which sort the elements on every call: too slow for parts of thousands of elements)."""

    def __init__(self, st):
        import bisect

        self._bis = bisect.bisect_right
        self.st = st

        def table(elems):
            elems = sorted(elems, key=lambda e: e[0])  # stable, as in in_force
            return [e[0] for e in elems], [e[1] for e in elems]

        self._ts = table([(r[0], (r[1], r[2], r[3])) for r in st.ts_rows()])
        self._ks = table([(o[1], (o[2], MODE_INT[o[3]])) for o in st.of("ks")])
        self.nst = st.nstaves()
        self._clef = []
        for s in range(1, self.nst + 1):
            self._clef.append(table([(o[1], (s, o[3], o[4], o[5] if o[5] is not None else 0))
                                     for o in st.of("clef") if o[2] == s]))
        self.meas = ref_measures(st) if st.of("meas") else []
        self._mstarts = [m[3] for m in self.meas]
        # bisection needs the measures in order without overlap (the generators only make contiguous ones)
        self._tiled = all(a[3] < a[1] <= b[3] for a, b in zip(self.meas, self.meas[1:])) and \
            all(m[3] < m[1] for m in self.meas)

    def _in_force(self, tab, t, default):
        starts, vals = tab
        if not starts:
            return default
        i = self._bis(starts, t)
        return vals[max(i - 1, 0)]

    def ts(self, t):
        return self._in_force(self._ts, t, (4, 4, 4))

    def ks(self, t):
        return self._in_force(self._ks, t, (0, 1))

    def clef(self, t):
        return tuple(self._in_force(tab, t, (s + 1, "none", 0, 0)) for s, tab in enumerate(self._clef))

    def measure_at(self, t):
        if not self._tiled:
            return ref_measure_at(self.meas, t)
        i = self._bis(self._mstarts, t) - 1
        if i >= 0 and self.meas[i][3] <= t < self.meas[i][1]:
            return self.meas[i]
        return None


def near_positions(pts, k):
    """The positions queried when a timeline is too long to ask every integer: every position within k divisions of a
    time point of the part and the midpoint between two neighbouring time points, inside first..last time point."""
    lo, hi = pts[0], pts[-1]
    out = set()
    for p in pts:
        out.update(range(max(lo, p - k), min(hi, p + k) + 1))
    for a, b in zip(pts, pts[1:]):
        out.add((a + b) // 2)
    return sorted(out)


def scale_ops(ops, f, off):
    out = []
    for o in ops:
        o = list(o)
        if o[0] in ("ts", "ks", "clef"):
            o[1] = off + f * o[1]
        elif o[0] in ("meas", "note", "rest"):
            o[1] = off + f * o[1]
            o[2] = off + f * o[2]
        elif o[0] == "setq":
            o[1] = off + f * o[1]
            o[2] = f * o[2]
        else:
            raise ValueError(o)
        out.append(o)
    return out


def _knots(ops):
    """Positions where an element other than a note / rest starts or a measure ends."""
    ks = set()
    for o in ops:
        if o[0] in ("ts", "ks", "clef", "setq"):
            ks.add(o[1])
        elif o[0] == "meas":
            ks.add(o[1])
            ks.add(o[2])
    return sorted(ks)


def magnitude_case(base, f, off, near=NEAR):
    """The one-phase case `base` with every time t replaced by off + f * t and the quarter duration multiplied by f
    (bar lengths, pickups and signatures keep their meaning). Where the base has notes, a note of ONE division is added
    that ends at every signature / clef / measure boundary (so it starts one division before it, for the note-array
    columns); positions beyond int32 cannot be stored in a note array (onset_div is int32): there the notes and rests are
    left out and the timeline is framed by the other elements. -> case or None (nothing left / outside the generator
    preconditions of the measure clauses)."""
    ops = scale_ops(base["phases"][0], f, off)
    tmax = max(max(o[1], o[2]) if o[0] in ("meas", "note", "rest") else o[1] for o in ops)
    has_notes = any(o[0] in ("note", "rest") for o in ops)
    if tmax > INT32_MAX:
        ops = [o for o in ops if o[0] not in ("note", "rest")]
    elif has_notes:
        t0 = min(o[1] for o in ops)
        fine = [["note", k - 1, k, 1, "f%d" % i] for i, k in enumerate(_knots(ops)) if k - 1 >= t0]
        # first or last in the insertion order
        ops = (ops + fine) if (f + off) % 2 else (fine[::-1] + ops)
    if not any(o[0] != "setq" for o in ops):
        return None
    case = dict(q=base["q"] * f, maps=list(base["maps"]), phases=[ops], near=near, mag=[f, off])
    if "beyond" in base:
        case["beyond"] = base["beyond"]
    st = _mk_state(case["q"], ops)
    if len(st.point_times()) < 1:
        return None
    if "meas" in case["maps"]:
        if not st.of("meas") or not measures_in_scope(st):
            return None
    return case


def magnitude_bases(wide=False):
    ts_core = [None, ("at0", 4, 4), ("at0", 3, 4), ("at0", 6, 8), ("at0", 2, 2), ("gap", 3, 4)]
    if not wide:
        return itertools.chain(
            gen_ts(2, (0,), TS_POOL[:3], 2, frame="both"),
            gen_ks(2, (0,), 2, {1: "pool4", 2: "pool3"}),
            gen_clef(2, 2, 1),
            gen_meas(range(1, 5), (1, 2), ts_core, 3, ("from1",)),
            gen_meas((4,), (1,), ts_core, 2, ("odd",), with_ks_clef=True),
            gen_meas_beyond((3, 4), (1,), ts_core[:3], 2, (0, 2), leads=(0, 1), tail_kinds=("over", "ks")),
            gen_meas_setq((4,), 2))
    return itertools.chain(
        gen_ts(3, (0, 1), TS_POOL[:3], 3, frame="both"), gen_ts(4, (0,), TS_POOL[:4], 2, frame="both"),
        gen_ks(3, (0, 1), 2, {1: "all", 2: "pool4"}),
        gen_clef(3, 2, 2), gen_clef(2, 3, 1),
        gen_meas(range(1, 9), (1, 2, 3), ts_core + [("at0", 9, 8), ("at0", 5, 4)], 4, ("from1",)),
        gen_meas((6,), (1, 2), ts_core, 3, ("from0",), with_ks_clef=True),
        gen_meas_beyond(range(2, 5), (1,), ts_core, 3, (0, 1, 3), leads=(0, 1)),
        gen_meas_setq(range(4, 8), 3))


def gen_magnitude(wide=False, factors=MAG_FACTORS, offsets=MAG_OFFSETS):
    """Every base part x every (factor, offset) except (1, 0), which the other spaces enumerate."""
    for base in magnitude_bases(wide):
        for f in factors:
            for off in offsets:
                if f == 1 and off == 0:
                    continue
                c = magnitude_case(base, f, off)
                if c is not None:
                    yield c


LONG_TS = [(4, 4), (3, 4), (6, 8), (5, 4), (2, 2)]


def long_part(n, q, variant):
    """A regular part of n measures, quarter duration q: the time signature changes every 7 measures (4/4 3/4 6/8 5/4
    2/2 in turn), the key signature every 5 (fifths -7..7 going up, modes major / minor / None in turn), the clef of staff
    1 every 4 (CLEF_VALUES in turn), staff 2 gets its only clef at the fourth barline, staff 3 has none; every 11th
    measure is one division short (irregular length); a note of one division starts at every barline and one division
    before every barline (staves 1, 2, 3 in turn).
    variant "plain": full first measure, elements inserted measure by measure;
            "pickup": the first measure is one quarter long and has number 0, signatures and clefs inserted last;
            "shifted": as plain, every time shifted by 2**16 + 1."""
    off = 2 ** 16 + 1 if variant == "shifted" else 0
    sig, meas, notes = [], [], []
    t = off
    for i in range(n):
        b, bt = LONG_TS[(i // 7) % len(LONG_TS)]
        ln = b * 4 * q // bt
        if i == 0 and variant == "pickup":
            ln = q
        elif i % 11 == 10 and ln > 2:
            ln -= 1
        if i % 7 == 0:
            sig.append(["ts", t, b, bt])
        if i % 5 == 0:
            j = i // 5
            sig.append(["ks", t, j % 15 - 7, KS_MODES[j % 3]])
        if i % 4 == 0:
            v = CLEF_VALUES[(i // 4) % len(CLEF_VALUES)]
            sig.append(["clef", t, 1, v[0], v[1], v[2]])
        if i == 3:
            sig.append(["clef", t, 2, "F", 4, -1])
        meas.append(["meas", t, t + ln, i + (0 if variant == "pickup" else 1)])
        notes.append(["note", t, t + 1, 1 + i % 3, "a%d" % i])
        if ln > 1:
            notes.append(["note", t + ln - 1, t + ln, 1 + (i + 1) % 3, "b%d" % i])
        t += ln
    if variant == "pickup":
        ops = meas + notes + sig
    else:
        ops = sorted(sig + meas + notes, key=lambda o: o[1])
    return ops


def gen_long(ns, qs, variants=("plain", "pickup", "shifted"), near=1):
    for n in ns:
        for qi, q in enumerate(qs):
            for v in (variants if variants else [("plain", "pickup", "shifted")[qi % 3]]):
                ops = long_part(n, q, v)
                if not measures_in_scope(_mk_state(q, ops)):
                    raise AssertionError("long part outside the scope of the measure clauses: %r" % ((n, q, v),))
                yield dict(q=q, maps=["ts", "ks", "clef", "meas"], phases=[ops], near=near, long=[n, q, v])


def interleave(small, big, every):
    """`small` with one case of `big` after every `every` cases (the rest of `big` at the end): the runner hands the cases
    to the workers in consecutive chunks, so the expensive cases must not sit next to each other."""
    big = iter(big)
    n = 0
    for c in small:
        yield c
        n += 1
        if n % every == 0:
            b = next(big, None)
            if b is not None:
                yield b
    for b in big:
        yield b
