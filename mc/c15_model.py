"""C15 - case construction and exact reference model for merge_parts.

A case is a JSON-able dict
  {"shape": <container shape>, "mode": "voice"|"staff"|"auto", "parts": [ir part spec, ...], "tag": str}
Part specs are the dictionaries of mc/ir.py with exactly one divisions entry ("divs": [[0, d]]); all
times in a spec are integer positions in the part's own divisions, so the musical time of a position
t is the exact fraction t/d quarters.  Nothing here calls partitura.
"""
import json
from fractions import Fraction
from math import gcd

from mc.ir import midi_pitch, tie_chains

STEPS = ["C", "D", "E", "F", "G", "A", "B"]
MODES = ["voice", "staff", "auto"]

NOTE_KINDS = ("note", "grace")  # the kinds that appear in note arrays
GN_KINDS = ("note", "grace", "unpitched", "rest")

CLASS_OF = {
    "note": "Note", "grace": "GraceNote", "rest": "Rest", "unpitched": "UnpitchedNote",
    "measure": "Measure", "ts": "TimeSignature", "ks": "KeySignature", "clef": "Clef", "page": "Page",
    "system": "System", "barline": "Barline", "slur": "Slur", "tuplet": "Tuplet",
    "dyn": "ConstantLoudnessDirection", "sfz": "ImpulsiveLoudnessDirection", "words": "Words",
    "tempodir": "ConstantTempoDirection", "tempo": "Tempo", "repeat": "Repeat", "ending": "Ending",
    "fine": "Fine", "dacapo": "DaCapo", "segno": "Segno", "dalsegno": "DalSegno", "coda": "Coda",
    "tocoda": "ToCoda", "fermata": "Fermata",
}
# documented "first part only" classes (docstring of merge_parts)
FIRST_ONLY = ("measure", "ts", "ks", "barline", "page", "system")
# dropped from later parts by the code although the docstring does not list them ("TODO: check" in
# the source): the statement does not decide -> both readings accepted for later parts
CODE_ONLY_DISCARD = ("dacapo", "fine", "fermata", "ending", "tempo")


def lcm(a, b):
    return a * b // gcd(a, b)


def lcm_all(xs):
    out = 1
    for x in xs:
        out = lcm(out, x)
    return out


def pdivs(spec):
    return spec["divs"][0][1]


# ---------------------------------------------------------------------------------------------
# spec construction helpers


def note(nid, s, e, step="C", octv=4, voice=1, staff=None, alter=None, **kw):
    o = {"k": "note", "id": nid, "s": s, "e": e, "step": step, "oct": octv, "voice": voice, "staff": staff}
    if alter is not None:
        o["alter"] = alter
    o.update(kw)
    return o


def rest(nid, s, e, voice=1, staff=None):
    return {"k": "rest", "id": nid, "s": s, "e": e, "voice": voice, "staff": staff}


CLEFS = [("G", 2), ("F", 4), ("C", 3), ("C", 4)]
BARLINES = ["light-heavy", "light-light", "heavy-light", "dashed"]


def structure(i, d, beats=4, nmeas=1, kinds=FIRST_ONLY + ("clef",)):
    """structural elements of part number i (content differs by i so that the origin is visible)."""
    out = []
    M = beats * d
    if "ts" in kinds:
        out.append({"k": "ts", "s": 0, "beats": beats, "beat_type": 4})
    if "measure" in kinds:
        for j in range(nmeas):
            out.append({"k": "measure", "s": j * M, "e": (j + 1) * M, "number": 10 * i + j + 1})
    if "ks" in kinds:
        out.append({"k": "ks", "s": 0, "fifths": i - 1, "mode": "major"})
    if "clef" in kinds:
        sign, line = CLEFS[i % 4]
        out.append({"k": "clef", "s": 0, "staff": 1, "sign": sign, "line": line, "oct": 0})
    if "page" in kinds:
        out.append({"k": "page", "s": 0, "number": i + 1})
    if "system" in kinds:
        out.append({"k": "system", "s": 0, "number": i + 1})
    if "barline" in kinds:
        out.append({"k": "barline", "s": nmeas * M, "style": BARLINES[i % 4]})
    return out


def part_spec(i, d, objs, struct=True, beats=4, kinds=None, nmeas=1):
    pid = "P%d" % i
    oo = []
    if struct:
        oo += structure(i, d, beats=beats, nmeas=nmeas, kinds=kinds if kinds is not None else FIRST_ONLY + ("clef",))
    oo += objs
    return {"id": pid, "name": "part %d" % i, "divs": [[0, d]], "objs": oo}


def pid_note(i, j):
    return "p%dn%d" % (i, j)


# ---------------------------------------------------------------------------------------------
# container shapes: how the parts are handed to merge_parts.  The depth-first order of the parts
# is always the list order.

SHAPES_N = {
    1: ["part", "list", "tuple", "group", "list-of-group", "nested", "score", "score-group"],
    2: ["list", "tuple", "group", "list-of-group", "score", "score-group"],
    3: ["list", "tuple", "group", "mixed", "nested", "score", "score-mixed"],
}


def forests(n, depth):
    """every ordered forest with n leaves whose groups are nested at most `depth` deep: a forest is a list of
    nodes, a node is a leaf (None here, numbered afterwards) or a group = non-empty list of nodes (groups
    with a single child, also a single sub-group, included).  Deterministic order."""
    if n == 0:
        yield []
        return
    for k in range(1, n + 1):
        for t in _trees(k, depth):
            for rest_ in forests(n - k, depth):
                yield [t] + rest_


def _trees(n, depth):
    if n == 1:
        yield None
    if depth > 0:
        for f in forests(n, depth - 1):
            yield f


def number_leaves(forest):
    """replace the leaves by 0, 1, ... in depth-first order (= the order of the part list of the case)"""
    cnt = [0]

    def go(x):
        if x is None:
            cnt[0] += 1
            return cnt[0] - 1
        return [go(c) for c in x]

    return [go(x) for x in forest]


def tree_shape(root, forest):
    """shape string of a numbered forest under a root container in {list, tuple, group, score}"""
    return "tree:%s:%s" % (root, json.dumps(forest, separators=(",", "")))


def make_container(shape, parts, S):
    """Returns (argument for merge_parts, Score or PartGroup usable for a score-level array or None)."""

    def grp(children, sym="bracket", name="g", num=1):
        g = S.PartGroup(sym, name, num)
        g.children = list(children)
        for c in children:
            c.parent = g
        return g

    if shape.startswith("tree:"):
        _, root, txt = shape.split(":", 2)
        num = [0]

        def node(x):
            if isinstance(x, int):
                return parts[x]
            num[0] += 1
            return grp([node(c) for c in x], "brace" if num[0] % 2 else "bracket", "g%d" % num[0], num[0])

        top = [node(x) for x in json.loads(txt)]
        if root == "list":
            return top
        if root == "tuple":
            return tuple(top)
        if root == "group":
            return grp(top, "bracket", "root", 0)
        if root == "score":
            return S.Score(top, id="sc")
        raise ValueError(shape)
    if shape == "part":
        return parts[0]
    if shape == "list":
        return list(parts)
    if shape == "tuple":
        return tuple(parts)
    if shape == "group":
        return grp(parts)
    if shape == "list-of-group":
        return [grp(parts)]
    if shape == "mixed":  # [P0, group(P1, ...)]
        return [parts[0], grp(parts[1:])] if len(parts) > 1 else [grp(parts)]
    if shape == "nested":  # group(P0, group(P1, ...))
        if len(parts) > 1:
            return grp([parts[0], grp(parts[1:], "brace", "inner", 2)])
        return grp([grp(parts, "brace", "inner", 2)])
    if shape == "score":
        return S.Score(list(parts), id="sc")
    if shape == "score-group":
        return S.Score([grp(parts)], id="sc")
    if shape == "score-mixed":  # Score([group(P0, P1), P2 ...])
        return S.Score([grp(parts[:2])] + list(parts[2:]), id="sc")
    raise ValueError(shape)


# ---------------------------------------------------------------------------------------------
# scores whose flat part list was edited after construction (sub-space `edited-scores`).  The model of
# a Score is the plain list of its parts (documented attribute `Score.parts`: "All Part objects"); an
# edit is one of the list operations below, carried out through one of the public handles in EDIT_HOWS.

# how an edit kind can be carried out: "item" = item access of the Score (`score[i] = part`),
# "list" = in-place operation on the list `score.parts`, "rebind" = `score.parts = <new list>`
EDIT_HOWS = {
    "set": ("item", "list", "rebind"),
    "swap": ("item", "list", "rebind"),
    "append": ("list", "rebind"),
    "insert": ("list", "rebind"),
    "del": ("list", "rebind"),
}


def edit_ops(n, new):
    """every single edit of a part list of length n, in a fixed order; `new` = number of a part that is
    not (and never was) in the list.  The list never becomes empty and never holds a part twice."""
    ops = [["set", i, new] for i in range(n)]
    ops.append(["append", new])
    ops += [["insert", i, new] for i in range(n)]
    if n > 1:
        ops += [["del", i] for i in range(n)]
    ops += [["swap", i, j] for i in range(n) for j in range(i + 1, n)]
    return ops


def edit_adds(op):
    return op[0] in ("set", "append", "insert")


def apply_edit(lst, op):
    """reference model: the list after the edit (new list)"""
    out = list(lst)
    k = op[0]
    if k == "set":
        out[op[1]] = op[2]
    elif k == "append":
        out.append(op[1])
    elif k == "insert":
        out.insert(op[1], op[2])
    elif k == "del":
        del out[op[1]]
    elif k == "swap":
        out[op[1]], out[op[2]] = out[op[2]], out[op[1]]
    else:
        raise ValueError(op)
    return out


def do_edit(score, op, how, pool):
    """carry the edit out on a real Score (pool = the built Part objects by number)"""
    k = op[0]
    if how == "item":
        if k == "set":
            score[op[1]] = pool[op[2]]
        elif k == "swap":
            score[op[1]], score[op[2]] = score[op[2]], score[op[1]]
        else:
            raise ValueError((op, how))
    elif how == "list":
        ps = score.parts
        if k == "set":
            ps[op[1]] = pool[op[2]]
        elif k == "append":
            ps.append(pool[op[1]])
        elif k == "insert":
            ps.insert(op[1], pool[op[2]])
        elif k == "del":
            del ps[op[1]]
        elif k == "swap":
            ps[op[1]], ps[op[2]] = ps[op[2]], ps[op[1]]
        else:
            raise ValueError((op, how))
    elif how == "rebind":
        cur = list(score.parts)
        pos = {id(p): i for i, p in enumerate(pool)}
        nums = apply_edit([pos[id(p)] for p in cur], op)
        score.parts = [pool[i] for i in nums]
    else:
        raise ValueError(how)


# ---------------------------------------------------------------------------------------------
# reference model


def q(t, d):
    return None if t is None else Fraction(t, d)


def content_key(o):
    """content of a spec object that must survive merging (staff/voice deliberately excluded)"""
    k = o["k"]
    if k in ("note", "grace"):
        return (o["id"], o["step"], o.get("alter") or 0, o["oct"])
    if k == "unpitched":
        return (o["id"], o["step"], o["oct"])
    if k == "rest":
        return (o["id"],)
    if k == "measure":
        return (o.get("number"),)
    if k == "ts":
        return (o["beats"], o["beat_type"])
    if k == "ks":
        return (o["fifths"], o.get("mode"))
    if k == "clef":
        return (o["sign"], o.get("line"), o.get("oct"))
    if k in ("page", "system"):
        return (o.get("number", 1),)
    if k == "barline":
        return (o["style"],)
    if k in ("slur", "tuplet"):
        return (o["a"], o["b"])
    if k in ("dyn", "sfz", "words", "tempodir"):
        return (o["text"],)
    if k == "wedge":
        return ("crescendo" if o.get("dir", "+") == "+" else "diminuendo",)
    if k == "tempo":
        return (o["bpm"],)
    if k == "ending":
        return (o["number"],)
    if k == "fermata":
        return (o.get("ref"),)
    return ()


def class_name(o):
    if o["k"] == "wedge":
        return "IncreasingLoudnessDirection" if o.get("dir", "+") == "+" else "DecreasingLoudnessDirection"
    return CLASS_OF[o["k"]]


def spec_times(part, o):
    """(start_q, end_q) of a spec object; slurs/tuplets take the times of their notes"""
    d = pdivs(part)
    if o["k"] in ("slur", "tuplet"):
        by = {x.get("id"): x for x in part["objs"] if x.get("id") is not None}
        return q(by[o["a"]]["s"], d), q(by[o["b"]]["e"], d)
    return q(o.get("s"), d), q(o.get("e"), d)


def expected_elements(case):
    """(must, may): lists of (class name, content, start_q, end_q).

    must = elements the merged part has to contain; may = elements it is allowed to contain in
    addition (readings the statement leaves open)."""
    mode = case["mode"]
    must, may = [], []
    for i, part in enumerate(case["parts"]):
        for o in part["objs"]:
            k = o["k"]
            sq, eq = spec_times(part, o)
            item = (class_name(o), content_key(o), sq, eq)
            if k in FIRST_ONLY:
                if i == 0:
                    must.append(item)
            elif k == "clef":
                if i == 0:
                    must.append(item)
                elif mode != "voice":
                    # the docstring lists Clef as first-part-only, the code keeps the clefs of the
                    # other inputs when staves are renumbered: both accepted
                    may.append(item)
            elif k in CODE_ONLY_DISCARD:
                (must if i == 0 else may).append(item)
            else:
                must.append(item)
    return must, may


def sounding_rows(case):
    """reference rows per sounding note (tie chains merged):
    dict id -> (part index, onset_q, dur_q, midi pitch, voice, staff)"""
    rows = {}
    for i, part in enumerate(case["parts"]):
        d = pdivs(part)
        for ch in tie_chains(part):
            h = ch[0]
            rows[h["id"]] = (i, Fraction(h["s"], d), Fraction(ch[-1]["e"] - h["s"], d),
                             midi_pitch(h["step"], h.get("alter"), h["oct"]), h.get("voice"), h.get("staff"))
    return rows


def generic_notes(case):
    """list of (part index, id, kind, voice, staff normalised (None -> 1))"""
    out = []
    for i, part in enumerate(case["parts"]):
        for o in part["objs"]:
            if o["k"] in GN_KINDS:
                out.append((i, o["id"], o["k"], o.get("voice"), o.get("staff") if o.get("staff") is not None else 1))
    return out
