"""Harness self-test run by MANIFEST.setup_cmd: imports, schema availability, repo import root."""
import json
import os
import sys

sys.path.insert(0, os.path.dirname(os.path.dirname(os.path.abspath(__file__))))
from mc import core  # noqa


def main():
    core.ensure_repo_on_path()
    import jsonschema

    schema = json.load(open("/root/.vp/EVIDENCE.schema.json")) if os.path.exists("/root/.vp/EVIDENCE.schema.json") else None
    ev = dict(property_id="SELF", tier="quick", seed=0, level="model_checking",
              coverage=dict(states=1, transitions=1, traces_validated_against_impl=1, samples=[{"x": 1}]), wall_s=0.0)
    if schema:
        jsonschema.validate(ev, schema)
    json.load(open(os.path.join(core.VERIF, "known_findings.json")))
    man = json.load(open(os.path.join(core.VERIF, "MANIFEST.json")))
    if os.path.exists("/root/.vp/MANIFEST.schema.json"):
        jsonschema.validate(man, json.load(open("/root/.vp/MANIFEST.schema.json")))
    import importlib

    for c in man["checks"]:
        importlib.import_module("checks." + c["property_id"].lower())
    print("selftest ok: partitura from", core.REPO, "checks:", len(man["checks"]))


if __name__ == "__main__":
    main()
