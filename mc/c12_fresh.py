"""Fresh-process execution for the history-dependent sub-spaces of check C12.

Some conversions of partitura could keep state between calls (module level tables, caches).  To check
that the result of a call does not depend on what was asked before *in the same process*, a sequence of
calls has to start from the state the library has right after import - not from whatever the worker
process did for earlier cases.  Importing partitura in a new interpreter costs seconds, so instead:

  * `start(handler)` is called once per worker process *before the worker evaluates any case* (hook
    `init_worker` of the check).  It forks a "zygote": a copy of the process in which partitura is
    imported and no library function has been called yet.  The zygote never calls the library itself.
  * `run(request)` sends a JSON request to the zygote, which forks a child of itself; the child calls
    `handler(request)` (that is where the library runs), sends the JSON result back and exits.  Every
    request therefore sees the library exactly as it is after import.

The protocol is synchronous (one batch of requests at a time per worker; the zygote keeps up to PIPELINE
children alive at a time and answers in request order), messages are length-prefixed JSON.
A child that does not finish within CHILD_TIMEOUT seconds is killed by SIGALRM (default action) and
reported as {"died": ...}.  Nothing here depends on clocks, pids or scheduling: the result of `run` is
a pure function of (tree, request).
"""
import json
import os
import signal
import struct

CHILD_TIMEOUT = 10
PIPELINE = 3  # children of one zygote alive at a time

_STATE = {"owner": None, "pid": None, "w": None, "r": None, "pristine": None, "broken": None}


def _read_exact(fd, n):
    buf = b""
    while len(buf) < n:
        try:
            b = os.read(fd, n - len(buf))
        except InterruptedError:
            continue
        if not b:
            return None
        buf += b
    return buf


def _read_msg(fd):
    head = _read_exact(fd, 4)
    if head is None:
        return None
    (n,) = struct.unpack("<I", head)
    body = _read_exact(fd, n)
    if body is None:
        return None
    return body


def _write_all(fd, data):
    view = memoryview(data)
    while len(view):
        try:
            k = os.write(fd, view)
        except InterruptedError:
            continue
        view = view[k:]


def _write_msg(fd, body):
    _write_all(fd, struct.pack("<I", len(body)) + body)


def _read_to_eof(fd):
    chunks = []
    while True:
        try:
            b = os.read(fd, 65536)
        except InterruptedError:
            continue
        if not b:
            break
        chunks.append(b)
    return b"".join(chunks)


def _spawn(rfd, wfd, handler, request):
    """fork a child of the zygote that evaluates one request; returns (pid, read end of its result pipe)"""
    cr, cw = os.pipe()
    pid = os.fork()
    if pid == 0:
        code = 0
        try:
            os.close(cr)
            os.close(rfd)
            os.close(wfd)
            signal.alarm(CHILD_TIMEOUT)
            try:
                out = {"ok": handler(request)}
            except BaseException as e:  # noqa  (an error of the handler itself, not of the library)
                import traceback

                out = {"error": "%s: %s" % (type(e).__name__, str(e)[:300]), "tb": traceback.format_exc()[-1200:]}
            signal.alarm(0)
            _write_all(cw, json.dumps(out).encode("utf8"))
        except BaseException:  # noqa
            code = 3
        os._exit(code)
    os.close(cw)
    return pid, cr


def _collect(pid, cr):
    data = _read_to_eof(cr)
    os.close(cr)
    _, status = os.waitpid(pid, 0)
    if not data or status != 0:
        return {"died": "child status %d" % status}
    return json.loads(data.decode("utf8"))


def _zygote_loop(rfd, wfd, handler):
    # never returns
    signal.setitimer(signal.ITIMER_REAL, 0)
    signal.signal(signal.SIGALRM, signal.SIG_DFL)
    try:
        signal.signal(signal.SIGINT, signal.SIG_IGN)
    except Exception:  # noqa
        pass
    while True:
        body = _read_msg(rfd)
        if body is None:  # the worker is gone
            os._exit(0)
        requests = json.loads(body.decode("utf8"))["batch"]
        # every request in its own child; up to PIPELINE children at a time, results in request order
        outs = []
        pending = []
        for rq in requests:
            if len(pending) >= PIPELINE:
                outs.append(_collect(*pending.pop(0)))
            pending.append(_spawn(rfd, wfd, handler, rq))
        while pending:
            outs.append(_collect(*pending.pop(0)))
        _write_msg(wfd, json.dumps({"batch": outs}).encode("utf8"))


def start(handler, pristine=True):
    """Fork the zygote of this process (idempotent per process).  `pristine` records whether the caller
    guarantees that no library function was called in this process yet."""
    me = os.getpid()
    if _STATE["owner"] == me and _STATE["pid"] is not None:
        return
    # descriptors inherited from a parent process that had its own zygote belong to that parent
    if _STATE["owner"] is not None and _STATE["owner"] != me:
        for k in ("w", "r"):
            try:
                os.close(_STATE[k])
            except Exception:  # noqa
                pass
    r1, w1 = os.pipe()
    r2, w2 = os.pipe()
    pid = os.fork()
    if pid == 0:
        try:
            os.close(w1)
            os.close(r2)
            _zygote_loop(r1, w2, handler)
        finally:
            os._exit(0)
    os.close(r1)
    os.close(w2)
    _STATE.update(owner=me, pid=pid, w=w1, r=r2, pristine=bool(pristine), broken=None)


def is_pristine():
    return bool(_STATE["pristine"]) and _STATE["owner"] == os.getpid()


def run_batch(requests, handler=None):
    """Evaluate every request with the handler, each in its own fresh copy of the pristine process; returns the
    list of the handler's JSON results ({"died": ...} for a child that was killed).  Raises RuntimeError for
    failures of the machinery itself (harness error)."""
    if _STATE["owner"] != os.getpid() or _STATE["pid"] is None:
        if handler is None:
            raise RuntimeError("fresh-process runner not started")
        # late start (direct use of eval_case outside the runner): the state is whatever it is now
        start(handler, pristine=False)
    if _STATE["broken"]:
        raise RuntimeError("fresh-process runner out of sync after: %s" % _STATE["broken"])
    try:
        _write_msg(_STATE["w"], json.dumps({"batch": list(requests)}).encode("utf8"))
        body = _read_msg(_STATE["r"])
    except BaseException as e:  # noqa  (incl. the case timeout of the runner: the reply is still in flight)
        _STATE["broken"] = "%s" % type(e).__name__
        raise
    if body is None:
        _STATE["broken"] = "zygote closed the pipe"
        raise RuntimeError("fresh-process runner: zygote exited")
    res = []
    for out in json.loads(body.decode("utf8"))["batch"]:
        if "ok" in out:
            res.append(out["ok"])
        elif "died" in out:
            res.append({"died": out["died"]})
        else:
            raise RuntimeError("fresh-process handler failed: %s\n%s" % (out.get("error"), out.get("tb", "")))
    if len(res) != len(requests):
        _STATE["broken"] = "reply count"
        raise RuntimeError("fresh-process runner: %d replies for %d requests" % (len(res), len(requests)))
    return res


def run(request, handler=None):
    return run_batch([request], handler=handler)[0]
