"""Editing operations on a performed part for C14 (model side, exact Fractions).

A *state* is what the note array of the part has to report:

    {"notes": [{"id", "p", "ch", "on", "off", "vel"}, ...]   (list order = order of PerformedPart.notes)
     "ppq": int, "mpq": int, "thr": int}

An *operation* is a JSON-able list; `ops_for(state, grid, ticks)` enumerates every operation of the
alphabet that is applicable in the state, in a fixed order:

    ["set", i, on, off]      note i gets the new interval (note_on, note_off and sound_off assigned in
                             place; every interval of the grid other than the present one: this covers
                             changing only the onset, only the release, or both)
    ["replace", i, on, off]  list item i is replaced by a new PerformedNote (pitch 62, new id)
    ["append", on, off]      a new PerformedNote is appended (pitch 62)
    ["delete", i]            list item i is deleted
    ["reverse"]              PerformedPart.notes.reverse() (same list object, >= 2 notes)
    ["rotate"]               PerformedPart.notes = notes[1:] + notes[:1] (new list object, >= 2 notes)
    ["silence"]              partitura.utils.music.remove_silence_from_performed_part(part) (>= 1 note)
    ["thr", t]               sustain_pedal_threshold = t (every t of THR other than the present one)
    ["ppq", v] / ["mpq", v]  attribute assignment (only for parts without note_on_tick keys)

`apply_model(state, op)` returns the next state for every operation whose effect on the note
times follows from the case description; for "silence" the shifted times are read back from the
part by the caller (the helper is used as an editing operation, it is not judged here).
"""
from fractions import Fraction as F

THR = [0, 64, 127]
NEW_PITCH = 62
NEW_VEL = 99
# remove_silence_from_performed_part leaves note_on_tick/note_off_tick keys unshifted on the tree as it
# is (reported: proposed_fixes/C14-s-remove-silence-tick-keys.diff), so the operation is not offered on
# parts with tick keys until that fix is in; set to True then.
SILENCE_WITH_TICK_KEYS = True


def intervals(grid):
    return [(a, b) for a in grid for b in grid if a <= b]


def new_intervals(grid):
    """the two intervals used for replaced/appended notes"""
    g = list(grid)
    return [(g[1], g[-1]), (g[0], g[1])]


def alt_ppq(ppq):
    return 120 if ppq != 120 else 480


def alt_mpq(mpq):
    return 750000 if mpq != 750000 else 500000


def fs(x):
    return str(F(x))


def ops_for(state, grid, ticks):
    notes = state["notes"]
    out = []
    for i, n in enumerate(notes):
        for a, b in intervals(grid):
            if (a, b) != (n["on"], n["off"]):
                out.append(["set", i, fs(a), fs(b)])
    for i, n in enumerate(notes):
        for a, b in new_intervals(grid):
            out.append(["replace", i, fs(a), fs(b)])
    a, b = new_intervals(grid)[0]
    out.append(["append", fs(a), fs(b)])
    for i in range(len(notes)):
        out.append(["delete", i])
    if len(notes) >= 2:
        out.append(["reverse"])
        out.append(["rotate"])
    if len(notes) >= 1 and (not ticks or SILENCE_WITH_TICK_KEYS):
        out.append(["silence"])
    for t in THR:
        if t != state["thr"]:
            out.append(["thr", t])
    if not ticks:
        out.append(["ppq", alt_ppq(state["ppq"])])
        out.append(["mpq", alt_mpq(state["mpq"])])
    return out


def fresh_id(state):
    k = 0
    ids = set(n["id"] for n in state["notes"])
    while "e%d" % k in ids:
        k += 1
    return "e%d" % k


def apply_model(state, op):
    """next state; for ["silence"] the note times are left unchanged (caller reads them back)"""
    notes = [dict(n) for n in state["notes"]]
    st = {"notes": notes, "ppq": state["ppq"], "mpq": state["mpq"], "thr": state["thr"]}
    k = op[0]
    if k == "set":
        notes[op[1]]["on"] = F(op[2])
        notes[op[1]]["off"] = F(op[3])
    elif k == "replace":
        old = notes[op[1]]
        notes[op[1]] = {"id": fresh_id(state), "p": NEW_PITCH, "ch": old["ch"], "on": F(op[2]), "off": F(op[3]), "vel": NEW_VEL}
    elif k == "append":
        notes.append({"id": fresh_id(state), "p": NEW_PITCH, "ch": 0, "on": F(op[1]), "off": F(op[2]), "vel": NEW_VEL})
    elif k == "delete":
        del notes[op[1]]
    elif k == "reverse":
        notes.reverse()
    elif k == "rotate":
        st["notes"] = notes[1:] + notes[:1]
    elif k == "thr":
        st["thr"] = op[1]
    elif k == "ppq":
        st["ppq"] = op[1]
    elif k == "mpq":
        st["mpq"] = op[1]
    elif k == "silence":
        pass
    else:
        raise ValueError(op)
    return st


def changes_times(op):
    """does the operation change what the tick columns have to report?"""
    return op[0] not in ("thr",)


def grid_exact(grid, pq):
    ppq, mpq = pq
    return all((F(t) * 1000000 * ppq / mpq).denominator == 1 for t in grid)
