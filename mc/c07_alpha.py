"""C07 - alphabets and deterministic enumerators for match-file lines (pure Python, no partitura).

A case is a JSON-able dict  {"k": kind, "v": "0.3.0", "a": {field: value, ...}}.
Value encodings
  duration   list of components [[numerator, denominator, tuple_div|None], ...]; one component is a
             plain duration, several components are built with the implementation's `+` (left fold)
  pitch      [step, alter|None, octave|None]; the rest spelling is ["R", None, None]
  key        [fifths, mode, fifths_alt|None, mode_alt|None, [other keys ...]]
  time sig.  [numerator, denominator, [[numerator, denominator], ...]]
  floats     plain floats (JSON keeps them exactly)
"""
import itertools

V0 = ["0.1.0", "0.2.0", "0.3.0", "0.4.0", "0.5.0"]
V1 = "1.0.0"
ALL_VERSIONS = V0 + [V1]


def vt(v):
    return tuple(int(x) for x in v.split("."))


# ------------------------------------------------------------------------------------------------
# value alphabets

IDS = ["n1", "12-3", "a_b"]
IDS_X = IDS + ["P01_n1-2", "p1.2"]

STEPS = "CDEFGAB"
ALTERS = [-2, -1, 0, 1, 2]
OCTAVES = [0, 4, 9]
REST = ["R", None, None]
PITCHES = [[s, a, o] for s in STEPS for a in ALTERS for o in OCTAVES]
PITCHES_R = PITCHES + [REST]
# reduced set for composite lines: every step, every accidental, every octave and the rest
PITCHES_S = [["C", 0, 4], ["F", 1, 0], ["B", -1, 9], ["E", 2, 4], ["A", -2, 4], ["G", 0, 9], ["D", -1, 0]]
PITCHES_SR = PITCHES_S + [REST]

MEASURES = [0, 1, 12]
BEATS = [0, 1, 12]

D = lambda *c: [list(x) for x in c]  # noqa
DURS = [
    D((0, 1, None)),
    D((1, 4, None)),
    D((3, 8, None)),
    D((1, 8, 3)),
    D((1, 4, None), (1, 16, None)),
    D((7, 1, None)),
    D((5, 1, 3)),
]
DURS_X = DURS + [
    D((1, 4, 3), (1, 8, None)),
    D((1, 4, None), (1, 16, None), (1, 32, None)),
    D((1, 1024, None)),
    D((1023, 1024, None)),
    D((0, 1, None), (3, 16, None)),
]
# composite lines use a small set
DURS_S = [D((0, 1, None)), D((1, 8, 3)), D((1, 4, None), (1, 16, None)), D((7, 1, None))]

# floats: values on the d-decimal grid and neighbours that are not (ties at the next decimal,
# repeating fractions); "None" = the format writes repr-style shortest text
FLOATS = {
    4: [0.0, 0.5, -0.5, 1.25, 12.3456, 0.0001, 100.1235, 0.12345, 1.0 / 3, 98.29025],
    5: [0.0, 0.5, -4.0, 1.25, 12.34567, 0.00001, 3.33333, 0.123455, 1.0 / 3],
    2: [0.0, 100.0, 5120.0, 200.5, 100.4, 100.6, 0.01, 99.99, 0.005, 1.0 / 3],
    None: [0.0, 0.5, -0.5, 1.25, 12.3456, 0.12345, 1.0 / 3, 0.1 + 0.2, 1e-07, 98.29025],
}
FLOATS_S = {
    4: [0.0, -0.5, 12.3456, 0.12345],
    5: [0.0, -4.0, 12.34567, 0.123455],
    2: [0.0, 200.5, 100.6, 0.005],
    None: [0.0, -0.5, 0.1 + 0.2, 1.0 / 3],
}

ATTRS = [[], ["grace"], ["s", "v1"], ["v1", "staff1", "accent"]]
ANNOT = [[], ["beat"], ["downbeat", "beat"], ["beat", "downbeat", "other"]]
REPEAT = [[], ["end"], ["fine", "volta end"], ["repeat left", "x", "y"]]
ORN = [[], ["trill"], ["mordent", "trill"], ["a", "b", "c"]]
STRLISTS = [[], ["a"], ["lento", "ma non troppo"], ["x", "y", "z"]]
INTLISTS = [[], [2], [2, 4], [3, 3, 2]]

TICKS = [0, 1, 10 ** 6]
# signed times of performed notes and pedals (space `signed-times`): ticks before the reference point of the
# performance are negative; the formats write and read the minus sign.  Small and large magnitudes, both signs.
TICKS_SIGNED = [-10 ** 6, -481, -3, -1, 0, 1, 7]
TICKS_SIGNED_X = TICKS_SIGNED + [-2 ** 31 - 1, -12345, -2, 2 ** 31 + 1]
# two-decimal times of 0.1.0/0.2.0 performed notes: on the grid, off the grid, exact halves, both signs
TIMES2_SIGNED = [-5120.0, -200.5, -100.6, -100.4, -3.0, -0.5, -0.01, 0.0, 2.5, 100.4]
TIMES2_SIGNED_X = TIMES2_SIGNED + [-99.99, -1.0 / 3, -0.005, -1.5, 1.5]
CTRL = [0, 64, 127]
VEL = [0, 1, 64, 127]
MIDIP = [0, 21, 60, 127]
CHANNEL = [0, 1, 15]
TRACK = [0, 1, 9]

STRS = ["n1", "12-3", "a_b", "Etude Op. 10 No. 3", "/path/to/file_1.mid", "Sonata, K. 331 (I)", "Frèdéryk"]

# free text of info lines: all sequences over the characters that structure a match line (brackets,
# full stop, comma, quote, list brackets, dash, the word that opens an info line) and plain text
TEXT_TOKENS = ["a", "1", " ", "(", ")", ".", ",", "'", "[", "]", "-", "info("]
TEXT_TOKENS_X = TEXT_TOKENS + ['"', "\\", ":", "/", "é"]


def text_strings(tokens, length, exclude=()):
    """all concatenations of `length` tokens without leading/trailing white space (the formats strip
    it) and without the tokens in `exclude`; duplicates-free, in enumeration order"""
    toks = [t for t in tokens if t not in exclude]
    seen = set()
    for seq in itertools.product(toks, repeat=length):
        s = "".join(seq)
        if s != s.strip() or s in seen:
            continue
        seen.add(s)
        yield s


MODES = ["major", "minor"]
KEYS30 =[[f, m, None, None, []] for m in MODES for f in range(-7, 8)]


def key(f, m, fa=None, ma=None, others=()):
    return [f, m, fa, ma, [list(o) for o in others]]


# keys with an alternative (relative / arbitrary) key
KEYS_ALT = [
    key(3, "major", 3, "minor"),
    key(-2, "major", -2, "minor"),
    key(0, "minor", 0, "major"),
    key(-3, "minor", -3, "major"),
    key(-7, "major", 7, "minor"),
    key(6, "minor", -6, "major"),
]
# keys followed by further keys (list spelling of 0.3.0 - 0.5.0)
KEYS_LIST = [
    key(-4, "major", -4, "minor", [key(-5, "major", -5, "minor")]),
    key(5, "major", 5, "minor", [key(3, "major", 3, "minor"), key(5, "major", 5, "minor")]),
    key(0, "major", None, None, [key(-1, "minor")]),
    key(2, "minor", None, None, [key(2, "major"), key(-7, "minor"), key(7, "major")]),
]
KEYS_S = [key(0, "major"), key(-2, "major"), key(3, "minor"), key(-7, "minor"), key(7, "major"), key(5, "minor")]

TIMES = [[2, 4, []], [3, 4, []], [4, 4, []], [6, 8, []], [12, 16, []], [3, 2, []], [1, 1, []], [9, 8, []]]
TIMES_LIST = [[3, 4, [[2, 4]]], [6, 8, [[12, 16], [6, 8]]], [3, 4, [[2, 4], [9, 8], [2, 2]]]]
TIMES_S = [[2, 4, []], [6, 8, []], [12, 16, []]]

TEMPI = ["Allegro", "Andante con moto", "lento"]

# ------------------------------------------------------------------------------------------------
# per-version format facts used by generators *and* by the oracle (written from the format
# descriptions, not read from the implementation's tables)


def snote_float_places(v):
    """decimals written for the beat times of a score note; None = shortest repr"""
    if vt(v) >= (1, 0, 0):
        return 4
    if vt(v) < (0, 3, 0):
        return 5
    return None


def note_time_places(v):
    """performed-note times: 2 decimals before 0.3.0, integer ticks afterwards"""
    return 2 if vt(v) < (0, 3, 0) else 0


def has_adj_offset(v):
    return (0, 3, 0) <= vt(v) < (1, 0, 0)


INFO_V1 = {
    "str": ["piece", "scoreFileName", "scoreFilePath", "midiFileName", "midiFilePath", "audioFileName",
            "audioFilePath", "performer", "composer", "subtitle"],
    "float4": ["audioFirstNote", "audioLastNote", "approximateTempo"],
    "int": ["midiClockUnits", "midiClockRate"],
    "version": ["matchFileVersion"],
}
INFO_V0 = {
    "qstr": ["piece", "scoreFileName", "scoreFilePath", "midiFileName", "midiFilename", "midiFilePath",
             "audioFileName", "audioFilePath", "performer", "composer"],
    "str": ["partSequence"],
    "floatN": ["audioFirstNote", "audioLastNote", "approximateTempo"],
    "int": ["midiClockUnits", "midiClockRate"],
    "list": ["subtitle", "tempoIndication", "beatSubDivision", "beatSubdivision", "mergedFrom"],
    "version": ["matchFileVersion"],
    "key": ["keySignature"],
    "time": ["timeSignature"],
}
INTS = [0, 1, 480, 10 ** 6]


def key_spelling(v, where):
    """which spelling a key signature has in version v (where = info | meta | scoreprop)"""
    if vt(v) >= (1, 0, 0):
        return "v1"
    if where == "meta":
        return "v03"
    return "v01" if vt(v) < (0, 3, 0) else "v03l"


def time_is_list(v, where):
    return where == "info" and (0, 4, 0) <= vt(v) < (1, 0, 0)


def keys_for(spelling, small=False):
    """key values the spelling can carry"""
    base = KEYS_S if small else KEYS30
    if spelling == "v01":
        return list(base)  # one key, no alternative
    if spelling in ("v03", "v1"):
        return list(base) + KEYS_ALT
    return list(base) + KEYS_ALT + KEYS_LIST  # v03l


def times_for(is_list, small=False):
    base = TIMES_S if small else TIMES
    return list(base) + (TIMES_LIST if is_list else [])


# ------------------------------------------------------------------------------------------------
# enumerators


def product_cases(fields):
    """full product; fields = [(name, values), ...] -> dicts"""
    names = [n for n, _ in fields]
    for combo in itertools.product(*[vals for _, vals in fields]):
        yield dict(zip(names, combo))


def product_size(fields):
    n = 1
    for _, vals in fields:
        n *= len(vals)
    return n


def pairwise_cases(fields):
    """every pair of values of every two fields occurs at least once; the other fields are cycled
    with field-dependent strides so that they do not move in lock-step; no duplicates."""
    names = [n for n, _ in fields]
    sizes = [len(v) for _, v in fields]
    nf = len(fields)
    seen = set()

    def emit(idx):
        t = tuple(idx)
        if t in seen:
            return None
        seen.add(t)
        return dict((names[i], fields[i][1][t[i]]) for i in range(nf))

    # every single value once (diagonal)
    for k in range(max(sizes)):
        c = emit([k % s for s in sizes])
        if c is not None:
            yield c
    for i in range(nf):
        for j in range(i + 1, nf):
            for a in range(sizes[i]):
                for b in range(sizes[j]):
                    idx = []
                    for f in range(nf):
                        if f == i:
                            idx.append(a)
                        elif f == j:
                            idx.append(b)
                        else:
                            idx.append((a * (f + 1) + b * (f + 2) + i + j + f) % sizes[f])
                    c = emit(idx)
                    if c is not None:
                        yield c


def auto_cases(fields, limit):
    """the full product when it has at most `limit` elements, else all pairs"""
    if product_size(fields) <= limit:
        return product_cases(fields), "full product"
    return pairwise_cases(fields), "all pairs of fields complete, other fields cycled"


def shard(it, block, nblocks):
    return itertools.islice(it, block, None, nblocks)
