"""Canonical, identity-free fingerprints of partitura objects (DESIGN 2.5).

Built only from instance dictionaries and the point array; never calls a partitura method that
computes or caches.  Pure caches/cursors are excluded by name (CACHE_ATTRS).
"""
from fractions import Fraction

import numpy as np

CACHE_ATTRS = {"_number_of_staves", "_quarter_map", "iter_idx", "_ref_attrs"}


def _t(tp):
    return None if tp is None else int(tp.t)


def obj_key(o):
    """Content key that identifies a timed object without using identity."""
    d = getattr(o, "__dict__", {})
    return (
        type(o).__name__,
        _t(d.get("start")),
        _t(d.get("end")),
        _prim(d.get("id")),
        _prim(d.get("number")),
        _prim(d.get("step")),
        _prim(d.get("octave")),
        _prim(d.get("voice")),
        _prim(d.get("staff")),
        _prim(d.get("text")),
    )


def _prim(v):
    if v is None or isinstance(v, (str, bool, int)):
        return v
    if isinstance(v, (np.integer,)):
        return int(v)
    if isinstance(v, (float, np.floating)):
        f = float(v)
        return int(f) if f == int(f) else f
    if isinstance(v, Fraction):
        return (v.numerator, v.denominator)
    return repr(v)


def enc(v, registered, depth=0):
    """Encode an attribute value. `registered` = set of id() of objects registered on the part."""
    import partitura.score as S

    if v is None or isinstance(v, (str, bool, int, float, Fraction, np.integer, np.floating)):
        return _prim(v)
    if isinstance(v, S.TimePoint):
        return ("timepoint", int(v.t))
    if isinstance(v, S.TimedObject):
        return ("ref", obj_key(v), id(v) in registered)
    if isinstance(v, (S.Part, S.PartGroup)):
        return ("container", type(v).__name__, getattr(v, "id", None))
    if isinstance(v, np.ndarray):
        return ("array", str(v.dtype), tuple(_prim(x) if not isinstance(x, (np.void, tuple)) else repr(x) for x in v.ravel().tolist()))
    if isinstance(v, dict):
        return ("dict", tuple(sorted((repr(k), enc(x, registered, depth + 1)) for k, x in v.items())))
    if isinstance(v, (list, tuple)):
        return ("seq", tuple(enc(x, registered, depth + 1) for x in v))
    if isinstance(v, (set, frozenset)):
        return ("set", tuple(sorted(repr(enc(x, registered, depth + 1)) for x in v)))
    if hasattr(v, "__dict__") and depth < 4:
        return (
            "obj",
            type(v).__name__,
            tuple(sorted((k, enc(x, registered, depth + 1)) for k, x in vars(v).items() if k not in CACHE_ATTRS)),
        )
    if callable(v):
        return ("callable",)
    return repr(v)


def part_objects(part):
    """All objects listed by any point of the part, de-duplicated by identity."""
    seen = {}
    for tp in part._points:
        for reg in (tp.starting_objects, tp.ending_objects):
            for cls, oo in reg.items():
                for o in oo:
                    seen.setdefault(id(o), o)
    return list(seen.values())


def fp_object(o, registered, ignore=()):
    attrs = []
    for k, v in vars(o).items():
        if k in ("start", "end") or k in CACHE_ATTRS or k in ignore:
            continue
        attrs.append((k, enc(v, registered)))
    return (obj_key(o), tuple(sorted(attrs)))


def fp_part(part, ignore=(), ignore_classes=()):
    objs = part_objects(part)
    registered = {id(o) for o in objs}
    pts = list(part._points)
    index = {id(tp): i for i, tp in enumerate(pts)}
    points = []
    for tp in pts:
        def link(x):
            if x is None:
                return None
            return index.get(id(x), "foreign")

        regs = []
        for reg in (tp.starting_objects, tp.ending_objects):
            r = []
            for cls, oo in reg.items():
                if len(oo) == 0 or cls.__name__ in ignore_classes:
                    continue
                r.append((cls.__name__, tuple(sorted(repr(obj_key(o)) for o in oo))))
            regs.append(tuple(sorted(r)))
        points.append((int(tp.t), _prim(tp.quarter), link(tp.prev), link(tp.next), regs[0], regs[1]))
    ofp = sorted(
        (repr(fp_object(o, registered, ignore)) for o in objs if type(o).__name__ not in ignore_classes)
    )
    # objects whose start/end point is not the point that lists them show up as a differing obj_key
    head = tuple(
        sorted(
            (k, enc(v, registered))
            for k, v in vars(part).items()
            if k not in CACHE_ATTRS and k not in ("_points", "parent") and k not in ignore
        )
    )
    parent = getattr(part, "parent", None)
    return ("Part", head, ("parent", None if parent is None else type(parent).__name__), tuple(points), tuple(ofp))


def fp_group(g, ignore=()):
    import partitura.score as S

    if isinstance(g, S.Part):
        return fp_part(g, ignore)
    head = tuple(
        sorted((k, enc(v, set())) for k, v in vars(g).items() if k not in ("children", "parent") and k not in CACHE_ATTRS)
    )
    return ("PartGroup", head, tuple(fp_group(c, ignore) for c in g.children))


def fp_score(score, ignore=()):
    head = tuple(
        sorted(
            (k, enc(v, set()))
            for k, v in vars(score).items()
            if k not in ("parts", "part_structure") and k not in CACHE_ATTRS
        )
    )
    return (
        "Score",
        head,
        tuple(fp_group(g, ignore) for g in score.part_structure),
        tuple(fp_part(p, ignore) for p in score.parts),
    )


def fp_performed_part(pp):
    out = []
    for k, v in sorted(vars(pp).items()):
        if k in CACHE_ATTRS:
            continue
        if k == "notes":
            out.append((k, tuple(_fp_pnote(n) for n in v)))
        else:
            out.append((k, enc(v, set())))
    return ("PerformedPart", tuple(out))


def _fp_pnote(n):
    if hasattr(n, "pnote_dict"):
        d = n.pnote_dict
    elif isinstance(n, dict):
        d = n
    else:
        d = vars(n)
    return tuple(sorted((str(k), enc(v, set())) for k, v in d.items()))


def fp_performance(perf):
    head = tuple(
        sorted((k, enc(v, set())) for k, v in vars(perf).items() if k not in ("performedparts",) and k not in CACHE_ATTRS)
    )
    return ("Performance", head, tuple(fp_performed_part(p) for p in perf.performedparts))


def fp_any(x):
    import partitura.score as S
    import partitura.performance as P

    if isinstance(x, S.Score):
        return fp_score(x)
    if isinstance(x, S.Part):
        return fp_part(x)
    if isinstance(x, S.PartGroup):
        return fp_group(x)
    if isinstance(x, P.Performance):
        return fp_performance(x)
    if isinstance(x, P.PerformedPart):
        return fp_performed_part(x)
    if isinstance(x, np.ndarray):
        return ("ndarray", str(x.dtype), x.shape, x.tobytes())
    if isinstance(x, (list, tuple)):
        return tuple(fp_any(y) for y in x)
    return enc(x, set())


def diff(a, b, path="", out=None, limit=6):
    """Human-readable first differences between two fingerprints."""
    if out is None:
        out = []
    if len(out) >= limit:
        return out
    if type(a) != type(b):
        out.append("%s: %r != %r" % (path, _short(a), _short(b)))
    elif isinstance(a, tuple):
        if len(a) != len(b):
            out.append("%s: len %d != %d (%s | %s)" % (path, len(a), len(b), _short(a), _short(b)))
        else:
            for i, (x, y) in enumerate(zip(a, b)):
                if x != y:
                    diff(x, y, "%s[%d]" % (path, i), out, limit)
    elif a != b:
        out.append("%s: %r != %r" % (path, _short(a), _short(b)))
    return out


def _short(x):
    s = repr(x)
    return s if len(s) < 300 else s[:300] + "..."
