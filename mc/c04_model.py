"""C04 helpers: reference model of the score -> MIDI mapping (exact arithmetic, written from the
documentation of save_score_midi / load_score_midi and the property statement) and the bounded
generators of score descriptions (specs in the mc/ir.py format).

Nothing in this file calls partitura.
"""
from fractions import Fraction
from itertools import product

from mc.ir import quarters_between, tie_chains, midi_pitch

POLICIES = ("shift", "pad_bar", "time_sig_change")
MODES = (0, 1, 2, 3, 4, 5)

_STEPS = [("C", 0), ("C", 1), ("D", 0), ("D", 1), ("E", 0), ("F", 0), ("F", 1), ("G", 0), ("G", 1), ("A", 0),
          ("A", 1), ("B", 0)]

MAJOR = ["Cb", "Gb", "Db", "Ab", "Eb", "Bb", "F", "C", "G", "D", "A", "E", "B", "F#", "C#"]
MINOR = ["Ab", "Eb", "Bb", "F", "C", "G", "D", "A", "E", "B", "F#", "C#", "G#", "D#", "A#"]

UNIT_FACTOR = {"q": Fraction(1), "h": Fraction(2), "e": Fraction(1, 2), "q.": Fraction(3, 2), "h.": Fraction(3)}


def key_name(fifths, mode):
    if mode == "minor":
        return MINOR[fifths + 7] + "m"
    return MAJOR[fifths + 7]


def lcm(a, b):
    from math import gcd

    return a * b // gcd(a, b)


# ---------------------------------------------------------------------------------------------
# spec constructors


def spell(m):
    step, alter = _STEPS[m % 12]
    return step, alter, m // 12 - 1


def note(nid, s, e, m, voice=1, tie=None):
    step, alter, octv = spell(m)
    o = {"k": "note", "id": nid, "s": s, "e": e, "step": step, "alter": alter or None, "oct": octv,
         "voice": voice, "staff": 1}
    if tie is not None:
        o["tie"] = tie
    return o


def grace(nid, s, m, voice=1, nxt=None, gtype="grace"):
    step, alter, octv = spell(m)
    o = {"k": "grace", "id": nid, "s": s, "e": s, "step": step, "alter": alter or None, "oct": octv,
         "voice": voice, "staff": 1, "gtype": gtype, "sym": {"type": "eighth"}}
    if nxt is not None:
        o["next"] = nxt
    return o


def rest(nid, s, e, voice=1):
    return {"k": "rest", "id": nid, "s": s, "e": e, "voice": voice, "staff": 1}


def measure(number, s, e):
    return {"k": "measure", "number": number, "s": s, "e": e}


def ts(s, beats, beat_type):
    return {"k": "ts", "s": s, "beats": beats, "beat_type": beat_type}


def ks(s, fifths, mode):
    return {"k": "ks", "s": s, "fifths": fifths, "mode": mode}


def tempo(s, bpm, unit="q"):
    return {"k": "tempo", "s": s, "bpm": bpm, "unit": unit}


def part(pid, divs, objs):
    return {"id": pid, "name": pid, "divs": [list(x) for x in divs], "objs": objs}


def group(children, name="G", number=1):
    return {"group": {"symbol": "bracket", "name": name, "number": number}, "children": children}


def flat_parts(score_spec):
    """[(index of the top-level item, part spec)] in document order"""
    out = []

    def rec(x, top):
        if "group" in x:
            for c in x["children"]:
                rec(c, top)
        else:
            out.append((top, x))

    for i, x in enumerate(score_spec["parts"]):
        rec(x, i)
    return out


# ---------------------------------------------------------------------------------------------
# reference model


class PartModel(object):
    def __init__(self, ps, top, idx):
        self.spec = ps
        self.top = top
        self.idx = idx
        self.divs = ps["divs"]
        objs = ps["objs"]
        times = [o[k] for o in objs for k in ("s", "e") if o.get(k) is not None]
        self.first = min(times)
        self.last = max(times)
        if self.first != 0:
            raise ValueError("generator must start every part at timeline position 0")
        self.measures = [(o["s"], o["e"]) for o in objs if o["k"] == "measure"]
        self.tss = sorted([(o["s"], o["beats"], o["beat_type"]) for o in objs if o["k"] == "ts"],
                          key=lambda x: x[0])
        self.kss = sorted([(o["s"], o["fifths"], o.get("mode")) for o in objs if o["k"] == "ks"],
                          key=lambda x: x[0])
        self.tempos = [(o["s"], o["bpm"], o.get("unit") or "q") for o in objs if o["k"] == "tempo"]
        # pickup: first measure starting at the first point is shorter than the time signature
        # starting there (partitura's convention for quarter/beat zero, see Part.quarter_map)
        self.q0 = Fraction(0)
        m1 = next((m for m in self.measures if m[0] == self.first), None)
        t1 = next((t for t in self.tss if t[0] == self.first), None)
        if m1 is not None and t1 is not None:
            actual = self.Q(m1[1]) - self.Q(m1[0])
            nominal = Fraction(t1[1] * 4, t1[2])
            if actual < nominal:
                self.q0 = -actual

    def Q(self, t):
        """exact quarters elapsed between timeline position 0 and t"""
        return quarters_between(self.divs, 0, t)

    def ts_at(self, t):
        """notated time signature in force at t (the first one also backwards), None if the part has none"""
        if not self.tss:
            return None
        cur = self.tss[0]
        for x in self.tss:
            if x[0] <= t:
                cur = x
        return (cur[1], cur[2])

    def chains(self):
        out = []
        for ch in tie_chains(self.spec):
            h = ch[0]
            out.append((h["s"], ch[-1]["e"], midi_pitch(h["step"], h.get("alter"), h["oct"]), h.get("voice")))
        return out


class Model(object):
    def __init__(self, score_spec):
        self.parts = [PartModel(ps, top, i) for i, (top, ps) in enumerate(flat_parts(score_spec))]
        L = 1
        for pm in self.parts:
            for _, d in pm.divs:
                L = lcm(L, d)
        self.L = L
        self.tops_are_groups = ["group" in x for x in score_spec["parts"]]

    def fractional_measures(self):
        """[(part index, start, end, beats)] of measures whose length is not a whole number of beats of the
        notated time signature"""
        out = []
        for pm in self.parts:
            if not pm.tss:
                continue
            for s, e in pm.measures:
                b, bt = pm.ts_at(s)
                beats = (pm.Q(e) - pm.Q(s)) * Fraction(bt, 4)
                if beats.denominator != 1:
                    out.append((pm.idx, s, e, beats))
        return out

    def ppq(self, minimum):
        p = self.L
        while p < minimum:
            p *= 2
        return p

    def has_pickup(self):
        return min(pm.q0 for pm in self.parts) < 0

    def origin(self, pol):
        """quarter position (in partitura's pickup-relative quarters) that is mapped to tick 0"""
        q0 = min(pm.q0 for pm in self.parts)
        if q0 >= 0:
            return Fraction(0)
        if pol in ("shift", "time_sig_change"):
            return q0
        pm = next(p for p in self.parts if p.q0 == q0)
        b, bt = pm.ts_at(0)
        return -Fraction(b * 4, bt)

    def tick(self, pm, t, ppq, origin):
        return ppq * (pm.Q(t) + pm.q0 - origin)

    def label(self, mode, pm, voice):
        """(track label, channel label) of the documented export table"""
        if mode == 0:
            return ("p", pm.idx), ("v", voice)
        if mode == 1:
            return ("g", pm.top), ("p", pm.idx)
        if mode == 2:
            return ("all",), ("p", pm.idx)
        if mode == 3:
            return ("p", pm.idx), ("one",)
        if mode == 4:
            return ("all",), ("one",)
        if mode == 5:
            return ("pv", pm.idx, voice), ("one",)
        raise ValueError(mode)

    def import_label(self, mode, pm, voice):
        """(top-level item, part, voice) labels after exporting and importing with the same mode
        (composition of the two documented tables)"""
        if mode == 0:
            return ("p", pm.idx), ("p", pm.idx), ("v", voice)
        if mode == 1:
            return ("g", pm.top), ("p", pm.idx), ("one",)
        if mode == 2:
            return ("all",), ("all",), ("one",)
        if mode == 3:
            return ("p", pm.idx), ("p", pm.idx), ("one",)
        if mode == 4:
            return ("all",), ("all",), ("one",)
        if mode == 5:
            return ("pv", pm.idx, voice), ("pv", pm.idx, voice), ("one",)
        raise ValueError(mode)

    def expected(self, mode, pol, minimum):
        """Everything the statement fixes for one configuration, in ticks (Fractions)."""
        ppq = self.ppq(minimum)
        org = self.origin(pol)
        notes = []  # (on, off, pitch, track label, channel label, import labels)
        integral = True
        for pm in self.parts:
            for s, e, pitch, voice in pm.chains():
                on = self.tick(pm, s, ppq, org)
                off = self.tick(pm, e, ppq, org)
                if on.denominator != 1 or off.denominator != 1:
                    integral = False
                tr, ch = self.label(mode, pm, voice)
                notes.append(dict(on=on, off=off, pitch=pitch, part=pm.idx, tr=tr, ch=ch, imp=self.import_label(mode, pm, voice)))
        # key signatures per part
        ks_by_part = {}
        for pm in self.parts:
            ks_by_part[pm.idx] = sorted({(self.tick(pm, s, ppq, org), f, "minor" if m == "minor" else "major")
                                         for s, f, m in pm.kss})
        # tempo marks (global)
        tempos = {}
        for pm in self.parts:
            for s, bpm, unit in pm.tempos:
                tempos[self.tick(pm, s, ppq, org)] = Fraction(60 * 10 ** 6) / (Fraction(bpm) * UNIT_FACTOR[unit])
        # time signatures: the generator gives every part the same measures and time signatures
        # (in musical time), so one description serves all tracks and all imported parts
        pm0 = self.parts[0]
        tsd = dict(kind="none")
        sig = [[(self.tick(pm, s, ppq, org), b, bt) for s, b, bt in pm.tss] for pm in self.parts]
        meas = [[(self.tick(pm, s, ppq, org), self.tick(pm, e, ppq, org)) for s, e in pm.measures] for pm in self.parts]
        uniform = all(x == sig[0] for x in sig)
        if pol == "time_sig_change":
            # parts may have different lengths: the common measures must agree
            n = min(len(x) for x in meas)
            uniform = uniform and all(x[:n] == meas[0][:n] for x in meas)
            pm0 = max(self.parts, key=lambda pm: len(pm.measures))
            meas = [meas[pm0.idx]]
            sig = [sig[pm0.idx]]
        if uniform:
            if pol == "shift":
                tsd = dict(kind="exact", sets=[sorted(set(sig[0]))])
            elif pol == "pad_bar":
                a = sorted(set(sig[0]))
                sets = [a]
                if sig[0]:
                    first = sig[0][0]
                    alt = sorted(set([(Fraction(0), first[1], first[2])] + sig[0][1:]))
                    sets = [alt, a] if alt != a else [a]
                tsd = dict(kind="exact", sets=sets)
            else:
                if pm0.tss:
                    pts = []
                    for (s, e), (ts_, te_) in zip(pm0.measures, meas[0]):
                        b, bt = pm0.ts_at(s)
                        actual = (pm0.Q(e) - pm0.Q(s)) * Fraction(bt, 4)
                        if actual == b:
                            pts.append((ts_, b, bt))
                        elif actual.denominator == 1:
                            pts.append((ts_, int(actual), bt))
                        # a measure with a fractional number of beats: no expectation (documented TODO)
                    allowed = sorted({x for m in meas[0] for x in m} | {x[0] for x in sig[0]})
                    tsd = dict(kind="inforce", points=pts, allowed=allowed)
        return dict(ppq=ppq, notes=notes, ks=ks_by_part, tempos=tempos, ts=tsd, integral=integral, origin=org)


# ---------------------------------------------------------------------------------------------
# generators (pure, deterministic, simplest first)


def compositions(n):
    """all tuples of positive ints summing to n, in lexicographic order of the cut mask"""
    if n == 0:
        yield ()
        return
    for mask in range(1 << (n - 1)):
        parts, cur = [], 1
        for i in range(n - 1):
            if mask >> i & 1:
                parts.append(cur)
                cur = 1
            else:
                cur += 1
        parts.append(cur)
        yield tuple(parts)


def bars_cover(total, bar, start=0, number=1):
    """measure objects of length `bar` from `start` covering `total` (last one complete)"""
    out = []
    t = start
    while t < total or not out:
        out.append(measure(number, t, t + bar))
        t += bar
        number += 1
    return out


def staircase(s, e, step=1, base=60, voice=1, prefix="n"):
    return [note("%s%d" % (prefix, t), t, min(t + step, e), base + 2 * ((t // step) % 3), voice) for t in range(s, e, step)]


def gen_grid(ds):
    """single voice, every division position carries a note; 2/4; pickups of every length"""
    for d in ds:
        bar = 2 * d
        pick = list(range(0, bar)) if d <= 6 else [0, 1, d - 1, d, d + 1, bar - 1]
        for p in pick:
            objs = [ts(0, 2, 4)]
            ms = ([measure(0, 0, p)] if p else []) + bars_cover(p + 2 * bar, bar, start=p)
            objs += ms
            objs += staircase(0, p + 2 * bar)
            yield dict(score={"parts": [part("P1", [(0, d)], objs)]}, tag="grid d=%d p=%d" % (d, p))


RHYTHM_SETTINGS = {
    # name: (divisions, slot length in divisions, slots per bar, beats, beat_type)
    "trip3": (3, 1, 3, 1, 4),
    "e38": (2, 1, 3, 3, 8),
    "trip12": (12, 4, 3, 1, 4),
    "sext6": (6, 1, 6, 1, 4),
    "q34": (1, 1, 3, 3, 4),
    "trip24": (24, 8, 3, 1, 4),
    "quint5": (5, 1, 5, 1, 4),
}

_KIND_PITCHES = {0: (), 1: (60,), 2: (64,), 3: (60, 64)}


def gen_rhythm(setting, n, chords=True):
    """all compositions of n slots into events (rest / A / B / chord AB), every subset of the
    possible ties between neighbouring events of a common pitch; notes may cross barlines untied"""
    d, u, spb, beats, bt = RHYTHM_SETTINGS[setting]
    kinds_all = (0, 1, 2, 3) if chords else (0, 1, 2)
    for comp in compositions(n):
        k = len(comp)
        starts = [sum(comp[:i]) for i in range(k)]
        for kinds in product(kinds_all, repeat=k):
            if not any(kinds):
                continue
            elig = [i for i in range(k - 1) if set(_KIND_PITCHES[kinds[i]]) & set(_KIND_PITCHES[kinds[i + 1]])]
            for mask in product((0, 1), repeat=len(elig)):
                tied = {i for i, b in zip(elig, mask) if b}
                objs = [ts(0, beats, bt)]
                objs += bars_cover(n * u, spb * u)
                for i in range(k):
                    s, e = starts[i] * u, (starts[i] + comp[i]) * u
                    if kinds[i] == 0:
                        objs.append(rest("r%d" % i, s, e))
                    for m in _KIND_PITCHES[kinds[i]]:
                        tie = None
                        if i in tied and m in _KIND_PITCHES[kinds[i + 1]]:
                            tie = "n%d_%d" % (i + 1, m)
                        objs.append(note("n%d_%d" % (i, m), s, e, m, 1, tie))
                yield dict(score={"parts": [part("P1", [(0, d)], objs)]},
                           tag="rhythm %s n=%d comp=%s kinds=%s ties=%s" % (setting, n, comp, kinds, sorted(tied)))


PICKUP_METERS = [(4, 4), (3, 4), (6, 8), (2, 2), (3, 8), (2, 4)]


def _fill(ms, d, step, base=60):
    """one note per `step` divisions in every measure; pairs of equal pitch so that some pairs meet at a
    barline and are tied there"""
    notes = []
    j = 0
    for (s, e) in ms:
        t = s
        while t < e:
            notes.append([t, min(t + step, e), base + 2 * ((j // 2) % 3)])
            t += step
            j += 1
    objs = []
    for i, (s, e, m) in enumerate(notes):
        tie = None
        if i + 1 < len(notes) and notes[i + 1][2] == m and any(e == ms_[0] for ms_ in ms[1:]):
            tie = "n%d" % (i + 1)
        objs.append(note("n%d" % i, s, e, m, 1, tie))
    return objs


def gen_pickup(ds, variants=("plain", "tschange", "shortmid", "shortlast", "longmid")):
    """every pickup length; key change, tempo marks, time signature change, irregular measures"""
    for beats, bt in PICKUP_METERS:
        for d in ds:
            if (beats * 4 * d) % bt:
                continue
            bar = beats * 4 * d // bt
            beat = 4 * d // bt if (4 * d) % bt == 0 else None
            if beat is None:
                continue
            picks = list(range(0, bar)) if bar <= 8 else sorted({0, 1, beat, bar - beat, bar - 1, bar // 2})
            for p in picks:
                for var in variants:
                    ms = ([(0, p)] if p else [])
                    t = p
                    tss = [(0, beats, bt)]
                    if var == "plain":
                        ms += [(t, t + bar), (t + bar, t + 2 * bar)]
                    elif var == "tschange":
                        nb = beats + 1
                        ms += [(t, t + bar), (t + bar, t + bar + nb * beat), (t + bar + nb * beat, t + bar + 2 * nb * beat)]
                        tss.append((t + bar, nb, bt))
                    elif var == "shortmid":
                        if beats < 2:
                            continue
                        ms += [(t, t + bar), (t + bar, t + bar + beat), (t + bar + beat, t + 2 * bar + beat)]
                    elif var == "shortlast":
                        if beats < 2:
                            continue
                        ms += [(t, t + bar), (t + bar, t + bar + beat)]
                    elif var == "longmid":
                        # a measure one beat too long, followed by a time signature change
                        x = t + 2 * bar + beat
                        ms += [(t, t + bar), (t + bar, x), (x, x + (beats + 1) * beat)]
                        tss.append((x, beats + 1, bt))
                    objs = [ts(*x) for x in tss]
                    objs += [measure(i + (0 if p else 1), s, e) for i, (s, e) in enumerate(ms)]
                    objs += [ks(0, -2, "major" if p % 2 == 0 else None), ks(ms[-1][0], 3, "minor")]
                    objs += [tempo(0, 90, "q"), tempo(ms[1][0], 66, "q." if var == "plain" else "h")]
                    objs += _fill(ms, d, beat if beat >= 1 else 1)
                    yield dict(score={"parts": [part("P1", [(0, d)], objs)]},
                               tag="pickup %d/%d d=%d p=%d %s" % (beats, bt, d, p, var))


def _voice_notes(d, p, pidx, vidx, pat, pitch):
    """notes of one voice on a 2/4 grid of two bars after a pickup of p divisions"""
    bar = 2 * d
    if pat == 0:
        iv = [(0, d, 0), (d, d + 1, 1), (d + 1, bar, 0, "tie"), (bar, bar + d, 0)]
    elif pat == 1:
        iv = [(0, 1, 0), (1, bar, 1), (bar, 2 * bar, 0)]
    else:
        iv = [(d, bar + d, 0), (bar + d, 2 * bar, 1)]
    iv = [x for x in iv if x[1] > x[0]]
    out = []
    pre = "p%dv%s_" % (pidx, vidx)
    if p:
        out.append(note(pre + "a", 0, p, pitch, vidx))
    for j, x in enumerate(iv):
        tie = None
        if len(x) == 4 and j + 1 < len(iv):
            tie = pre + str(j + 1)
        out.append(note(pre + str(j), p + x[0], p + x[1], pitch + x[2], vidx, tie))
    return out


def _mode_part(pid, pidx, d, voices, pickup, fifths, with_meta=True, extra_bar=False):
    p = d if pickup else 0
    bar = 2 * d
    objs = []
    if with_meta:
        objs.append(ts(0, 2, 4))
        objs += ([measure(0, 0, p)] if p else []) + [measure(1, p, p + bar), measure(2, p + bar, p + 2 * bar)]
        if extra_bar:
            # this part goes on for one more bar than the others
            objs.append(measure(3, p + 2 * bar, p + 3 * bar))
            if voices:
                objs.append(note("p%dx" % pidx, p + 2 * bar, p + 3 * bar - 1, 90 + pidx, voices[0]))
            else:
                objs.append(rest("p%dx" % pidx, p + 2 * bar, p + 3 * bar))
        objs.append(ks(0, fifths, "major"))
        objs.append(tempo(0, 100, "q"))
        objs.append(ks(p + bar, fifths - 1, "minor"))
    for j, v in enumerate(voices):
        objs += _voice_notes(d, p, pidx, v, (pidx + j) % 3, 40 + 9 * pidx + 3 * j)
    if not voices:
        # a tacet part: rests only
        objs += ([rest("p%dr0" % pidx, 0, p)] if p else []) + [rest("p%dr1" % pidx, p, p + bar), rest("p%dr2" % pidx, p + bar, p + 2 * bar)]
    return part(pid, [(0, d)], objs)


# structure: nested lists; an int n = a part with voices numbered per VOICES[n]
VOICE_SETS = {1: [1], 2: [1, 2], 3: [2, 1, 3], 0: [None], 5: [5], 9: [], 7: [None, 1], 8: [2, 0, 1]}
STRUCTURES = [
    ("1p2v", [2]),
    ("1p3v", [3]),
    ("1pNone", [0]),
    ("2p", [1, 1]),
    ("2p-2v1v", [2, 1]),
    ("g(2p)", [[1, 1]]),
    ("g(2p)+p", [[1, 2], 1]),
    ("p+g(2p)", [1, [2, 1]]),
    ("g(p)+g(2p)", [[1], [1, 1]]),
    ("g(g(2p),p)+p", [[[1, 1], 2], 5]),
    ("3p2v", [2, 2, 2]),
    ("p+tacet+p", [1, 9, 2]),
    ("g(tacet,p)+p", [[9, 1], 1]),
    # parts in which notes without a voice number (None, or 0) stand next to numbered voices
    ("1pNone+v1", [7]),
    ("g(pNone+v1,p)+p0v", [[7, 1], 8]),
]
DIV_PATTERNS = [[4, 6, 1, 12], [6, 4, 12, 2], [1, 12, 3, 2], [2, 3, 4, 1], [2, 2, 2, 2]]
DIV_PATTERNS_MORE = [[3, 4, 6, 1], [12, 6, 4, 3], [24, 1, 2, 3], [1, 1, 1, 1], [5, 2, 7, 1], [8, 12, 1, 6]]


def gen_modes(patterns=None):
    pats = DIV_PATTERNS if patterns is None else patterns
    for name, struct in STRUCTURES:
        for dpi, dp in enumerate(pats):
          for uneven in ((False, True) if dpi == 0 and str(struct).count(",") > 0 else (False,)):
            for pickup in (False, True):
                counter = [0]

                def rec(x, depth=0):
                    if isinstance(x, list):
                        return group([rec(c, depth + 1) for c in x], name="G%d" % depth, number=depth + 1)
                    i = counter[0]
                    counter[0] += 1
                    return _mode_part("P%d" % (i + 1), i, dp[i % len(dp)], VOICE_SETS[x], pickup, fifths=i - 1,
                                      extra_bar=uneven and i % 2 == 1)

                items = [rec(x) for x in struct]
                yield dict(score={"parts": items}, tag="modes %s divs=%s pickup=%s%s" % (name, dp, pickup, " uneven" if uneven else ""))


def gen_touch(ds=(1, 6)):
    """equal pitches that touch (one ends where the next starts) distributed over voices and parts in every
    way; grace notes before a main note of the same pitch and right after a note of the same pitch"""
    for d in ds:
        u = 1 if d < 3 else d // 3  # unit length in divisions (d=6: 2 -> triplet eighth)
        iv = [(0, u), (u, 2 * u), (2 * u, 4 * u)]
        homes = [(0, 1), (0, 2), (1, 1)]  # (part, voice)
        for assign in product(range(len(homes)), repeat=3):
            used_parts = sorted({homes[a][0] for a in assign})
            pobjs = {pi: [] for pi in used_parts}
            for j, a in enumerate(assign):
                pi, v = homes[a]
                pobjs[pi].append(note("t%d" % j, iv[j][0], iv[j][1], 60, v))
            # a second pitch so that every part has an anchor at time 0 and the same last point
            parts = []
            for k, pi in enumerate(used_parts):
                objs = [ts(0, 4, 4), measure(1, 0, 4 * d)]
                objs += [note("x%d" % pi, 0, 4 * u, 72 + pi, 3)]
                objs += pobjs[pi]
                parts.append(part("P%d" % (pi + 1), [(0, d)], objs))
            yield dict(score={"parts": parts}, tag="touch d=%d assign=%s" % (d, assign))
        # grace notes
        for variant in range(6):
            objs = [ts(0, 4, 4), measure(1, 0, 4 * d)]
            if variant == 0:  # grace before main note of the same pitch
                objs += [grace("g1", d, 60, 1, "m1"), note("m1", d, 2 * d, 60, 1)]
            elif variant == 1:  # two graces of the same pitch before the main note
                objs += [grace("g1", d, 60, 1, "g2"), grace("g2", d, 60, 1, "m1"), note("m1", d, 2 * d, 60, 1)]
            elif variant == 2:  # grace right where a note of the same pitch ends, main note other pitch
                objs += [note("m0", 0, d, 60, 1), grace("g1", d, 60, 1, "m1"), note("m1", d, 2 * d, 62, 1)]
            elif variant == 3:  # grace while another voice holds a different pitch
                objs += [note("m0", 0, 3 * d, 55, 2), grace("g1", d, 60, 1, "m1"), note("m1", d, 2 * d, 62, 1)]
            elif variant == 4:  # grace at the very beginning and acciaccatura type
                objs += [grace("g1", 0, 61, 1, "m1", "acciaccatura"), note("m1", 0, d, 62, 1)]
            elif variant == 5:  # grace at the end of same pitch and before same pitch
                objs += [note("m0", 0, d, 60, 1), grace("g1", d, 60, 1, "m1"), note("m1", d, 2 * d, 60, 1)]
            objs += [note("z", 3 * d, 4 * d, 70, 1)]
            yield dict(score={"parts": [part("P1", [(0, d)], objs)]}, tag="grace d=%d variant=%d" % (d, variant))


VOICEMIX_UNVOICED = (None, 0)


def same_channel_overlap(model, mode):
    """True if two notes of equal pitch overlap (positive common duration) within one track/channel of the
    documented table of `mode`: such a (score, mode) pair is outside the quantifier of the statement"""
    seen = {}
    for pm in model.parts:
        for s, e, pitch, voice in pm.chains():
            key = model.label(mode, pm, voice) + (pitch,)
            a, b = pm.Q(s) + pm.q0, pm.Q(e) + pm.q0
            for (a2, b2) in seen.get(key, ()):
                if max(a, a2) < min(b, b2):
                    return True
            seen.setdefault(key, []).append((a, b))
    return False


def gen_voicemix(unvoiced=VOICEMIX_UNVOICED, ds=(6, 1)):
    """three notes of ONE pitch, the first two overlapping, the last two touching, assigned in every way to
    the homes (part 1 no voice number, part 1 voice 1, part 1 voice 2, part 2 no voice number, part 2 voice 1);
    'no voice number' is None or 0 (never both in one score).  Assignments that put the two overlapping notes
    into the same (part, voice) are outside the quantifier for every mode and are not generated; the remaining
    modes are filtered per score with same_channel_overlap.  Divisions cycled over `ds` by case index."""
    i = 0
    for u0 in unvoiced:
        homes = [(0, u0), (0, 1), (0, 2), (1, u0), (1, 1)]
        for assign in product(range(len(homes)), repeat=3):
            if assign[0] == assign[1]:
                continue
            d = ds[i % len(ds)]
            i += 1
            u = 1 if d < 3 else d // 3
            iv = [(0, 2 * u), (u, 3 * u), (3 * u, 4 * u)]
            used_parts = sorted({homes[a][0] for a in assign})
            pobjs = {pi: [] for pi in used_parts}
            for j, a in enumerate(assign):
                pi, v = homes[a]
                pobjs[pi].append(note("t%d" % j, iv[j][0], iv[j][1], 60, v))
            parts = []
            for pi in used_parts:
                objs = [ts(0, 4, 4), measure(1, 0, 4 * d)]
                # an anchor of another pitch in a voice of its own: every part starts at 0 and ends at the same point
                objs += [note("x%d" % pi, 0, 4 * u, 72 + pi, 3)]
                objs += pobjs[pi]
                parts.append(part("P%d" % (pi + 1), [(0, d)], objs))
            yield dict(score={"parts": parts}, tag="voicemix unvoiced=%r d=%d assign=%s" % (u0, d, assign))


LONGTIE_METERS = [(2, 4), (3, 4), (4, 4), (5, 4), (3, 8), (5, 8), (6, 8), (7, 8), (9, 8)]
LONGTIE_METERS_MORE = [(6, 4), (7, 4), (2, 2), (11, 8), (12, 8), (5, 16)]


def gen_longtie(meters=LONGTIE_METERS, mults=(1,), far_ends="full", pickups=(False,)):
    """one note held over at least two barlines (so that at least one whole measure lies inside it) in every
    metre of `meters`: every start on a beat of the first complete measure x every end on a beat of the third
    measure (+ the end of the fourth measure, or every beat of the fourth measure with far_ends='all'), written
    (a) as a chain of pieces tied at every barline, (b) as one untied note.  A note of the same pitch touches
    the end of the held note (when it does not end on a barline), a second voice marks every measure start.
    Divisions: the smallest value that makes the beat integral, times `mults`; optional one-beat pickup."""
    for beats, bt in meters:
        for mult in mults:
            d0 = 1
            while (4 * d0) % bt:
                d0 *= 2
            d = d0 * mult
            beat = 4 * d // bt
            bar = beats * beat
            for pickup in pickups:
                p = beat if pickup else 0
                for s in range(beats):
                    ends = [(2, k) for k in range(1, beats + 1)]
                    ends += [(3, k) for k in range(1, beats + 1)] if far_ends == "all" else [(3, beats)]
                    for mi, k in ends:
                        for seg in ("tied", "single"):
                            nm = mi + 1
                            ms = ([(0, p)] if p else []) + [(p + j * bar, p + (j + 1) * bar) for j in range(nm)]
                            objs = [ts(0, beats, bt)]
                            objs += [measure(j + (0 if p else 1), a, b) for j, (a, b) in enumerate(ms)]
                            objs += [ks(0, 1, "major"), tempo(0, 72, "q")]
                            start = p + s * beat
                            end = p + mi * bar + k * beat
                            if seg == "single":
                                objs.append(note("h0", start, end, 48, 1))
                            else:
                                cuts = [start] + [p + j * bar for j in range(1, nm) if start < p + j * bar < end] + [end]
                                for j in range(len(cuts) - 1):
                                    objs.append(note("h%d" % j, cuts[j], cuts[j + 1], 48, 1,
                                                     "h%d" % (j + 1) if j + 2 < len(cuts) else None))
                            if start > 0:
                                objs.append(note("pre", 0, start, 55, 1))
                            if end < ms[-1][1]:
                                # same pitch, touching the end of the held note: must stay a note of its own
                                objs.append(note("post", end, ms[-1][1], 48, 1))
                            for j, (a, b) in enumerate(ms):
                                objs.append(note("f%d" % j, a, a + beat if a + beat <= b else b, 64 + j, 2))
                            yield dict(score={"parts": [part("P1", [(0, d)], objs)]},
                                       tag="longtie %d/%d d=%d pickup=%s start=%d end=m%d+%d %s" % (
                                           beats, bt, d, pickup, s, mi + 1, k, seg))


DIVCHANGE_VALUES = (1, 2, 3, 4, 6, 12)


def gen_divchange(values=DIVCHANGE_VALUES, triples=((2, 3, 4), (4, 6, 12), (12, 1, 6), (3, 2, 1))):
    """one part whose divisions change at a barline or in the middle of a bar (2/4), with and without a
    pickup; unit staircases on both sides, one tie across the change and one untied note spanning it"""
    seqs = [(a, b) for a in values for b in values if a != b] + list(triples)
    for seq in seqs:
        for where in ("bar", "mid"):
            for pickup in (False, True):
                if where == "mid" and len(seq) > 2:
                    continue
                divs = []
                objs = [ts(0, 2, 4)]
                t = 0
                mnum = 1
                if pickup:
                    objs.append(measure(0, 0, seq[0]))
                    objs += staircase(0, seq[0], prefix="a")
                    t = seq[0]
                divs.append((0, seq[0]))
                cross = []
                if where == "bar":
                    for i, dd in enumerate(seq):
                        if i:
                            divs.append((t, dd))
                        objs.append(measure(mnum, t, t + 2 * dd))
                        # staircase on the first quarter, one longer note on the second
                        objs += staircase(t, t + dd, prefix="s%d_" % i)
                        cross.append(("c%d" % i, t + dd, t + 2 * dd))
                        t += 2 * dd
                        mnum += 1
                    for j, (cid, s, e) in enumerate(cross):
                        if j + 1 < len(cross):
                            # tied over the barline (= over the change) into a one-division note
                            objs.append(note(cid, s, e, 50, 1, cid + "h"))
                            objs.append(note(cid + "h", e, e + 1, 50, 1))
                        else:
                            objs.append(note(cid, s, e, 50, 1))
                else:
                    a, b = seq
                    objs.append(measure(mnum, t, t + a + b))
                    objs += staircase(t, t + a, prefix="s0_")
                    divs.append((t + a, b))
                    objs += staircase(t + a, t + a + b, prefix="s1_")
                    # an untied note in another voice spanning the change
                    objs.append(note("span", t + (a - 1 if a > 1 else 0), t + a + 1, 45, 2))
                    t += a + b
                    objs.append(measure(mnum + 1, t, t + 2 * b))
                    objs += staircase(t, t + 2 * b, step=b, prefix="s2_")
                    t += 2 * b
                yield dict(score={"parts": [part("P1", divs, objs)]},
                           tag="divchange seq=%s where=%s pickup=%s" % (list(seq), where, pickup))


# quarter-map kinds of one part in the sub-space tempo-parts: ((musical quarter from which it holds, divisions), ...);
# the first entry holds from the start of the part (also through a pickup); quarter 0 = first downbeat
TEMPO_KINDS = [((0, 1),), ((0, 2),), ((0, 3),), ((0, 4),), ((0, 4), (2, 6)), ((0, 3), (2, 1)), ((0, 6), (1, 4))]
TEMPO_KINDS_MORE = [((0, 6),), ((0, 12),), ((0, 2), (2, 3)), ((0, 3), (2, 2)), ((0, 6), (2, 4)), ((0, 1), (2, 4)),
                    ((0, 2), (1, 3)), ((0, 12), (3, 1))]
TEMPO_TRIPLES = [(3, 2, 0), (2, 3, 1), (0, 6, 2), (1, 2, 3), (4, 1, 5), (2, 2, 1)]  # indices into TEMPO_KINDS
TEMPO_END = 4  # two bars of 2/4 after the first downbeat


def tempo_bpm(u):
    """tempo value as a function of the musical position only (two parts that both carry a mark at one musical
    position agree on its value): 60 bpm at quarter -1, one bpm more per twelfth of a quarter"""
    b = 60 + 12 * (Fraction(u) + 1)
    if b.denominator != 1:
        raise ValueError("tempo position %s is not on the 1/12 quarter grid" % (u,))
    return int(b)


def tempo_part(pid, pidx, kind, pickup, carries, tacet=False):
    """one part of 2/4 (optional one-quarter pickup, two bars) whose divisions follow `kind`; candidate tempo
    positions: every quarter, the first division after every divisions value starts to hold, the last division
    of the part; `carries(i, u)` says whether the i-th candidate (ascending) gets a Tempo object.
    tacet: the part has no notes at all (one rest per quarter instead); measures, signatures and Tempo objects as usual.
    Returns (part spec, candidate positions in quarters relative to the first downbeat)."""
    u0 = -1 if pickup else 0
    cuts = [u0] + [u for u, _ in kind[1:]] + [TEMPO_END]
    tl = []
    t = 0
    for i, (_, d) in enumerate(kind):
        tl.append((cuts[i], cuts[i + 1], d, t))
        t += (cuts[i + 1] - cuts[i]) * d

    def T(u):
        u = Fraction(u)
        for a, b, d, t0 in tl:
            if a <= u < b or (u == b == TEMPO_END):
                x = (u - a) * d
                if x.denominator != 1:
                    raise ValueError("position %s not representable" % (u,))
                return t0 + int(x)
        raise ValueError(u)

    cand = {Fraction(u) for u in range(u0, TEMPO_END)}
    cand |= {a + Fraction(1, d) for a, b, d, _ in tl}
    cand.add(TEMPO_END - Fraction(1, tl[-1][2]))
    cand = sorted(u for u in cand if u < TEMPO_END)
    objs = [ts(0, 2, 4)]
    objs += ([measure(0, T(-1), T(0))] if pickup else []) + [measure(1, T(0), T(2)), measure(2, T(2), T(4))]
    objs += [ks(0, pidx - 1, "major"), ks(T(2), pidx - 2, "minor")]
    for i, u in enumerate(cand):
        if carries(i, u):
            objs.append(tempo(T(u), tempo_bpm(u), "q"))
    base = 43 + 12 * pidx
    if tacet:
        for k, u in enumerate(range(u0, TEMPO_END)):
            objs.append(rest("p%dr%d" % (pidx, k), T(u), T(u + 1), 1))
        return part(pid, [(a_t, d) for _, _, d, a_t in tl], objs), cand
    for k, u in enumerate(range(u0, TEMPO_END)):
        objs.append(note("p%dq%d" % (pidx, k), T(u), T(u + 1), base + 2 * (k % 3), 1))
    for k, u in enumerate(([-1] if pickup else []) + [0, 2]):
        objs.append(note("p%dm%d" % (pidx, k), T(u), T(u) + 1, base + 7 + k, 2))
    return part(pid, [(a_t, d) for _, _, d, a_t in tl], objs), cand


def tempo_score(kinds, pickups, pattern, grouped=False, tacet=()):
    """score of len(kinds) parts; pattern: ("only", c) = part c carries all its candidates, ("alt", k) = part c
    carries its i-th candidate iff (i + c + k) is a multiple of the number of parts, ("one", c, i) = a single mark;
    tacet: indices of the parts without notes (rests only)"""
    n = len(kinds)

    def carries(c):
        if pattern[0] == "only":
            return lambda i, u: c == pattern[1]
        if pattern[0] == "alt":
            return lambda i, u: (i + c + pattern[1]) % n == 0
        return lambda i, u: c == pattern[1] and i == pattern[2]

    parts = [tempo_part("P%d" % (c + 1), c, kinds[c], pickups[c], carries(c), tacet=c in tacet)[0] for c in range(n)]
    if grouped:
        parts = [group(parts[:2])] + parts[2:]
    return {"parts": parts}


def gen_tempoparts(kinds=None, single_kinds=None, triples=TEMPO_TRIPLES):
    """tempo marks in scores of several parts whose quarter maps differ (divisions per part, a divisions change
    inside a part, pickup in one part only): every musical position x every carrier part"""
    kinds = TEMPO_KINDS if kinds is None else kinds
    single_kinds = kinds[:3] if single_kinds is None else single_kinds
    i = 0
    # (a) many marks: all ordered pairs of quarter-map kinds x pickup per part x carrier pattern
    for k0 in kinds:
        for k1 in kinds:
            for pk in product((False, True), repeat=2):
                for pattern in (("only", 0), ("only", 1), ("alt", 0), ("alt", 1)):
                    yield dict(score=tempo_score((k0, k1), pk, pattern, grouped=i % 3 == 2),
                               tag="tempoparts kinds=%s pickups=%s marks=%s" % ([list(map(list, k)) for k in (k0, k1)], list(pk), list(pattern)))
                    i += 1
    # (b) exactly one mark: every candidate position of every carrier
    for k0 in single_kinds:
        for k1 in single_kinds:
            for pk in product((False, True), repeat=2):
                for c in (0, 1):
                    ncand = len(tempo_part("P", c, (k0, k1)[c], pk[c], lambda i, u: False)[1])
                    for j in range(ncand):
                        yield dict(score=tempo_score((k0, k1), pk, ("one", c, j), grouped=i % 3 == 2),
                                   tag="tempoparts kinds=%s pickups=%s marks=%s" % (
                                       [list(map(list, k)) for k in (k0, k1)], list(pk), ["one", c, j]))
                        i += 1
    # (c) three parts
    for tr in triples:
        ks3 = tuple(kinds[x % len(kinds)] for x in tr)
        for pk in ((False, False, False), (True, True, True), (True, False, False), (False, True, False), (False, False, True)):
            for pattern in (("only", 0), ("only", 1), ("only", 2), ("alt", 0), ("alt", 1), ("alt", 2)):
                yield dict(score=tempo_score(ks3, pk, pattern, grouped=i % 2 == 1),
                           tag="tempoparts kinds=%s pickups=%s marks=%s" % ([list(map(list, k)) for k in ks3], list(pk), list(pattern)))
                i += 1



def _tacet_pickups(n, tacet):
    """pickup vectors of n parts: the full product, except those in which a part without notes has a pickup while
    no part with notes has one (whether rests alone make an anacrusis of the score is left open)"""
    for pk in product((False, True), repeat=n):
        if any(pk[c] for c in tacet) and not any(pk[c] for c in range(n) if c not in tacet):
            continue
        yield pk


def gen_tempotacet(tacet_kinds=None, sounding_kinds=None, single_kinds=None, triples=TEMPO_TRIPLES[:2]):
    """scores in which some (not all) parts have NO notes (tacet: rests, measures, signatures only) and tempo marks
    are carried by the tacet parts, by the sounding parts or by both: the meta objects of a part do not depend on
    the part having notes (tempo marks are global; the quarter map of the carrier gives the musical position)"""
    tacet_kinds = TEMPO_KINDS if tacet_kinds is None else tacet_kinds
    sounding_kinds = TEMPO_KINDS[:2] if sounding_kinds is None else sounding_kinds
    single_kinds = tacet_kinds[:3] if single_kinds is None else single_kinds
    i = 0
    # (a) two parts, one of them tacet (first or second): many marks
    for tc in (0, 1):
        for kt in tacet_kinds:
            for ksnd in sounding_kinds:
                kinds = (kt, ksnd) if tc == 0 else (ksnd, kt)
                for pk in _tacet_pickups(2, (tc,)):
                    for pattern in (("only", 0), ("only", 1), ("alt", 0), ("alt", 1)):
                        yield dict(score=tempo_score(kinds, pk, pattern, grouped=i % 3 == 2, tacet=(tc,)),
                                   tag="tempotacet tacet=%s kinds=%s pickups=%s marks=%s" % (
                                       [tc], [list(map(list, k)) for k in kinds], list(pk), list(pattern)))
                        i += 1
    # (b) two parts, exactly one mark in the score, carried by the tacet part: every candidate position
    for tc in (0, 1):
        for kt in single_kinds:
            ksnd = sounding_kinds[0]
            kinds = (kt, ksnd) if tc == 0 else (ksnd, kt)
            for pk in _tacet_pickups(2, (tc,)):
                ncand = len(tempo_part("P", tc, kt, pk[tc], lambda i, u: False, tacet=True)[1])
                for j in range(ncand):
                    yield dict(score=tempo_score(kinds, pk, ("one", tc, j), grouped=i % 3 == 2, tacet=(tc,)),
                               tag="tempotacet tacet=%s kinds=%s pickups=%s marks=%s" % (
                                   [tc], [list(map(list, k)) for k in kinds], list(pk), ["one", tc, j]))
                    i += 1
    # (c) three parts, every non-empty proper subset of them tacet
    for tr in triples:
        ks3 = tuple(TEMPO_KINDS[x % len(TEMPO_KINDS)] for x in tr)
        for tacet in ((0,), (1,), (2,), (0, 1), (0, 2), (1, 2)):
            for pk in ((False, False, False), (True, True, True)):
                for pattern in (("only", 0), ("only", 1), ("only", 2), ("alt", 0), ("alt", 1), ("alt", 2)):
                    yield dict(score=tempo_score(ks3, pk, pattern, grouped=i % 2 == 1, tacet=tacet),
                               tag="tempotacet tacet=%s kinds=%s pickups=%s marks=%s" % (
                                   list(tacet), [list(map(list, k)) for k in ks3], list(pk), list(pattern)))
                    i += 1


# ---------------------------------------------------------------------------------------------
# written pitch spellings (sub-space spelling)

STEP_NAMES = "CDEFGAB"
_STEP_PC = {"C": 0, "D": 2, "E": 4, "F": 5, "G": 7, "A": 9, "B": 11}
LOF_STEPS = "FCGDAEB"
SPELL_ALTERS = (-2, -1, None, 0, 1, 2)
# scale degrees 1..7 (ascending) as offsets on the line of fifths from the tonic
SCALES = {
    "major": (0, 2, 4, -1, 1, 3, 5),
    "harmonic-minor": (0, 2, -3, -1, 1, -4, 5),
    "melodic-minor": (0, 2, -3, -1, 1, 3, 5),
    "natural-minor": (0, 2, -3, -1, 1, -4, -2),
}
# the passage played in every key, in scale degrees counted from the tonic (0 = tonic, 7 = its octave, -1 = the
# degree below the tonic): scale up and down, the triad as arpeggio, leading note and tonic
PASSAGE = tuple(range(0, 8)) + tuple(range(6, 0, -1)) + (0, 2, 4, 7, 4, 2, 0, -1, 0)


def lof_spelling(k):
    """(step, alter) of position k on the line of fifths (F = -1, C = 0, G = 1, ..., F# = 6, Bb = -2)"""
    return LOF_STEPS[(k + 1) % 7], (k + 1) // 7


def snote(nid, s, e, step, alter, octv, voice=1, tie=None):
    """a note with an explicitly written spelling (alter None and 0 both mean natural)"""
    o = {"k": "note", "id": nid, "s": s, "e": e, "step": step, "alter": alter, "oct": octv, "voice": voice, "staff": 1}
    if tie is not None:
        o["tie"] = tie
    return o


def crosses_octave(step, alter):
    """the written spelling names a pitch outside the octave of its step (B sharp, C flat, ...)"""
    return not 0 <= _STEP_PC[step] + (alter or 0) <= 11


def key_passage(fifths, scale, tonic_octave):
    """[(step, alter, octave)] of PASSAGE in the key with `fifths` accidentals, spelled as scale degrees"""
    k0 = fifths if scale == "major" else fifths + 3
    tstep, _ = lof_spelling(k0)
    d0 = 7 * tonic_octave + STEP_NAMES.index(tstep)  # diatonic number of the tonic
    out = []
    for deg in PASSAGE:
        step, alter = lof_spelling(k0 + SCALES[scale][deg % 7])
        dn = d0 + deg
        if STEP_NAMES[dn % 7] != step:
            raise AssertionError("scale table: degree %d of %s is not a %s" % (deg, scale, STEP_NAMES[dn % 7]))
        out.append((step, alter, dn // 7))
    return out


def _spelling_part(objs_notes, total, d, fifths=None, mode=None):
    objs = [ts(0, 4, 4)] + bars_cover(total, 4 * d)
    if fifths is not None:
        objs.append(ks(0, fifths, mode))
    return {"parts": [part("P1", [(0, d)], objs + objs_notes)]}


def gen_spelling(tonic_octaves=(2, 4), scales=("major", "harmonic-minor"), registers=(5,)):
    """written pitch spellings, one voice, 4/4, divisions 2, no two notes at one time:
    (a) alphabet: every step x alter of SPELL_ALTERS, the note in every octave -1..9 whose MIDI pitch is in
        0..127, ascending, one quarter each (every second one written as two tied eighths);
    (b) enharmonic: for every pitch class all its spellings (alter -2..2) of one MIDI pitch, touching;
    (c) keys: PASSAGE in every key signature -7..7 x scale x tonic octave, written (i) spelled as scale degrees
        with the key signature, (ii) the same MIDI pitches spelled with naturals and sharps only (no written note
        crosses an octave: the spellings B sharp / C flat can then only come from the importer)."""
    d = 2
    for step in STEP_NAMES:
        for alter in SPELL_ALTERS:
            objs = []
            t = 0
            for octv in range(-1, 10):
                if not 0 <= midi_pitch(step, alter, octv) <= 127:
                    continue
                if (t // 2) % 2 == 1:
                    objs.append(snote("a%dx" % octv, t, t + 1, step, alter, octv, 1, "a%dy" % octv))
                    objs.append(snote("a%dy" % octv, t + 1, t + 2, step, alter, octv, 1))
                else:
                    objs.append(snote("a%d" % octv, t, t + 2, step, alter, octv, 1))
                t += 2
            yield dict(score=_spelling_part(objs, t, d), tag="spelling alphabet step=%s alter=%r" % (step, alter), spelling=1)
    for reg in registers:
        for pc in range(12):
            m = 12 * reg + pc
            if m > 127:
                continue
            objs = []
            t = 0
            for step in STEP_NAMES:
                for alter in (-2, -1, 0, 1, 2):
                    if (_STEP_PC[step] + alter - pc) % 12 == 0:
                        octv = (m - _STEP_PC[step] - alter) // 12 - 1
                        objs.append(snote("e%d" % len(objs), t, t + 2, step, alter or None, octv, 1))
                        t += 2
            yield dict(score=_spelling_part(objs, t, d), tag="spelling enharmonic midi=%d" % m, spelling=1)
    for fifths in range(-7, 8):
        for scale in scales:
            for to in tonic_octaves:
                sp = key_passage(fifths, scale, to)
                for writing in ("degrees", "sharps"):
                    objs = []
                    for i, (step, alter, octv) in enumerate(sp):
                        if writing == "degrees":
                            objs.append(snote("k%d" % i, i, i + 1, step, alter or None, octv, 1))
                        else:
                            objs.append(note("k%d" % i, i, i + 1, midi_pitch(step, alter, octv), 1))
                    yield dict(score=_spelling_part(objs, len(sp), d, fifths, "major" if scale == "major" else "minor"),
                               tag="spelling key fifths=%d %s tonic-octave=%d written=%s" % (fifths, scale, to, writing),
                               spelling=1)


def option_scores():
    """three representative scores for the option product"""
    out = []
    # single part, divisions 6, pickup, two voices
    out.append(("part6", {"parts": [_mode_part("P1", 0, 6, [1, 2], True, 1)]}))
    # one group of two parts with divisions 4 and 6
    out.append(("group46", {"parts": [group([_mode_part("P1", 0, 4, [1], False, 0), _mode_part("P2", 1, 6, [1, 2], False, 2)])]}))
    # two flat parts with divisions 1 and 3, no measures or signatures at all
    out.append(("bare13", {"parts": [_mode_part("P1", 0, 1, [1], False, 0, with_meta=False),
                                      _mode_part("P2", 1, 3, [None], False, 0, with_meta=False)]}))
    return out


# ---------------------------------------------------------------------------------------------
# order of the events of one tick (sub-space tick-order): hand-overs of one pitch between (part, voice) keys that
# are merged into one track/channel, with meta events standing at the very tick of the hand-over

TICKORDER_HOMES = [(0, 1), (0, 2), (1, 1)]  # (part, voice)
TICKORDER_TEMPO = {1: 90, 2: 72}  # bpm of a tempo mark at quarter 1 / quarter 2


def _tickorder_score(d, used_parts, pobjs, metas, ts_change):
    """parts of 2/4 (measure 1 = quarters 0..2, measure 2 = quarters 2..4, or 2..5 in 3/4 with ts_change), every
    part with an anchor note of a pitch of its own in voice 3 over the whole length, time signature 2/4 and a key
    signature at 0.  metas: {quarter: (tempo carrier part index or None, key signature yes/no)}; a key signature
    (and the time signature change) stands in EVERY part, a tempo mark in its carrier only."""
    end = 5 * d if ts_change else 4 * d
    parts = []
    for pi in used_parts:
        objs = [ts(0, 2, 4), measure(1, 0, 2 * d), measure(2, 2 * d, end), ks(0, pi - 1, "major")]
        if ts_change:
            objs.append(ts(2 * d, 3, 4))
        for q in sorted(metas):
            carrier, has_ks = metas[q]
            if has_ks:
                objs.append(ks(q * d, pi + q, "minor"))
            if carrier == pi:
                objs.append(tempo(q * d, TICKORDER_TEMPO[q], "q"))
        objs.append(note("x%d" % pi, 0, end, 72 + pi, 3))
        objs += pobjs[pi]
        parts.append(part("P%d" % (pi + 1), [(0, d)], objs))
    return {"parts": parts}


def _tickorder_metas(used_parts, quarters_with_ts, carriers="all"):
    """every combination of meta events at the given quarters: tempo mark {none, in the first part, in the last
    part (if there are two)} x key signature {no, yes} x (at the quarters of `quarters_with_ts`) time signature
    change {no, yes}.  carriers='cycle': one carrier per combination, alternating, instead of both."""
    quarters = (1, 2)
    first, last = used_parts[0], used_parts[-1]
    tempo_opts = [None, first] + ([last] if last != first else [])
    per_q = []
    for q in quarters:
        opts = [(c, k, t) for c in tempo_opts for k in (False, True) for t in ((False, True) if q in quarters_with_ts else (False,))]
        per_q.append(opts)
    n = 0
    for combo in product(*per_q):
        if carriers == "cycle" and last != first:
            # keep the combinations whose marks are all carried by one part, that part alternating
            cs = {c for c, _, _ in combo if c is not None}
            if len(cs) > 1:
                continue
            if cs:
                n += 1
                if cs != {(first, last)[n % 2]}:
                    continue
        metas = {q: (c, k) for q, (c, k, _) in zip(quarters, combo)}
        ts_change = any(t for _, _, t in combo)
        yield metas, ts_change


def _meta_tag(metas, ts_change):
    out = []
    for q in sorted(metas):
        c, k = metas[q]
        s = ("T%d" % (c + 1) if c is not None else "") + ("K" if k else "") + ("S" if ts_change and q == 2 else "")
        out.append("q%d:%s" % (q, s or "-"))
    return " ".join(out)


def gen_tickorder_touch(ds=(1, 6), carriers="all"):
    """(a) three touching notes of ONE pitch (quarters 0-1, 1-2, 2-4) assigned in all 27 ways to the homes (part 1
    voice 1, part 1 voice 2, part 2 voice 1): the hand-overs at quarter 1 (mid-bar) and quarter 2 (barline) happen
    inside one voice, between voices and between parts, with the key of the starting note registered before or
    after the key of the ending note.  At each of the two hand-over positions every combination of meta events
    (see _tickorder_metas; the time signature may change at the barline only).  Divisions: `ds` cycled by the
    number of one bits of the case index (independent of every single binary dimension)."""
    i = 0
    iv = [(0, 1), (1, 2), (2, 4)]
    for assign in product(range(len(TICKORDER_HOMES)), repeat=3):
        used_parts = sorted({TICKORDER_HOMES[a][0] for a in assign})
        for metas, ts_change in _tickorder_metas(used_parts, (2,), carriers):
            d = ds[bin(i).count("1") % len(ds)]
            i += 1
            pobjs = {pi: [] for pi in used_parts}
            for j, a in enumerate(assign):
                pi, v = TICKORDER_HOMES[a]
                pobjs[pi].append(note("t%d" % j, iv[j][0] * d, iv[j][1] * d, 60, v))
            yield dict(score=_tickorder_score(d, used_parts, pobjs, metas, ts_change),
                       tag="tickorder touch d=%d assign=%s %s" % (d, assign, _meta_tag(metas, ts_change)))


def gen_tickorder_grace(ds=(1, 6), ngrace=(1,), carriers="cycle"):
    """(b) grace notes at a hand-over: at quarter 2 (barline) stand, all on ONE pitch, optionally the end of a note
    E (quarters 1-2, home hE), n grace notes (home hG, chained to their main note) and optionally the start of a note
    S (quarters 2-4, home hS); the main note of the graces is S when hS = hG, otherwise a note of another pitch in
    hG.  A lead note of another pitch (quarters 0-1) in home `lead` makes that home the first registered key.
    All (lead, hE or none, hG, hS or none) over the three homes x every combination of {tempo mark, key signature,
    time signature change} at quarter 2 (tempo carrier: first / last part, alternating with carriers='cycle')."""
    i = 0
    H = TICKORDER_HOMES
    for n in ngrace:
        for lead in range(len(H)):
            for hE in [None] + list(range(len(H))):
                for hG in range(len(H)):
                    for hS in [None] + list(range(len(H))):
                        homes = [H[x] for x in (lead, hE, hG, hS) if x is not None]
                        used_parts = sorted({h[0] for h in homes})
                        first, last = used_parts[0], used_parts[-1]
                        for tp in (False, True):
                            for cidx in ((0, 1) if tp and carriers == "all" and first != last else (None,)):
                                for has_ks in (False, True):
                                    for ts_change in (False, True):
                                        d = ds[bin(i).count("1") % len(ds)]
                                        carrier = None
                                        if tp:
                                            carrier = (first, last)[(i if cidx is None else cidx) % 2]
                                        i += 1
                                        pobjs = {pi: [] for pi in used_parts}
                                        pi, v = H[lead]
                                        pobjs[pi].append(note("lead", 0, d, 55, v))
                                        if hE is not None:
                                            pi, v = H[hE]
                                            pobjs[pi].append(note("E", d, 2 * d, 60, v))
                                        pi, v = H[hG]
                                        main = "S" if hS == hG else "M"
                                        for g in range(n):
                                            pobjs[pi].append(grace("g%d" % g, 2 * d, 60, v, "g%d" % (g + 1) if g + 1 < n else main))
                                        if hS != hG:
                                            pobjs[pi].append(note("M", 2 * d, 3 * d, 62, v))
                                        if hS is not None:
                                            pi, v = H[hS]
                                            pobjs[pi].append(note("S", 2 * d, 4 * d, 60, v))
                                        metas = {2: (carrier, has_ks)}
                                        yield dict(score=_tickorder_score(d, used_parts, pobjs, metas, ts_change),
                                                   tag="tickorder grace d=%d n=%d lead=%d E=%s G=%d S=%s %s" % (
                                                       d, n, lead, hE, hG, hS, _meta_tag(metas, ts_change)))


# ---------------------------------------------------------------------------------------------
# two DIFFERENT pitches sounding together in different (part, voice) homes, over the edges of the MIDI pitch range
# (sub-space pitch-range): a reader that keeps its open notes per (channel, pitch) must keep (c, p) and (c', q)
# apart for every pair of pitches, also the highest pitch of one channel next to the lowest of the next one

PITCHRANGE_HOMES = [(0, 1), (0, 2), (1, 1)]  # (part, voice)


def pitchrange_pairs(width=8, full=False):
    """ordered pitch pairs (pX, pY), pX > pY: the block {128-width..127} x {0..width-1} at the two edges of the MIDI
    range and, with full=True, every pitch 1..127 against pitch 0 and pitch 127 against every pitch 0..126 (every
    pitch difference 1..127 at the bottom and at the top of the range)"""
    out = [(hi, lo) for hi in range(127, 127 - width, -1) for lo in range(width)]
    if full:
        out += [(p, 0) for p in range(1, 128) if (p, 0) not in out]
        out += [(127, q) for q in range(0, 127) if (127, q) not in out]
    return out


def pitchrange_layouts():
    """(home of X, home of Y, grouped): all ordered pairs of different homes; scores of two parts flat and with
    the two parts in one group (mode 1 then writes them to two channels of one track)"""
    H = PITCHRANGE_HOMES
    out = []
    for a in range(len(H)):
        for b in range(len(H)):
            if a == b:
                continue
            two = H[a][0] != H[b][0]
            for grouped in ((False, True) if two else (False,)):
                out.append((a, b, grouped))
    return out


def gen_pitchrange(pairs=None):
    """note X (pitch pX, home hX) and note Y (pitch pY != pX, home hY != hX) in three bars of 4/4, divisions 2:
    bar 1: X sounds for the whole bar, Y starts and ends inside it; bar 2: X and Y start and end together (a half
    note), then X (one quarter) is overlapped by Y starting an eighth later; bar 3: Y sounds for the whole bar, X
    starts and ends inside it.  No two notes of equal pitch ever overlap (pX != pY; notes of one pitch touch or are
    apart), so every mode is inside the quantifier."""
    H = PITCHRANGE_HOMES
    d = 2
    xs = [(0, 8), (8, 12), (12, 14), (18, 22)]
    ys = [(2, 6), (8, 12), (13, 16), (16, 24)]
    for pX, pY in (pitchrange_pairs() if pairs is None else pairs):
        for a, b, grouped in pitchrange_layouts():
            used_parts = sorted({H[a][0], H[b][0]})
            pobjs = {pi: [] for pi in used_parts}
            for j, (s, e) in enumerate(xs):
                pobjs[H[a][0]].append(note("x%d" % j, s, e, pX, H[a][1]))
            for j, (s, e) in enumerate(ys):
                pobjs[H[b][0]].append(note("y%d" % j, s, e, pY, H[b][1]))
            parts = []
            for pi in used_parts:
                objs = [ts(0, 4, 4)] + bars_cover(24, 8)
                parts.append(part("P%d" % (pi + 1), [(0, d)], objs + pobjs[pi]))
            if grouped:
                parts = [group(parts)]
            yield dict(score={"parts": parts},
                       tag="pitchrange X=%d@%s Y=%d@%s grouped=%d" % (pX, list(H[a]), pY, list(H[b]), int(grouped)))
