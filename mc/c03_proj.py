"""Projection of a partitura Score onto exactly the attributes listed in the C03 statement, and the
comparison of two projections (original vs. re-imported) with the documented voice re-assignment
reading.

Everything is read through public attributes of the objects that the points of the part list (the
timeline is walked through `part._points` so that no caching map is touched).
"""
from .fingerprint import part_objects


def _t(tp):
    return None if tp is None else int(tp.t)


def _nid(n):
    return None if n is None else getattr(n, "id", None)


def _sym(o):
    sd = o.symbolic_duration
    if not sd:
        return None
    return (sd.get("type"), sd.get("dots") or 0, sd.get("actual_notes"), sd.get("normal_notes"))


def _fing(o):
    out = []
    for t in getattr(o, "technical", None) or []:
        if type(t).__name__ == "Fingering":
            out.append(t.fingering)
    return tuple(out)


def _staff_dir(s):
    # a direction on staff 1 and one without staff are the same thing in a MusicXML file
    return None if s in (None, 1) else s


NOTE_FIELDS = ("kind", "start", "end", "pitch", "voice", "staff", "sym", "tie_prev", "tie_next", "articulations",
               "fingering", "stem", "fermata", "grace_type", "grace_prev", "grace_next")


def proj_part(part):
    import partitura.score as S

    objs = part_objects(part)
    dv = []
    for a, b in zip(part._quarter_times, part._quarter_durations):
        if dv and dv[-1][1] == int(b):
            continue
        dv.append((int(a), int(b)))
    out = {
        "part": (part.id, part.part_name or None, part.part_abbreviation or None),
        "divisions": tuple(dv),
    }
    notes = {}
    anon = []
    g = {k: [] for k in ("measures", "time_signatures", "key_signatures", "clefs", "slurs", "tuplets", "directions",
                         "direction_words", "words", "tempo", "repeats", "endings", "barline_fermatas")}
    for o in objs:
        s, e = _t(o.start), _t(o.end)
        if isinstance(o, S.GenericNote):
            pitch = None
            if isinstance(o, S.Note):
                pitch = (o.step, o.alter or 0, o.octave)
            elif isinstance(o, S.UnpitchedNote):
                pitch = (o.step, None, o.octave)
            rec = dict(
                kind=type(o).__name__, start=s, end=e, pitch=pitch, voice=o.voice, staff=o.staff, sym=_sym(o),
                tie_prev=_nid(o.tie_prev), tie_next=_nid(o.tie_next),
                articulations=tuple(sorted(str(a) for a in (o.articulations or ()))),
                fingering=_fing(o), stem=o.stem_direction, fermata=o.fermata is not None,
                grace_type=getattr(o, "grace_type", None),
                grace_prev=_nid(getattr(o, "grace_prev", None)), grace_next=_nid(getattr(o, "grace_next", None)),
            )
            if o.id is None or o.id in notes:
                anon.append(tuple(rec[k] for k in NOTE_FIELDS))
            else:
                notes[o.id] = rec
        elif isinstance(o, S.Measure):
            g["measures"].append((s, e, o.number, o.name))
        elif isinstance(o, S.TimeSignature):
            g["time_signatures"].append((s, o.beats, o.beat_type))
        elif isinstance(o, S.KeySignature):
            g["key_signatures"].append((s, o.fifths, o.mode or None))
        elif isinstance(o, S.Clef):
            g["clefs"].append((s, o.staff, o.sign, o.line, o.octave_change or 0))
        elif isinstance(o, S.Slur):
            g["slurs"].append((s, e, _nid(o.start_note), _nid(o.end_note)))
        elif isinstance(o, S.Tuplet):
            g["tuplets"].append((s, e, _nid(o.start_note), _nid(o.end_note), o.actual_notes, o.normal_notes,
                                 o.actual_type, o.normal_type))
        elif isinstance(o, S.Direction):
            g["directions"].append((s, e, type(o).__name__, o.text, _staff_dir(o.staff), bool(getattr(o, "wedge", False))))
            # the words of the direction as they are printed (what save_musicxml writes): raw_text if there is one,
            # else the canonical text; an object built with text only and the one read back from its file agree on it
            g["direction_words"].append((s, type(o).__name__, o.raw_text or o.text))
        elif isinstance(o, S.Words):
            g["words"].append((s, o.text, _staff_dir(o.staff)))
        elif isinstance(o, S.Tempo):
            bpm = o.bpm
            if bpm is not None and float(bpm) == int(bpm):
                bpm = int(bpm)
            g["tempo"].append((s, bpm, o.unit))
        elif isinstance(o, S.Repeat):
            g["repeats"].append((s, e))
        elif isinstance(o, S.Ending):
            g["endings"].append((s, e, str(o.number)))
        elif isinstance(o, S.Fermata):
            if not isinstance(o.ref, S.GenericNote):
                g["barline_fermatas"].append((s, o.ref))
    out["notes"] = notes
    out["notes_without_unique_id"] = tuple(sorted(anon, key=repr))
    for k, v in g.items():
        out[k] = tuple(sorted(v, key=repr))
    return out


def proj_structure(items):
    import partitura.score as S

    out = []
    for x in items:
        if isinstance(x, S.PartGroup):
            out.append(("group", x.group_symbol, x.group_name, x.number, proj_structure(x.children)))
        else:
            out.append(("part", x.id))
    return tuple(out)


def proj_score(score):
    return {"structure": proj_structure(score.part_structure), "parts": [proj_part(p) for p in score.parts]}


def compare(a, b, moved, limit=6):
    """Differences between projections a (original) and b (re-imported).

    `moved` = {part index: set of note ids that the exporter has to move to another voice}. For these
    notes every attribute except `voice` is compared and the new voice must not be used by any
    other note during the note's span (a note with the identical span that was moved too may share
    it: that is a chord).  Returns a list of (clause, expected, observed)."""
    out = []

    def add(clause, exp, obs):
        if len(out) < limit:
            out.append((clause, exp, obs))

    if a["structure"] != b["structure"]:
        add("parts-and-groups", a["structure"], b["structure"])
    if len(a["parts"]) != len(b["parts"]):
        add("parts-and-groups", "%d parts" % len(a["parts"]), "%d parts" % len(b["parts"]))
        return out
    for pi, (pa, pb) in enumerate(zip(a["parts"], b["parts"])):
        pre = "part[%d]." % pi
        for k in pa:
            if k == "notes":
                continue
            if pa[k] != pb[k]:
                xa, xb = pa[k], pb[k]
                if isinstance(xa, tuple) and isinstance(xb, tuple) and k != "part":
                    sa, sb = set(map(repr, xa)), set(map(repr, xb))
                    exp = [x for x in xa if repr(x) not in sb][:4]
                    obs = [x for x in xb if repr(x) not in sa][:4]
                    if not exp and not obs:
                        exp, obs = xa, xb  # multiplicities differ
                    add(k, exp, obs)
                else:
                    add(k, xa, xb)
        na, nb = pa["notes"], pb["notes"]
        mv = moved.get(pi, set())
        if set(na) != set(nb):
            add("note-ids", sorted(set(na) - set(nb)), sorted(set(nb) - set(na)))
        for nid in sorted(set(na) & set(nb)):
            ra, rb = na[nid], nb[nid]
            for f in NOTE_FIELDS:
                if f == "voice" and nid in mv:
                    continue
                if ra[f] != rb[f]:
                    add("note-" + f, "%s.%s=%r" % (nid, f, ra[f]), "%s.%s=%r" % (nid, f, rb[f]))
            if nid in mv:
                v = rb["voice"]
                for oid, ro in nb.items():
                    if oid == nid or ro["voice"] != v:
                        continue
                    if oid in mv and (ro["start"], ro["end"]) == (rb["start"], rb["end"]):
                        continue
                    if ro["start"] == ro["end"] and ro["start"] != rb["start"]:
                        continue
                    if ro["start"] < rb["end"] and rb["start"] < ro["end"] or ro["start"] == rb["start"]:
                        add("note-voice-moved", "%s moved to a voice unused during [%d,%d)" % (nid, rb["start"], rb["end"]),
                            "voice %r also holds %s [%d,%d)" % (v, oid, ro["start"], ro["end"]))
                        break
    return out
