"""Stale sounding ends for C14: edits of a performed part that leave `sound_off` behind (model side, exact Fractions).

The statement says that *setting the threshold recomputes every note* and that the sounding end is the
release when the pedal is up, when there are no pedal events or when the threshold is 127.  A note can
carry a sounding end that is no longer (or never was) the one the pedal dictates:

* the note dictionary handed to PerformedPart has its own "sound_off" key (>= note_off);
* "note_off" / "note_on" of a PerformedNote is assigned in place without touching "sound_off";
* "sound_off" is assigned in place;
* the control stream of the part is edited (events deleted, the list cleared or replaced by one without
  controller-64 events, a pedal value changed, a pedal event appended).

After any such edit an assignment of `sustain_pedal_threshold` (the present value included) has to
leave every note with the sounding end the pedal model gives for the PRESENT notes, controls and
threshold.

A *state* is  {"notes": [{"id","p","ch","on","off","vel"}], "ctrl": [[number, time, value]], "thr": int}
(list orders = orders of PerformedPart.notes / PerformedPart.controls).

Operations (JSON-able lists), `ops_for(state)` enumerates every applicable one in a fixed order:

    ["off", i, t]     notes[i]["note_off"] = t          (t in NG, t >= onset, t != present release)
    ["on", i, t]      notes[i]["note_on"] = t           (t in NG, t <= release, t != present onset)
    ["sound", i, t]   notes[i]["sound_off"] = t         (t in SG, t >= release)
    ["cdel", j]       del controls[j]
    ["cfilter"]       part.controls = [c for c in part.controls if c["number"] != 64]   (new list; needs a cc64 event)
    ["cclear"]        part.controls.clear()             (same list object; needs an event)
    ["cval", j, v]    controls[j]["value"] = v          (cc64 events; v in PV other than the present value)
    ["capp", t, v]    controls.append(cc64 event)       (t in CT, v in {127, 0})
    ["thr", t]        part.sustain_pedal_threshold = t  (every t of THR, the present one included) - JUDGED
"""
from fractions import Fraction as F

THR = [0, 64, 127]
NG = [F(0), F(1), F(2)]
SG = [F(1), F(2), F(3)]
CT = [F(1, 2), F(5, 2)]
PV = [0, 64, 127]


def fs(x):
    return str(F(x))


def ops_for(state):
    notes, ctrl = state["notes"], state["ctrl"]
    out = []
    for i, n in enumerate(notes):
        for t in NG:
            if t >= n["on"] and t != n["off"]:
                out.append(["off", i, fs(t)])
    for i, n in enumerate(notes):
        for t in NG:
            if t <= n["off"] and t != n["on"]:
                out.append(["on", i, fs(t)])
    for i, n in enumerate(notes):
        for t in SG:
            if t >= n["off"]:
                out.append(["sound", i, fs(t)])
    for j in range(len(ctrl)):
        out.append(["cdel", j])
    if any(c[0] == 64 for c in ctrl):
        out.append(["cfilter"])
    if ctrl:
        out.append(["cclear"])
    for j, c in enumerate(ctrl):
        if c[0] == 64:
            for v in PV:
                if v != c[2]:
                    out.append(["cval", j, v])
    for t in CT:
        for v in (127, 0):
            out.append(["capp", fs(t), v])
    for t in THR:
        out.append(["thr", t])
    return out


def apply_model(state, op):
    notes = [dict(n) for n in state["notes"]]
    ctrl = [list(c) for c in state["ctrl"]]
    st = {"notes": notes, "ctrl": ctrl, "thr": state["thr"]}
    k = op[0]
    if k == "off":
        notes[op[1]]["off"] = F(op[2])
    elif k == "on":
        notes[op[1]]["on"] = F(op[2])
    elif k == "sound":
        pass  # the sounding end is not part of the state: every threshold assignment has to recompute it
    elif k == "cdel":
        del ctrl[op[1]]
    elif k == "cfilter":
        st["ctrl"] = [c for c in ctrl if c[0] != 64]
    elif k == "cclear":
        st["ctrl"] = []
    elif k == "cval":
        ctrl[op[1]][2] = op[2]
    elif k == "capp":
        ctrl.append([64, F(op[1]), op[2]])
    elif k == "thr":
        st["thr"] = op[1]
    else:
        raise ValueError(op)
    return st


def apply_real(pp, op):
    k = op[0]
    if k == "off":
        pp.notes[op[1]]["note_off"] = float(F(op[2]))
    elif k == "on":
        pp.notes[op[1]]["note_on"] = float(F(op[2]))
    elif k == "sound":
        pp.notes[op[1]]["sound_off"] = float(F(op[2]))
    elif k == "cdel":
        del pp.controls[op[1]]
    elif k == "cfilter":
        pp.controls = [c for c in pp.controls if c["number"] != 64]
    elif k == "cclear":
        pp.controls.clear()
    elif k == "cval":
        pp.controls[op[1]]["value"] = op[2]
    elif k == "capp":
        pp.controls.append(dict(type="sustain_pedal", number=64, time=float(F(op[1])), value=op[2], track=0, channel=0))
    elif k == "thr":
        pp.sustain_pedal_threshold = op[1]
    else:
        raise ValueError(op)
