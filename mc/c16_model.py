"""Reference model and enumerators for C16 (transposition).

Everything here is plain Python written from music theory, independent of partitura's tables:

* a pitch is (step letter, alteration, octave); its diatonic index is 7*octave + letter index, its MIDI
  number 12*(octave+1) + natural pitch class + alteration;
* an interval class is (number 1..7, quality); its size in semitones is the size of the major/perfect
  interval of that number plus the quality offset;
* transposing moves the diatonic index by +-(number-1) and the MIDI number by +-semitones; letter and
  octave are read off the new diatonic index ("the octave follows the step"), the alteration is whatever
  is left between the new MIDI number and the natural pitch of the new letter/octave.
"""

LETTERS = "CDEFGAB"
NATURAL = (0, 2, 4, 5, 7, 9, 11)

# size of the major / perfect interval of each number
_BASE = {1: 0, 2: 2, 3: 4, 4: 5, 5: 7, 6: 9, 7: 11}
_PERFECT_Q = (("dd", -2), ("d", -1), ("P", 0), ("A", 1), ("AA", 2))
_MAJOR_Q = (("dd", -3), ("d", -2), ("m", -1), ("M", 0), ("A", 1), ("AA", 2))


def interval_classes():
    """The 39 interval classes as (number, quality, semitones), in a fixed order."""
    out = []
    for number in range(1, 8):
        for q, off in (_PERFECT_Q if number in (1, 4, 5) else _MAJOR_Q):
            out.append((number, q, _BASE[number] + off))
    return out


SEMITONES = {(n, q): s for n, q, s in interval_classes()}


def midi(step, alter, octave):
    return 12 * (octave + 1) + NATURAL[LETTERS.index(step)] + (alter or 0)


def move(step, alter, octave, number, quality, direction):
    """(step, alter, octave) of the pitch `number`/`quality` above or below the given one."""
    sgn = 1 if direction == "up" else -1
    d = 7 * octave + LETTERS.index(step.upper()) + sgn * (number - 1)
    m = midi(step.upper(), alter, octave) + sgn * SEMITONES[(number, quality)]
    o2, l2 = divmod(d, 7)
    a2 = m - (12 * (o2 + 1) + NATURAL[l2])
    return LETTERS[l2], a2, o2


def move_class(step, alter, number, quality):
    """Octave-free upward variant: (step, alter)."""
    s, a, _ = move(step, alter, 4, number, quality, "up")
    return s, a


def pitch_class(step, alter):
    return (NATURAL[LETTERS.index(step.upper())] + (alter or 0)) % 12


def inverse(direction):
    return "down" if direction == "up" else "up"


# ---------------------------------------------------------------------------------------------
# exhaustive pitch grid


def grid_pitches(octaves):
    return [(s, a, o) for o in octaves for s in LETTERS for a in (-2, -1, 0, 1, 2)]


def in_range(p, number, quality, direction, lim=2):
    return abs(move(p[0], p[1], p[2], number, quality, direction)[1]) <= lim


def grid_spec(pitches, pid="G"):
    """One part holding the given pitches: five notes per onset (a chord), one onset per quarter; every
    third pitch is written with alter None when its alteration is 0 (None and 0 mean the same)."""
    objs = []
    for i, (s, a, o) in enumerate(pitches):
        t = i // 5
        raw = a
        if a == 0 and (i // 5) % 3 == 0:
            raw = None
        objs.append({"k": "note", "s": t, "e": t + 1, "id": "g%d" % i, "step": s, "alter": raw, "oct": o,
                     "voice": 1 + (i % 5) % 2, "staff": 1})
    return {"id": pid, "name": "grid", "divs": [[0, 1]], "objs": objs}


# ---------------------------------------------------------------------------------------------
# tie chains whose notes are spelled differently (enharmonic ties: same sounding pitch, other letter)

TIE_MIDI = tuple(range(60, 72))
TIE_GROUPS = ((60, 61, 62), (63, 64, 65), (66, 67, 68), (69, 70, 71))


def spellings(m, lim=2):
    """every (step, alter, octave) with |alter| <= lim that sounds MIDI pitch m, in diatonic order
    (e.g. 60 -> B#3, C4, Dbb4)"""
    out = []
    for o in range(m // 12 - 3, m // 12 + 2):
        for s in LETTERS:
            a = m - midi(s, 0, o)
            if abs(a) <= lim:
                out.append((s, a, o))
    out.sort(key=lambda p: 7 * p[2] + LETTERS.index(p[0]))
    return out


def spelled_chains(length, midis=TIE_MIDI):
    """all tie chains of `length` notes that sound one of the given MIDI pitches: every sequence (with
    repetition, so the identically spelled chains are among them) of spellings of that pitch"""
    import itertools

    out = []
    for m in midis:
        out.extend(itertools.product(spellings(m), repeat=length))
    return out


def chain_in_range(chain, number, quality, direction):
    return all(in_range(p, number, quality, direction) for p in chain)


def chains_spec(chains, pid="T"):
    """One part, one voice: the chains one after the other, one quarter per note, each note tied to the
    next note of its chain; an alteration of 0 is written None in every third chain. -> (spec, roles)"""
    objs = []
    roles = {}
    t = 0
    for ci, chain in enumerate(chains):
        for k, (s, a, o) in enumerate(chain):
            nid = "t%d_%d" % (ci, k)
            raw = None if (a == 0 and ci % 3 == 0) else a
            obj = {"k": "note", "s": t, "e": t + 1, "id": nid, "step": s, "alter": raw, "oct": o, "voice": 1, "staff": 1}
            if k < len(chain) - 1:
                obj["tie"] = "t%d_%d" % (ci, k + 1)
            objs.append(obj)
            same = all(p == chain[0] for p in chain)
            roles[nid] = ("tie-head" if k == 0 else "tie-later") + ("" if same else " of an enharmonic tie")
            t += 1
    return {"id": pid, "name": "ties", "divs": [[0, 1]], "objs": objs}, roles


# ---------------------------------------------------------------------------------------------
# small parts: slots with ties, chords, graces, rests, unpitched notes

P0 = ("C", None, 4)
P1 = ("B", -1, 4)
PG = ("E", 0, 5)
OTHER_PITCHES = (("G", 0, 3), ("D", 1, 4), ("A", -1, 2))
SMALL_PITCHES = (P0, P1, PG) + OTHER_PITCHES

# slot symbols: main event, optional grace prefix
#   "a"/"b": single note P0/P1; "ab": chord P0+P1; "r": rest; "u": unpitched; prefix "g": grace before
SLOTS = ("a", "b", "ga", "gb", "ab", "gab", "r", "u")


def _slot_pitches(slot):
    main = slot.lstrip("g")
    return [c for c in main if c in "ab"]


def structures(max_len):
    """All sequences of 1..max_len slots, each with every choice of ties between adjacent slots: for
    every pitch common to slot i and slot i+1 the note of slot i is tied to the note of slot i+1 or not.
    Yields (slots tuple, ties tuple) with ties[i] = string of tied pitch letters between slot i and i+1."""
    import itertools

    for n in range(1, max_len + 1):
        for seq in itertools.product(SLOTS, repeat=n):
            opts = []
            for i in range(n - 1):
                common = [c for c in _slot_pitches(seq[i]) if c in _slot_pitches(seq[i + 1])]
                choices = [""]
                for c in common:
                    choices = choices + [x + c for x in choices]
                opts.append(sorted(choices, key=lambda x: (len(x), x)))
            for ties in itertools.product(*opts):
                yield seq, ties


def small_spec(seq, ties, deco, pid="P1", d=2, offset=0):
    """ir part spec for a structure. Returns (spec, roles) with roles[id] = role string of each pitched
    note: 'plain', 'chord', 'tie-head', 'tie-later', 'grace'. `d` = divisions per quarter (one slot lasts a
    quarter), `offset` = time of the first slot in divisions (every element is shifted by it)."""
    objs = []
    roles = {}
    pit = {"a": P0, "b": P1}
    mains = []
    for i, slot in enumerate(seq):
        s, e = i * d, (i + 1) * d
        main = slot.lstrip("g")
        first_id = None
        if main == "r":
            objs.append({"k": "rest", "s": s, "e": e, "id": "r%d" % i, "voice": 1, "staff": 1, "sym": {"type": "quarter"}})
        elif main == "u":
            objs.append({"k": "unpitched", "s": s, "e": e, "id": "u%d" % i, "step": "E", "oct": 4, "voice": 1, "staff": 1,
                         "sym": {"type": "quarter"}})
        else:
            for c in main:
                p = pit[c]
                nid = "n%d%s" % (i, c)
                if first_id is None:
                    first_id = nid
                o = {"k": "note", "s": s, "e": e, "id": nid, "step": p[0], "alter": p[1], "oct": p[2], "voice": 1,
                     "staff": 1, "sym": {"type": "quarter"}}
                if i < len(seq) - 1 and c in ties[i]:
                    o["tie"] = "n%d%s" % (i + 1, c)
                objs.append(o)
                roles[nid] = "chord" if len(main) > 1 else "plain"
                mains.append(nid)
        if slot.startswith("g"):
            gid = "g%d" % i
            objs.append({"k": "grace", "s": s, "e": s, "id": gid, "step": PG[0], "alter": PG[1], "oct": PG[2], "voice": 1,
                         "staff": 1, "gtype": "acciaccatura", "sym": {"type": "eighth"}, "next": first_id})
            roles[gid] = "grace"
    # tie roles
    by_id = {o["id"]: o for o in objs if o["k"] == "note"}
    for o in by_id.values():
        if o.get("tie"):
            roles[o["tie"]] = "tie-later"
    for o in by_id.values():
        if o.get("tie") and roles[o["id"]] != "tie-later":
            roles[o["id"]] = "tie-head"
    if deco:
        end = len(seq) * d
        objs = [
            {"k": "measure", "s": 0, "e": end, "number": 1, "name": "1"},
            {"k": "ts", "s": 0, "beats": len(seq), "beat_type": 4},
            {"k": "ks", "s": 0, "fifths": -2, "mode": "major"},
            {"k": "clef", "s": 0, "staff": 1, "sign": "G", "line": 2, "oct": 0},
            {"k": "dyn", "s": 0, "e": None, "text": "mf", "staff": 1},
            {"k": "words", "s": 0, "text": "dolce", "staff": 1},
        ] + objs
        if len(mains) >= 2:
            objs.append({"k": "slur", "a": mains[0], "b": mains[-1]})
            objs.append({"k": "tuplet", "a": mains[0], "b": mains[-1], "actual": 3, "normal": 2})
        if mains:
            objs.append({"k": "fermata", "s": by_id[mains[0]]["s"], "ref": mains[0]})
    if offset:
        for o in objs:
            for key in ("s", "e"):
                if o.get(key) is not None:
                    o[key] += offset
    return {"id": pid, "name": "small", "divs": [[0, d]], "objs": objs}, roles


# ---------------------------------------------------------------------------------------------
# long instances of the small parts (magnitude dimension: number of time points, time scale, time offset)

# slots per part. Every slot is one time point; the longest value stays below the length at which the deep copy
# made by transpose() needs more than its recursion limit of 10000 frames (12-16 frames per time point for these
# patterns, i.e. 620-830 slots; see ASSUMPTIONS of checks/c16.py)
LONG_N = (30, 120, 500, 1100)
# (1100: beyond the 620-830 slots at which the fixed recursion limit of transpose() gave out - repaired in /repo ec35dac)
# thorough only (cost: about 2.7 s per case)
LONG_N_THOROUGH = (2600,)
# (divisions per quarter, time of the first slot): the plain scale, a fine grid, a start beyond 2**31 divisions
LONG_SCALES = ((2, 0), (2 * 10080, 0), (2, 2 ** 31 + 1))


def _common(x, y):
    return "".join(c for c in _slot_pitches(x) if c in _slot_pitches(y))


def long_bases():
    """The regular patterns: every sequence of one slot or of two different slots (a sequence of two equal slots
    is the one-slot pattern), repeated over and over; `tied` = every pitch common to two adjacent slots is tied
    across (only where the repetition has such a pitch), so ('a',) tied is one tie chain through the whole
    part. -> [(base tuple, tied 0/1)]"""
    import itertools

    out = []
    for n in (1, 2):
        for base in itertools.product(SLOTS, repeat=n):
            if n == 2 and base[0] == base[1]:
                continue
            out.append((base, 0))
            if any(_common(base[i], base[(i + 1) % n]) for i in range(n)):
                out.append((base, 1))
    return out


def long_structure(base, tied, n):
    """(slots, ties) of `base` repeated to n slots"""
    seq = tuple(base[i % len(base)] for i in range(n))
    ties = tuple(_common(seq[i], seq[i + 1]) if tied else "" for i in range(n - 1))
    return seq, ties


def other_spec(pid="P2"):
    """Fixed companion part (3 divisions per quarter): a tie chain of three, a chord, a grace note."""
    q = 3
    (s0, a0, o0), (s1, a1, o1), (s2, a2, o2) = OTHER_PITCHES
    objs = [
        {"k": "measure", "s": 0, "e": 12, "number": 1, "name": "1"},
        {"k": "ts", "s": 0, "beats": 4, "beat_type": 4},
        {"k": "clef", "s": 0, "staff": 1, "sign": "F", "line": 4, "oct": 0},
        {"k": "note", "s": 0, "e": 3, "id": "o1", "step": s0, "alter": a0, "oct": o0, "voice": 1, "staff": 1, "tie": "o2"},
        {"k": "note", "s": 3, "e": 6, "id": "o2", "step": s0, "alter": a0, "oct": o0, "voice": 1, "staff": 1, "tie": "o3"},
        {"k": "note", "s": 6, "e": 9, "id": "o3", "step": s0, "alter": a0, "oct": o0, "voice": 1, "staff": 1},
        {"k": "note", "s": 6, "e": 9, "id": "o4", "step": s1, "alter": a1, "oct": o1, "voice": 1, "staff": 1},
        {"k": "grace", "s": 9, "e": 9, "id": "o5", "step": s2, "alter": a2, "oct": o2, "voice": 1, "staff": 1,
         "gtype": "appoggiatura", "next": "o6"},
        {"k": "note", "s": 9, "e": 12, "id": "o6", "step": s1, "alter": a1, "oct": o1, "voice": 2, "staff": 1},
        {"k": "rest", "s": 0, "e": 6, "id": "or", "voice": 2, "staff": 1},
    ]
    roles = {"o1": "tie-head", "o2": "tie-later", "o3": "tie-later", "o4": "chord", "o5": "grace", "o6": "plain"}
    return {"id": pid, "name": "other", "divs": [[0, q]], "objs": objs}, roles


def admissible_intervals(pitches=SMALL_PITCHES):
    """(number, quality, direction) for which every given pitch stays within two accidentals, both ways
    of the round trip being in range by construction (the way back restores the original)."""
    out = []
    for n, q, _ in interval_classes():
        for direction in ("up", "down"):
            if all(in_range((p[0], p[1] or 0, p[2]), n, q, direction) for p in pitches):
                out.append((n, q, direction))
    return out


ARGKINDS = ("part", "score1", "score2", "group", "member")


# ---------------------------------------------------------------------------------------------
# chord roots / local keys (octave-free arithmetic as used by RomanNumeral and process_local_key)

KEY_ACC = (("", 0), ("#", 1), ("b", -1))
ACC_VALUE = {"": 0, "#": 1, "##": 2, "x": 2, "-": -1, "--": -2, "b": -1, "bb": -2}


def key_names():
    """(name, step, alter, minor?) for 7 letters x {natural, sharp, flat} x {major, minor}: upper-case
    letter = major, lower-case = minor, flats written 'b' (the notation the parser documents: 'Bb', 'f#')."""
    out = []
    for minor in (False, True):
        for l in LETTERS:
            for acc, v in KEY_ACC:
                out.append(((l.lower() if minor else l) + acc, l, v, minor))
    return out


def parse_name(name):
    """Lenient reading of a note/key name produced by the implementation: letter (any case) followed by
    an accidental string in any of the notations '#', '##', 'b', 'bb', '-', '--'. -> (step, alter) | None"""
    if not isinstance(name, str) or not name or name[0].upper() not in LETTERS:
        return None
    acc = name[1:]
    if acc not in ACC_VALUE:
        return None
    return name[0].upper(), ACC_VALUE[acc]


def shifted_quality(number, quality, shift):
    """Quality reached by widening (shift>0) or narrowing the interval by |shift| semitones, or None if
    it leaves the ladder dd..AA."""
    ladder = [q for q, _ in (_PERFECT_Q if number in (1, 4, 5) else _MAJOR_Q)]
    i = ladder.index(quality) + shift
    if 0 <= i < len(ladder):
        return ladder[i]
    return None
