"""Reference model for C03, computed from the score *spec* (mc/ir.py format), never from partitura:

  * moved_ids(part_spec): the notes that MusicXML cannot keep in their voice, by the two rules in the
    docstring of exportmusicxml.remove_voice_polyphony_single (same onset but longer than the shortest
    note of the voice at that onset; sounding past the next onset of the voice), applied per
    measure segment (a measure is cut where the divisions value changes);
  * sounding(part_spec): multiset of (onset_q, dur_q, pitch) with tie chains merged;
  * spec construction helpers shared by the enumerators (symbolic durations, importer conventions).
"""
from fractions import Fraction

from . import ir

PITCHES = [("C", None, 4), ("F", 1, 4), ("B", -1, 3), ("E", None, 5), ("G", None, 4), ("A", None, 3)]

_SYM = {
    Fraction(1, 4): ("16th", 0, None, None),
    Fraction(1, 2): ("eighth", 0, None, None),
    Fraction(3, 4): ("eighth", 1, None, None),
    Fraction(1): ("quarter", 0, None, None),
    Fraction(3, 2): ("quarter", 1, None, None),
    Fraction(2): ("half", 0, None, None),
    Fraction(3): ("half", 1, None, None),
    Fraction(4): ("whole", 0, None, None),
    Fraction(1, 6): ("16th", 0, 3, 2),
    Fraction(1, 3): ("eighth", 0, 3, 2),
    Fraction(2, 3): ("quarter", 0, 3, 2),
    Fraction(4, 3): ("half", 0, 3, 2),
}


def sym_for(dur_q):
    """symbolic duration dict for an exact quarter length (None if there is no single symbol)"""
    x = _SYM.get(Fraction(dur_q))
    if x is None:
        return None
    d = {"type": x[0]}
    if x[1]:
        d["dots"] = x[1]
    if x[2]:
        d["actual_notes"] = x[2]
        d["normal_notes"] = x[3]
    return d


def note(nid, s, e, p, voice=1, staff=1, divs=((0, 2),), kind="note", sym="auto", **kw):
    step, alter, octv = PITCHES[p] if isinstance(p, int) else p
    d = {"k": kind, "s": s, "e": e, "id": nid, "voice": voice, "staff": staff}
    if kind in ("note", "grace"):
        d.update(step=step, alter=alter, oct=octv)
    elif kind == "unpitched":
        d.update(step=step, oct=octv)
    if sym == "auto":
        if kind == "grace":
            sym = {"type": "eighth"}
        else:
            sym = sym_for(ir.quarters_between([list(x) for x in divs], s, e))
    if sym is not None:
        d["sym"] = sym
    d.update(kw)
    return d


def finish_part(spec):
    """Apply the conventions by which the MusicXML importer models every file: a Page and a System
    numbered 1 from the first to the last time point, constant directions ending where the next
    direction of the same family starts (else at the last point). Returns spec (modified)."""
    objs = spec["objs"]
    times = [o[k] for o in objs for k in ("s", "e") if o.get(k) is not None]
    last = max(times) if times else 0
    if not any(o["k"] == "page" for o in objs):
        objs.insert(0, {"k": "system", "s": 0, "e": last, "number": 1})
        objs.insert(0, {"k": "page", "s": 0, "e": last, "number": 1})
    fam = {"dyn": "loud", "tempodir": "tempo"}

    def family(o):
        # "cdir" = a constant direction of an explicit family (loud / tempo / artic), see build_part
        return o["fam"] if o["k"] == "cdir" else fam.get(o["k"])
    for f in ("loud", "tempo", "artic"):
        ds = sorted([o for o in objs if family(o) == f], key=lambda o: o["s"])
        for o in ds:
            later = [x["s"] for x in ds if x["s"] > o["s"]]
            o["e"] = min(later) if later else last
    return spec


# ---------------------------------------------------------------------------------------------
# reference: voice re-assignment

GENERIC = ("note", "grace", "rest", "unpitched")


def point_times(spec):
    ts = set()
    for o in spec["objs"]:
        for k in ("s", "e"):
            if o.get(k) is not None:
                ts.add(o[k])
    return sorted(ts)  # slurs and tuplets sit on the points of their notes


def segments(spec):
    """[(start, end)] of every measure segment in the order the exporter walks them"""
    divs = spec.get("divs", [[0, 1]])
    pts = point_times(spec)
    out = []
    for m in sorted((o for o in spec["objs"] if o["k"] == "measure"), key=lambda o: o["s"]):
        s, e = m["s"], m["e"]
        cuts = [s]
        q = ir.qdur_at(divs, s)
        for t in pts:
            if s < t < e:
                qq = ir.qdur_at(divs, t)
                if qq != q:
                    cuts.append(t)
                    q = qq
        cuts.append(e)
        out.extend(zip(cuts, cuts[1:]))
    return out


def moved_ids(spec):
    ev = [o for o in spec["objs"] if o["k"] in GENERIC]
    moved = set()
    for s, e in segments(spec):
        by_voice = {}
        for o in ev:
            if s <= o["s"] < e:
                by_voice.setdefault(o.get("voice") or 0, []).append(o)
        for v, notes in by_voice.items():
            notes = list(notes)
            # rule 1: same onset, longer than the shortest (grace notes do not count)
            by_on = {}
            for n in notes:
                if n["k"] != "grace":
                    by_on.setdefault(n["s"], []).append(n)
            for on in sorted(by_on):
                mn = min(n["e"] - n["s"] for n in by_on[on])
                for n in by_on[on]:
                    if n["e"] - n["s"] > mn:
                        moved.add(n["id"])
                        notes.remove(n)
            # rule 2: sounding past the next onset of the voice
            by_on = {}
            for n in notes:
                by_on.setdefault(n["s"], []).append(n)
            ons = sorted(by_on)
            for o1, o2 in zip(ons, ons[1:]):
                for n in by_on[o1]:
                    if n["e"] > o2:
                        moved.add(n["id"])
    return moved


# ---------------------------------------------------------------------------------------------
# reference: sounding notes


def sounding(spec):
    divs = spec.get("divs", [[0, 1]])
    out = []
    for ch in ir.tie_chains(spec):
        h = ch[0]
        on = ir.quarters_between(divs, 0, h["s"])
        du = ir.quarters_between(divs, h["s"], ch[-1]["e"])
        out.append((on, du, ir.midi_pitch(h["step"], h.get("alter"), h["oct"])))
    for o in spec["objs"]:
        if o["k"] == "unpitched":
            out.append((ir.quarters_between(divs, 0, o["s"]), ir.quarters_between(divs, o["s"], o["e"]),
                        ("U", o["step"], o["oct"])))
    return sorted(out, key=repr)


def measure_extents_q(spec):
    divs = spec.get("divs", [[0, 1]])
    ms = sorted((o for o in spec["objs"] if o["k"] == "measure"), key=lambda o: o["s"])
    return [(ir.quarters_between(divs, 0, m["s"]), ir.quarters_between(divs, 0, m["e"])) for m in ms]


def iter_parts(score_spec):
    def rec(items):
        for x in items:
            if "group" in x:
                for y in rec(x["children"]):
                    yield y
            else:
                yield x

    return list(rec(score_spec["parts"]))


# ---------------------------------------------------------------------------------------------
# building the real score (ir.build_part plus the few kinds ir does not know)

_DYNWORDS = {"crescendo": "IncreasingLoudnessDirection", "diminuendo": "DecreasingLoudnessDirection",
             "ritardando": "DecreasingTempoDirection", "accelerando": "IncreasingTempoDirection"}


_CDIR = {"loud": "ConstantLoudnessDirection", "tempo": "ConstantTempoDirection", "artic": "ConstantArticulationDirection"}


# ---------------------------------------------------------------------------------------------
# number forms: the same score with the numbers of its construction calls given as numpy scalars

NUMBER_FAMILIES = ("voice", "staff", "time", "pitch", "sym", "measure", "ts", "ks", "clef", "fing", "tempo", "ending",
                   "divs", "group")
NUMBER_TYPES = ("int64", "int32")


def _np_type(tname):
    import numpy as np

    if tname not in NUMBER_TYPES:
        raise ValueError("unknown number type %r" % (tname,))
    return getattr(np, tname)


def number_form(spec, tname, fams):
    """(copy of the part spec in which every Python int of the number families `fams` is the numpy scalar
    numpy.<tname> of the same value, number of values replaced).  The families are the numeric arguments of the
    public construction API: voice / staff (notes, rests, grace notes, clefs, directions) / time (start and end given
    to Part.add) / pitch (octave, alter) / sym (dots and tuplet ratio of a symbolic duration, actual and normal notes of
    a Tuplet) / measure (number) / ts (beats, beat type) / ks (fifths) / clef (line, octave change) / fing (fingering) /
    tempo (bpm) / ending (number) / divs (quarter durations and their times: Part(quarter_duration=),
    set_quarter_duration).  The values are the same numbers, so every reference value of the spec is unchanged."""
    import copy

    T = _np_type(tname)
    unknown = set(fams) - set(NUMBER_FAMILIES)
    if unknown:
        raise ValueError("unknown number families %r" % (sorted(unknown),))
    spec = copy.deepcopy(spec)
    cnt = [0]

    def c(d, k):
        v = d.get(k)
        if isinstance(v, int) and not isinstance(v, bool):
            d[k] = T(v)
            cnt[0] += 1

    for o in spec["objs"]:
        k = o["k"]
        if "voice" in fams and k in GENERIC:
            c(o, "voice")
        if "staff" in fams:
            c(o, "staff")
        if "time" in fams:
            c(o, "s")
            c(o, "e")
        if "pitch" in fams and k in GENERIC:
            c(o, "oct")
            c(o, "alter")
        if "sym" in fams:
            if isinstance(o.get("sym"), dict):
                for kk in ("dots", "actual_notes", "normal_notes"):
                    c(o["sym"], kk)
            if k == "tuplet":
                c(o, "actual")
                c(o, "normal")
        if "measure" in fams and k == "measure":
            c(o, "number")
        if "ts" in fams and k == "ts":
            c(o, "beats")
            c(o, "beat_type")
        if "ks" in fams and k == "ks":
            c(o, "fifths")
        if "clef" in fams and k == "clef":
            c(o, "line")
            c(o, "oct")
        if "fing" in fams and k in GENERIC:
            c(o, "fing")
        if "tempo" in fams and k == "tempo":
            c(o, "bpm")
        if "ending" in fams and k == "ending":
            c(o, "number")
    if "divs" in fams:
        divs = []
        for t, q in spec.get("divs", [[0, 1]]):
            divs.append([T(t), T(q)])
            cnt[0] += 2
        spec["divs"] = divs
        if spec.get("qh") is not None:
            qh = spec["qh"]
            spec["qh"] = {"init": T(qh["init"]), "calls": [[cut, T(t), T(q)] for cut, t, q in qh["calls"]]}
    return spec, cnt[0]


def build_part(spec):
    import partitura.score as S

    if spec.get("nf"):
        # the numbers of the families spec["nf"][1] are handed to the library as numpy scalars (number_form); the
        # reference values are computed from the spec as it is
        spec = number_form(spec, spec["nf"][0], spec["nf"][1])[0]
    extra =[o for o in spec["objs"] if o["k"] in ("dynwords", "cdir") or (o["k"] == "fermata" and o.get("bar"))]
    base = dict(spec, objs=[o for o in spec["objs"] if not any(o is x for x in extra)])
    if spec.get("qh") is not None:
        part = _build_part_phased(base)
    else:
        part = ir.build_part(base)
    for o in extra:
        # "raw" = the words as they are printed in the score (Direction.raw_text, what the exporter writes into
        # <words>); it may differ from the canonical `text` in letter case or by being an abbreviation
        if o["k"] == "dynwords":
            d = getattr(S, _DYNWORDS[o["text"]])(o["text"], o.get("raw"), staff=o.get("staff"))
            part.add(d, o["s"], o.get("e"))
        elif o["k"] == "cdir":
            # constant direction of one of the three families that score.set_end_times closes; these are
            # added in the order of the spec so that a case fixes the order inside a time point
            d = getattr(S, _CDIR[o["fam"]])(o["text"], o.get("raw"), staff=o.get("staff"))
            part.add(d, o["s"], o.get("e"))
        else:
            part.add(S.Fermata(o["ref"]), o["s"])
    return part


# ---------------------------------------------------------------------------------------------
# quarter durations (divisions) declared in any order and at any moment of the construction


def q_apply(table, t, q):
    """Reference model of Part.set_quarter_duration(t, q) on the table {time: quarter duration} (docstring of the
    method: the value takes effect from t until the time of the next quarter duration; a value that was set at t
    before is replaced).  Returns (new table, effect) with effect in
      "add" / "replace"  the table changed,
      "same"             t already carries q,
      "redundant"        there is no entry at t and the value in force before t is q already: the method adds
                         nothing (its comment: "add quarter duration at time t, unless it is redundant")."""
    if t in table:
        if table[t] == q:
            return table, "same"
        return {**table, t: q}, "replace"
    before = [x for x in table if x < t]
    if before and table[max(before)] == q:
        return table, "redundant"
    return {**table, t: q}, "add"


def q_final(init, calls):
    """table [[t, q], ...] after Part(quarter_duration=init) and the calls [(t, q), ...] in this order, or None if a
    call has no effect ("same" / "redundant": such histories are not generated, see q_apply)"""
    table = {0: init}
    for t, q in calls:
        table, eff = q_apply(table, t, q)
        if eff in ("same", "redundant"):
            return None
    return [[t, table[t]] for t in sorted(table)]


def cut_index(objs, cut):
    """number of objects of the list that have been added to the part when a call with this cut is made:
    0 = none, "S" = the leading structure objects (page, system, measures, signatures: everything before the first
    note or rest), "S+k" = these and the first k notes/rests, "E" = all objects"""
    if cut == 0 or cut == "0":
        return 0
    if cut == "E":
        return len(objs)
    first = next((i for i, o in enumerate(objs) if o["k"] in GENERIC), len(objs))
    if cut == "S":
        return first
    return min(len(objs), first + int(cut[2:]))


def _build_part_phased(spec):
    """Build the part of a spec with a declaration history spec["qh"] = {"init": q, "calls": [[cut, t, q], ...]}:
    Part(quarter_duration=init); the objects are added in the order of the list; every call
    set_quarter_duration(t, q) is made at its cut (cut_index), calls of one cut in list order.  The final table is
    spec["divs"] (the generators guarantee q_final(init, calls) == divs).  Kinds: what the divisions sub-spaces
    use (page, system, measure, ts, note, rest)."""
    import partitura.score as S

    qh = spec["qh"]
    objs = spec["objs"]
    part = S.Part(spec.get("id", "P1"), part_name=spec.get("name"), part_abbreviation=spec.get("abbr"),
                  quarter_duration=qh["init"])
    calls = [(cut_index(objs, cut), t, q) for cut, t, q in qh["calls"]]
    if [c[0] for c in calls] != sorted(c[0] for c in calls):
        raise ValueError("calls of a declaration history must be listed in the order in which they are made")
    ci = 0
    for i in range(len(objs) + 1):
        while ci < len(calls) and calls[ci][0] == i:
            part.set_quarter_duration(calls[ci][1], calls[ci][2])
            ci += 1
        if i == len(objs):
            break
        o = objs[i]
        k = o["k"]
        if k in ("note", "rest"):
            kw = dict(id=o.get("id"), voice=o.get("voice"), staff=o.get("staff"))
            if o.get("sym") is not None:
                kw["symbolic_duration"] = dict(o["sym"])
            obj = S.Note(o["step"], o["oct"], o.get("alter"), **kw) if k == "note" else S.Rest(**kw)
        elif k == "measure":
            obj = S.Measure(number=o.get("number"), name=o.get("name"))
        elif k == "ts":
            obj = S.TimeSignature(o["beats"], o["beat_type"])
        elif k == "page":
            obj = S.Page(o.get("number", 1))
        elif k == "system":
            obj = S.System(o.get("number", 1))
        else:
            raise ValueError("kind %r is not supported in a part with a declaration history" % (k,))
        part.add(obj, o.get("s"), o.get("e"))
    return part


def build_score(spec):
    import partitura.score as S

    def rec(x):
        if "group" in x:
            g = x["group"]
            number = g.get("number")
            if x.get("nf") and "group" in x["nf"][1] and isinstance(number, int):
                number = _np_type(x["nf"][0])(number)
            pg = S.PartGroup(g.get("symbol"), g.get("name"), number)
            pg.children = [rec(c) for c in x["children"]]
            for c in pg.children:
                c.parent = pg
            return pg
        return build_part(x)

    return S.Score([rec(x) for x in spec["parts"]])
