"""Enumerators for the C03 sub-spaces and the expansion of a compact case into a score spec
(mc/ir.py format).  Every enumerator is a pure generator with a fixed order.

Compact case:  {"sp": name, ...fields depending on the sub-space...}; expand(case) -> score spec.
Common part description used by most sub-spaces ("core"):
   q     divisions table [[t, q], ...]
   m     measure extents [[s, e], ...]   (timeline units)
   ts    [[t, beats, beat_type], ...]
   ev    events [[kind, s, e, voice, staff], ...]  kind: "n" note, "r" rest, "u" unpitched
         pitched events take PITCHES[i] by their index among the pitched events (all distinct)
   x     extra ir objects (dicts) referring to note ids "<pid>n<i>" (i = index in ev)
"""
from fractions import Fraction
from itertools import combinations, product

from . import c03_model as M


def spans(lo, hi, durs=(1, 2, 3, 4)):
    """all (s, e) with lo <= s < e <= hi and e - s in durs"""
    return [(s, s + d) for s in range(lo, hi) for d in durs if s + d <= hi]


def core_part(c, pid="P1", name="Pno"):
    q = [list(x) for x in c.get("q", [[0, 2]])]
    objs = []
    for i, (s, e) in enumerate(c["m"]):
        objs.append({"k": "measure", "s": s, "e": e, "number": i + 1, "name": c["mnames"][i] if c.get("mnames") else str(i + 1)})
    for t, b, bt in c.get("ts", [[0, 2, 4]]):
        objs.append({"k": "ts", "s": t, "beats": b, "beat_type": bt})
    for t, f, mode in c.get("ks", []):
        objs.append({"k": "ks", "s": t, "fifths": f, "mode": mode})
    for t, st, sign, line, oc in c.get("clef", []):
        objs.append({"k": "clef", "s": t, "staff": st, "sign": sign, "line": line, "oct": oc})
    pi = 0
    nosym = c.get("nosym", False)
    for i, ev in enumerate(c["ev"]):
        kind, s, e, voice, staff = ev[:5]
        nid = "%sn%d" % (pid, i)
        kw = {}
        if nosym:
            kw["sym"] = None
        if kind == "r":
            objs.append(M.note(nid, s, e, 0, voice, staff, q, kind="rest", **kw))
        else:
            p = ev[5] if len(ev) > 5 else pi
            objs.append(M.note(nid, s, e, p, voice, staff, q, kind="note" if kind == "n" else "unpitched", **kw))
            pi += 1
    by_i = {}
    for o in objs:
        if o["k"] in ("note", "rest", "unpitched"):
            by_i[int(o["id"][len(pid) + 1:])] = o
    for gr in c.get("grace", []):
        j, n, gtype = gr[:3]
        # optional 4th field: the pitch index of every grace note of the run (a grace note that is tied has the
        # pitch of its tie partner); default: the first grace note lies below every main note, the second above
        gp = gr[3] if len(gr) > 3 else (5, 3)
        main = by_i[j]
        for k in range(n):
            g = M.note("%sg%d_%d" % (pid, j, k), main["s"], main["s"], gp[k], main["voice"], main["staff"], q,
                       kind="grace", gtype=gtype)
            g["next"] = "%sg%d_%d" % (pid, j, k + 1) if k + 1 < n else main["id"]
            objs.insert(objs.index(main), g)
            by_i["g%d_%d" % (j, k)] = g
    for i, j in c.get("ties", []):
        # a tie end is the index of an event, or "g<j>_<k>" = the k-th grace note of the run before event j
        by_i[i]["tie"] = by_i[j]["id"]
    for x in c.get("x", []):
        objs.append(dict(x))
    for k, d in enumerate(c.get("deco", [])):
        apply_deco(pid, objs, d, k)
    for a in c.get("attr", []):
        if a[0] == "ks":
            objs.append({"k": "ks", "s": a[1], "fifths": a[2], "mode": a[3]})
        elif a[0] == "ts":
            objs.append({"k": "ts", "s": a[1], "beats": a[2], "beat_type": a[3]})
        elif a[0] == "clef":
            objs.append({"k": "clef", "s": a[1], "staff": a[2], "sign": a[3], "line": a[4], "oct": a[5]})
    if c.get("staves") == 2:
        # initial clefs for both staves, as a two-staff MusicXML part has them
        objs.insert(0, {"k": "clef", "s": 0, "staff": 2, "sign": "F", "line": 4, "oct": 0})
        objs.insert(0, {"k": "clef", "s": 0, "staff": 1, "sign": "G", "line": 2, "oct": 0})
    for a, b in c.get("rep", []):
        objs.append({"k": "repeat", "s": a, "e": b})
    for n, a, b in c.get("end", []):
        objs.append({"k": "ending", "s": a, "e": b, "number": n})
    if c.get("bo"):
        objs = build_order(objs, c["bo"])
    spec = {"id": pid, "name": name, "divs": q, "objs": objs}
    if c.get("abbr"):
        spec["abbr"] = c["abbr"]
    if c.get("qh"):
        # declaration history of the divisions table (mc/c03_model._build_part_phased); `q` is its final table
        spec["qh"] = c["qh"]
    if c.get("nf"):
        # number form [numpy type name, [number families]] (mc/c03_model.number_form): how the numbers of the
        # construction calls are handed to the library; the spec itself keeps Python ints
        spec["nf"] = [c["nf"][0], list(c["nf"][1])]
    return M.finish_part(spec)


def build_order(objs, bo):
    """The order in which the notes and rests are added to the part ("bo" field of a case).  A part keeps of the
    build order only the order of the objects that start at one time point, so a build order is described per
    onset: bo is a string over {"a", "d"} with one letter per distinct onset of the notes in ascending time
    order (a single letter stands for every onset): at an "a" onset the notes are added in ascending voice
    order, at a "d" onset in descending voice order (bottom voice first); notes of one voice at one onset keep
    their order.  The notes take the places of the notes in the object list, everything else stays put."""
    idx = [i for i, o in enumerate(objs) if o["k"] in ("note", "rest", "unpitched")]
    if any(o["k"] == "grace" for o in objs):
        raise ValueError("build orders are not defined for cores with grace runs")
    onsets = sorted({objs[i]["s"] for i in idx})
    if len(bo) == 1:
        bo = bo * len(onsets)
    if len(bo) != len(onsets) or set(bo) - {"a", "d"}:
        raise ValueError("bad build order %r for %d onsets" % (bo, len(onsets)))
    sign = {t: (1 if f == "a" else -1) for t, f in zip(onsets, bo)}
    new = sorted(idx, key=lambda i: (objs[i]["s"], sign[objs[i]["s"]] * (objs[i].get("voice") or 0), i))
    out = list(objs)
    for place, i in zip(idx, new):
        out[place] = objs[i]
    return out


def magnify(spec, factor, offset=0):
    """The part spec at another magnitude of its numbers of ticks ("mag" field of a case = [factor, offset]):
    every timeline time t and every divisions value q becomes factor * t and factor * q - the same music on a finer
    tick grid (every quarter length, symbolic duration and reference value of the spec is unchanged, every number of
    ticks that is written into the file is `factor` times larger); offset > 0 then puts an empty irregular measure of
    `offset` ticks (in the first divisions value) before the music: measure 1 = [0, offset) with the name "L", all
    other measures renumbered, every time t > 0 and every object that is not part of the opening (page, system and the
    time signature / key signature / clefs at time 0 stay at 0) moved by `offset` ticks.  Returns a new spec."""
    import copy

    spec = copy.deepcopy(spec)
    F, off = int(factor), int(offset)
    if F < 1 or off < 0:
        raise ValueError("bad magnitude %r" % ((factor, offset),))

    def tm(t, opening=False):
        if t is None:
            return None
        return F * t + (0 if (opening and t == 0) else off)

    spec["divs"] = [[tm(t, True), F * q] for t, q in spec.get("divs", [[0, 1]])]
    if spec.get("qh") is not None:
        qh = spec["qh"]
        spec["qh"] = {"init": F * qh["init"], "calls": [[cut, tm(t, True), F * q] for cut, t, q in qh["calls"]]}
    first_measure = None
    for i, o in enumerate(spec["objs"]):
        k = o["k"]
        if k in ("page", "system"):
            if o.get("s") is not None:
                o["s"] = tm(o["s"], True)
            if o.get("e") is not None:
                o["e"] = tm(o["e"])
            continue
        opening = k in ("ts", "ks", "clef")
        for key in ("s", "e"):
            if o.get(key) is not None:
                o[key] = tm(o[key], opening and key == "s")
        if k == "measure":
            if first_measure is None:
                first_measure = i
            if off:
                o["number"] = o["number"] + 1
    if off:
        if first_measure is None:
            raise ValueError("a part without measures cannot be moved")
        spec["objs"].insert(first_measure, {"k": "measure", "s": 0, "e": off, "number": 1, "name": "L"})
    return spec


def _magnified(part_spec, case):
    mag = case.get("mag")
    if not mag:
        return part_spec
    return magnify(part_spec, mag[0], mag[1] if len(mag) > 1 else 0)


def expand(case):
    sp = case["sp"]
    if "score" in case:
        return case["score"]
    if "mag" in case:
        # magnitude of the numbers of ticks [factor, offset] (magnify): holds for every part of the case
        base = expand({k: v for k, v in case.items() if k != "mag"})

        def rec(x):
            if "group" in x:
                return dict(x, children=[rec(y) for y in x["children"]])
            return _magnified(x, case)
        return {"parts": [rec(x) for x in base["parts"]]}
    if "parts" in case:
        nf = case.get("nf")  # a number form of the case holds for all its parts and groups

        def rec(x):
            if "group" in x:
                g = {"group": x["group"], "children": [rec(y) for y in x["children"]]}
                if nf:
                    g["nf"] = [nf[0], list(nf[1])]
                return g
            return core_part(dict(x, nf=nf) if nf else x, x.get("id", "P1"), x.get("name"))
        return {"parts": [rec(x) for x in case["parts"]]}
    return {"parts": [core_part(case)]}


# ---------------------------------------------------------------------------------------------
# A: rhythm / voice core


def _alphabet(meas, voices=(1, 2), staves=(1, 2), kinds=("n", "r"), staff_is_voice=False):
    out = []
    for (lo, hi) in meas:
        for (s, e) in spans(lo, hi):
            for v in voices:
                for st in ([v] if staff_is_voice else staves):
                    for k in kinds:
                        out.append([k, s, e, v, st])
    return out


def gen_A(layouts, nmax, staff_is_voice=False, nmin=1, name="A"):
    """all sets of nmin..nmax events over the alphabet of each measure layout"""
    for meas in layouts:
        alpha = _alphabet(meas, staff_is_voice=staff_is_voice)
        for n in range(nmin, nmax + 1):
            for comb in combinations(alpha, n):
                c = {"sp": name, "m": [list(x) for x in meas], "ev": [list(x) for x in comb]}
                if len(meas) > 1 and meas[0][1] - meas[0][0] < 4:
                    c["mnames"] = ["0"] + ["%d" % i for i in range(1, len(meas))]  # pickup measure is called "0"
                yield c


def stride(gen, B, r):
    """every element whose index is r modulo B (a deterministic block of the enumeration)"""
    def it():
        for i, c in enumerate(gen()):
            if i % B == r:
                yield c
    return it


# ---------------------------------------------------------------------------------------------
# B: ties, grace runs, unpitched


def _chains(meas, kmax=3, durs=(1, 2)):
    """contiguous runs of 2..kmax spans, each span inside one measure"""
    def inside(s, e):
        return any(lo <= s and e <= hi for lo, hi in meas)
    total = meas[-1][1]
    out = []

    def rec(ch):
        if len(ch) >= 2:
            out.append(list(ch))
        if len(ch) == kmax:
            return
        s = ch[-1][1]
        for d in durs:
            if s + d <= total and inside(s, s + d):
                rec(ch + [(s, s + d)])

    for s in range(0, total):
        for d in durs:
            if inside(s, s + d):
                rec([(s, s + d)])
    return out


def gen_B_ties(extra):
    """chains of 2-3 contiguous notes of one pitch over three 1/4 measures (ties over one and two
    barlines), every assignment of voices {1,2}, every non-empty subset of tie links; `extra`: also
    one more event anywhere (another pitch, the same pitch untied, or a rest; voice 1 or 2)"""
    meas = [(0, 2), (2, 4), (4, 6)]
    alpha = [None]
    if extra:
        alpha = []
        for (s, e) in [x for lo, hi in meas for x in spans(lo, hi, (1, 2))]:
            for v in (1, 2):
                for k in ("o", "s", "r"):
                    alpha.append((k, s, e, v))
    for ch in _chains(meas):
        k = len(ch)
        for voices in product((1, 2), repeat=k):
            for flags in product((0, 1), repeat=k - 1):
                if not any(flags):
                    continue
                for x in alpha:
                    ev = [["n", s, e, v, v, 0] for (s, e), v in zip(ch, voices)]
                    ties = [[i, i + 1] for i, f in enumerate(flags) if f]
                    if x is not None:
                        kind, s, e, v = x
                        if kind == "r":
                            ev.append(["r", s, e, v, v])
                        else:
                            ev.append(["n", s, e, v, v, 1 if kind == "o" else 0])
                    yield {"sp": "B-ties", "m": [list(m) for m in meas], "ts": [[0, 1, 4]], "ev": ev, "ties": ties}


# spellings of one sounding pitch (a tie joins notes of one sounding pitch, whatever their spelling: G#4 tied to Ab4
# where the key changes, B#3 tied to C4), with a lower and an upper neighbour pitch that shares its letter (and, for
# B#3 / C4, its octave number) with one of the spellings
ENHARMONIC_SETS = [
    {"spell": [["G", 1, 4], ["A", -1, 4]], "lower": ["G", None, 4], "upper": ["A", None, 4]},
    {"spell": [["B", 1, 3], ["C", None, 4], ["D", -2, 4]], "lower": ["B", None, 3], "upper": ["D", -1, 4]},
]


def gen_B_enharmonic(k, companions):
    """ties between differently spelled notes of one sounding pitch.  Three 1/4 measures (grid of eighths), chains of
    k contiguous notes (durations 1-2 units, each inside a measure) of one sounding pitch, every assignment of voices
    {1,2} and every non-empty subset of tie links (as B1) x every assignment of the spellings of the pitch to the notes
    (ENHARMONIC_SETS: G#4/Ab4, B#3/C4/Dbb4; the assignments with one spelling throughout are the class of B1 and kept
    as the control); companions=True: also with a second chain of the same spans, voices and tie links (a chord tied to
    a chord) a semitone lower / higher, spelled with the letter of one of the spellings throughout."""
    meas = [(0, 2), (2, 4), (4, 6)]
    for ch in _chains(meas, kmax=k):
        if len(ch) != k:
            continue
        for voices in product((1, 2), repeat=k):
            for flags in product((0, 1), repeat=k - 1):
                if not any(flags):
                    continue
                ties = [[i, i + 1] for i, f in enumerate(flags) if f]
                for es in ENHARMONIC_SETS:
                    for sp in product(es["spell"], repeat=k):
                        for comp in ((None, "lower", "upper") if companions else (None,)):
                            ev = [["n", s, e, v, v, list(p)] for (s, e), v, p in zip(ch, voices, sp)]
                            tt = [list(t) for t in ties]
                            if comp is not None:
                                ev += [["n", s, e, v, v, list(es[comp])] for (s, e), v in zip(ch, voices)]
                                tt += [[i + k, j + k] for i, j in ties]
                            yield {"sp": "B-enharmonic", "m": [list(m) for m in meas], "ts": [[0, 1, 4]], "ev": ev, "ties": tt}


def gen_B_chordties():
    """two simultaneous chains (a chord tied to a chord) in one voice over a barline; the second chain's
    first or second note may be one unit longer/shorter (unequal chord: the longer note is moved)"""
    meas = [(0, 4), (4, 8)]
    for (a, b, c) in [(2, 4, 6), (3, 4, 5), (0, 4, 8), (2, 4, 5)]:
        for f0 in (0, 1):
            for f1 in (0, 1):
                if not (f0 or f1):
                    continue
                for v2 in (1, 2):
                    for d0, d1 in ((0, 0), (1, 0), (0, -1)):
                        # chain 0: (a,b)-(b,c) pitch 0 voice 1; chain 1: (a+d0,b)-(b,c+d1) pitch 1 voice v2
                        if a + d0 >= b or c + d1 <= b:
                            continue
                        ev = [["n", a, b, 1, 1, 0], ["n", b, c, 1, 1, 0], ["n", a + d0, b, v2, 1, 1], ["n", b, c + d1, v2, 1, 1]]
                        ties = ([[0, 1]] if f0 else []) + ([[2, 3]] if f1 else [])
                        yield {"sp": "B-chordties", "m": [list(m) for m in meas], "ev": ev, "ties": ties}


def gen_B_grace(double):
    """cores of 1-2 notes in one 2/4 measure (span x voice{1,2}, staff = voice); a grace run of length
    1-2 (plain / slashed) before one note (double=False) or before both notes (double=True)"""
    meas = [(0, 4)]
    alpha = [["n", s, e, v, v] for (s, e) in spans(0, 4) for v in (1, 2)]
    runs = [(1, "grace"), (1, "acciaccatura"), (2, "grace"), (2, "acciaccatura")]
    for n in (1, 2):
        for comb in combinations(alpha, n):
            ev = [list(x) for x in comb]
            if not double:
                for j in range(n):
                    for r in runs:
                        c = {"sp": "B-grace", "m": [[0, 4]], "ev": ev, "grace": [[j, r[0], r[1]]]}
                        if grace_ok(c):
                            yield c
            elif n == 2:
                for r0 in runs:
                    for r1 in runs:
                        c = {"sp": "B-grace2", "m": [[0, 4]], "ev": ev, "grace": [[0, r0[0], r0[1]], [1, r1[0], r1[1]]]}
                        if grace_ok(c):
                            yield c


def grace_tie_predecessor_written_later(case):
    """a grace note g that is tied on both sides (x -> g -> y) whose predecessor x is written after g in the
    file: x lies in the measure of g in a higher voice (voices are written in ascending order)"""
    if not case.get("grace") or not case.get("ties"):
        return False
    ev, meas = case["ev"], case["m"]
    nxt = {str(a): b for a, b in case["ties"]}
    for a, b in case["ties"]:
        if isinstance(b, str) and b in nxt and isinstance(a, int):
            main = ev[int(b[1:].split("_")[0])]
            x = ev[a]
            same_measure = any(lo <= x[1] < hi and lo <= main[1] < hi for lo, hi in meas)
            if same_measure and x[3] > main[3]:
                return True
    return False


def gen_B_graceties(chord, written_later=None):
    """grace notes that take part in ties.  Two 1/4 measures (grid of eighths); a main note m (pitch C4) on every
    span of 1-2 units inside a measure, voice 1 or 2; before it a grace run g0[,g1] of length 1-2, plain or
    slashed; optionally a note p of the same pitch that ends where m starts (every span of 1-2 units inside a
    measure, so also over the barline; voice 1 or 2) and optionally a note f of the same pitch and voice that
    follows m (one unit, tied m->f: the grace-note tie is then the head of a longer chain).
    Tie links: every non-empty contiguous run of links of the sequence p -> g0 [-> g1] -> m (every link has a
    grace note at one end at least); a grace note that is tied has the pitch of the chain, an untied one
    another pitch.  Runs with a gap (a tie that stops on one grace note and another tie of the same pitch that
    starts on the next grace note at the same instant) are left out: MusicXML pairs ties by pitch and time and
    cannot tell these two ties apart (the statement's distinct-pitch premise).
    chord=True: the same with a second, lower, untied note of the span and voice of m (m is a chord member).
    written_later: None = all cases; True/False = only the cases with / without a grace note tied on both sides
    whose predecessor is written after it in the file (grace_tie_predecessor_written_later)."""
    meas = [(0, 2), (2, 4)]
    inside = [x for lo, hi in meas for x in spans(lo, hi, (1, 2))]
    for (s, e) in inside:
        for v in (1, 2):
            pre = [None] + [(a, b, pv) for (a, b) in inside if b == s for pv in (1, 2)]
            fol = [None] + ([(e, e + 1)] if (e, e + 1) in inside else [])
            for n in (1, 2):
                for gtype in ("grace", "acciaccatura"):
                    for p in pre:
                        for f in fol:
                            ev = [["n", s, e, v, v, 0]]
                            seq = ["g0_%d" % k for k in range(n)] + [0]
                            ties = []
                            if chord:
                                ev.append(["n", s, e, v, v, 2])
                            if p is not None:
                                seq.insert(0, len(ev))
                                ev.append(["n", p[0], p[1], p[2], p[2], 0])
                            if f is not None:
                                ties.append([0, len(ev)])
                                ev.append(["n", f[0], f[1], v, v, 0])
                            links = list(zip(seq, seq[1:]))
                            for a in range(len(links)):
                                for b in range(a + 1, len(links) + 1):
                                    chosen = links[a:b]
                                    tied = {x for l in chosen for x in l}
                                    gp = [0 if "g0_%d" % k in tied else (5, 3)[k] for k in range(n)]
                                    c = {"sp": "B-graceties", "m": [list(m) for m in meas], "ts": [[0, 1, 4]], "ev": ev,
                                         "grace": [[0, n, gtype, gp]], "ties": ties + [list(l) for l in chosen]}
                                    if written_later is not None and grace_tie_predecessor_written_later(c) != written_later:
                                        continue
                                    if grace_ok(c):
                                        yield c


def gen_A_kinds(kinds, nosym=False, name="A-kinds"):
    alpha = _alphabet([(0, 4)], kinds=kinds, staff_is_voice=True)
    for n in (1, 2):
        for comb in combinations(alpha, n):
            c = {"sp": name, "m": [[0, 4]], "ev": [list(x) for x in comb]}
            if nosym:
                c["nosym"] = True
            yield c


def grace_ok(case):
    """a grace run is expressible only if its main note stays in the voice and is written first among
    the notes of its voice at that onset (the exporter writes the highest pitch first)"""
    from . import ir
    spec = expand(case)
    for p in M.iter_parts(spec):
        mv = M.moved_ids(p)
        notes = {o["id"]: o for o in p["objs"] if o["k"] in ("note", "grace", "unpitched", "rest")}
        for o in p["objs"]:
            if o["k"] == "grace" and o.get("next") in notes and notes[o["next"]]["k"] != "grace":
                m = notes[o["next"]]
                if m["id"] in mv:
                    return False
                for x in notes.values():
                    if x is m or x["k"] == "grace" or x["id"] in mv:
                        continue
                    if x["voice"] == m["voice"] and x["s"] == m["s"]:
                        if x["k"] != "note" or m["k"] != "note":
                            return False
                        if ir.midi_pitch(x["step"], x.get("alter"), x["oct"]) >= ir.midi_pitch(m["step"], m.get("alter"), m["oct"]):
                            return False
    return True


# ---------------------------------------------------------------------------------------------
# C: decorations


def note_decos(pid, ev):
    """decoration instances attached to notes: list of (kind, patch) where patch is applied by apply_deco"""
    out = []
    idx = [i for i, e in enumerate(ev) if e[0] in ("n", "u")]
    for i in idx:
        out.append(("art1", ["art", i, ["staccato"]]))
        out.append(("art2", ["art", i, ["accent", "tenuto"]]))
        out.append(("fing", ["fing", i, 3]))
        out.append(("stem", ["stem", i, "up"]))
        out.append(("stem", ["stem", i, "down"]))
        out.append(("nferm", ["nferm", i]))
    for i in idx:
        for j in idx:
            # a slur runs forward in time (the importer drops a slur that stops before it starts)
            if (ev[i][1], i) <= (ev[j][1], j):
                out.append(("slur", ["slur", i, j]))
    return out


def time_decos(meas, total):
    out = []
    bars = sorted({m[0] for m in meas} | {m[1] for m in meas})
    for t in range(0, total):
        out.append(("dyn", ["dyn", t, "p"]))
        if t % 2 == 0:
            out.append(("dyn", ["dyn", t, "f", 2]))  # on the second staff
        out.append(("sfz", ["sfz", t, "sfz"]))
        out.append(("tempodir", ["tempodir", t, "adagio"]))
        out.append(("tempo", ["tempo", t, 100]))
        out.append(("dynwords", ["dynwords", t, None, "crescendo"]))
        for u in range(t + 1, total + 1):
            out.append(("wedge", ["wedge", t, u, "+"]))
            out.append(("wedge", ["wedge", t, u, "-"]))
            out.append(("dashes", ["dynwords", t, u, "crescendo"]))
    for t in range(0, total + 1):
        if t in bars:
            if t < total:
                out.append(("bferm", ["bferm", t, "left"]))
            if t == total:
                # (a fermata on the right barline of a measure that is followed by another one, and plain
                # score.Words objects, are the gated sub-spaces X2/X3: proposed known findings)
                out.append(("bferm", ["bferm", t, "right"]))
        else:
            out.append(("bferm", ["bferm", t, "middle"]))
    return out


def apply_deco(pid, objs, d, k):
    """apply decoration instance d (k = running index, for unique names) to the ir object list"""
    kind = d[0]
    by_id = {o.get("id"): o for o in objs if o.get("id")}

    def nid(i):
        return "%sn%d" % (pid, i)
    if kind == "art":
        by_id[nid(d[1])]["art"] = sorted(set(by_id[nid(d[1])].get("art", [])) | set(d[2]))
    elif kind == "fing":
        by_id[nid(d[1])]["fing"] = d[2]
    elif kind == "stem":
        by_id[nid(d[1])]["stem"] = d[2]
    elif kind == "nferm":
        n = by_id[nid(d[1])]
        if not any(o["k"] == "fermata" and o.get("ref") == n["id"] for o in objs):
            objs.append({"k": "fermata", "s": n["s"], "ref": n["id"]})
    elif kind == "slur":
        objs.append({"k": "slur", "a": nid(d[1]), "b": nid(d[2])})
    elif kind == "tuplet":
        a = by_id[nid(d[1])]
        objs.append({"k": "tuplet", "a": nid(d[1]), "b": nid(d[2]), "actual": 3, "normal": 2,
                     "atype": a["sym"]["type"], "ntype": a["sym"]["type"]})
    elif kind == "dyn":
        o = {"k": "dyn", "s": d[1], "text": d[2]}
        if len(d) > 3:
            o["staff"] = d[3]
        objs.append(o)
    elif kind == "sfz":
        objs.append({"k": "sfz", "s": d[1], "text": d[2]})
    elif kind == "tempodir":
        objs.append({"k": "tempodir", "s": d[1], "text": d[2]})
    elif kind == "tempo":
        objs.append({"k": "tempo", "s": d[1], "bpm": d[2], "unit": "q"})
    elif kind == "words":
        objs.append({"k": "words", "s": d[1], "text": d[2]})
    elif kind == "wedge":
        objs.append({"k": "wedge", "s": d[1], "e": d[2], "dir": d[3]})
    elif kind == "dynwords":
        o = {"k": "dynwords", "s": d[1], "text": d[3]}
        if d[2] is not None:
            o["e"] = d[2]
        if len(d) > 4 and d[4] is not None:
            o["raw"] = d[4]  # the printed words (Direction.raw_text)
        objs.append(o)
    elif kind == "cdir":
        o = {"k": "cdir", "s": d[1], "fam": d[2], "text": d[3]}
        if len(d) > 4 and d[4] is not None:
            o["raw"] = d[4]
        objs.append(o)
    elif kind == "bferm":
        objs.append({"k": "fermata", "s": d[1], "ref": d[2], "bar": True})
    else:
        raise ValueError(kind)


def _note_cores(meas, nmax, voices=(1, 2), durs=(1, 2, 3, 4)):
    alpha = [["n", s, e, v, v] for lo, hi in meas for (s, e) in spans(lo, hi, durs) for v in voices]
    for n in range(1, nmax + 1):
        for comb in combinations(alpha, n):
            yield [list(x) for x in comb]


def gen_C_single(layout, nmin, nmax):
    """every single decoration instance on every core of nmin..nmax notes of the layout"""
    meas, ts = layout
    total = meas[-1][1]
    td = time_decos(meas, total)
    for ev in _note_cores(meas, nmax):
        if len(ev) < nmin:
            continue
        for kind, d in note_decos("P1", ev) + td:
            yield {"sp": "C1", "m": [list(m) for m in meas], "ts": ts, "ev": ev, "deco": [d]}


C_FIXED_CORES = [
    ([(0, 4)], [[0, 2, 4]], [["n", 0, 1, 1, 1], ["n", 1, 2, 1, 1], ["n", 2, 4, 1, 1]]),
    ([(0, 2), (2, 4)], [[0, 1, 4]], [["n", 0, 2, 1, 1], ["n", 2, 4, 1, 1], ["n", 1, 2, 2, 2], ["n", 2, 3, 2, 2]]),
    ([(0, 4)], [[0, 2, 4]], [["n", 0, 2, 1, 1], ["n", 0, 2, 1, 1], ["n", 3, 4, 1, 1]]),
]


def gen_C_pairs():
    """all unordered pairs of decoration instances (same instance twice excluded) on the fixed cores"""
    for meas, ts, ev in C_FIXED_CORES:
        total = meas[-1][1]
        decos = [d for _, d in note_decos("P1", ev) + time_decos(meas, total)]
        for a, b in combinations(decos, 2):
            if a[0] == b[0] and a[0] in ("stem", "fing") and a[1] == b[1]:
                continue  # two values for one attribute of one note
            yield {"sp": "C2", "m": [list(m) for m in meas], "ts": ts, "ev": ev, "deco": [a, b]}


def gen_C_tuplets(second_voice):
    """six triplet eighths (divisions 3) in one 2/4 measure; every bracket (i <= j) and every pair of
    brackets (nested, overlapping, adjacent, identical ends); optionally two quarters in voice 2"""
    ev = [["n", i, i + 1, 1, 1, i % 3] for i in range(6)]
    if second_voice:
        ev += [["n", 0, 3, 2, 2, 3], ["n", 3, 6, 2, 2, 4]]
    br = [(i, j) for i in range(6) for j in range(i, 6)]
    base = {"sp": "C3", "q": [[0, 3]], "m": [[0, 6]], "ev": ev}
    for b in br:
        yield dict(base, deco=[["tuplet", b[0], b[1]]])
    for a, b in combinations(br, 2):
        yield dict(base, deco=[["tuplet", a[0], a[1]], ["tuplet", b[0], b[1]]])
        yield dict(base, deco=[["tuplet", b[0], b[1]], ["tuplet", a[0], a[1]]])  # attached in the other order


def gen_C_slurpairs():
    """all pairs of slurs over four notes in two voices (nested, overlapping, crossing voices)"""
    ev = [["n", 0, 1, 1, 1], ["n", 1, 2, 1, 1], ["n", 2, 4, 1, 1], ["n", 0, 2, 2, 2], ["n", 2, 4, 2, 2]]
    sl = [d for k, d in note_decos("P1", ev) if k == "slur"]
    for a, b in combinations(sl, 2):
        yield {"sp": "C4", "m": [[0, 4]], "ev": ev, "deco": [a, b]}
        yield {"sp": "C4", "m": [[0, 4]], "ev": ev, "deco": [b, a]}  # attached in the other order
    for a, b, c in combinations(sl, 3):
        yield {"sp": "C4", "m": [[0, 4]], "ev": ev, "deco": [a, b, c]}


# ---------------------------------------------------------------------------------------------
# H: build order of the voices x slurs / tuplets (export counters state['note_id_counter'])


def _range_sets(ranges, nmax):
    """all sets of 1..nmax ranges; a pair that shares a note also attached in the other order"""
    for r in ranges:
        yield [r]
    if nmax >= 2:
        for a, b in combinations(ranges, 2):
            yield [a, b]
            if {a[1], a[2]} & {b[1], b[2]}:
                yield [b, a]
    if nmax >= 3:
        for a, b, c in combinations(ranges, 3):
            yield [a, b, c]


def _forward_pairs(ev):
    """(i, j), i != j, such that note i is written before note j in a MusicXML file: earlier onset, or the same
    onset and a lower voice (a slur runs forward in the document)"""
    out = []
    for i, a in enumerate(ev):
        for j, b in enumerate(ev):
            if i != j and (a[1], a[3], i) < (b[1], b[3], j):
                out.append((i, j))
    return out


H1_PITCH = {1: (3, 4), 2: (5, 2)}


def _h1_core(drop):
    """two 1/4 measures on a grid of eighths, a one-unit note of voice 1 and of voice 2 (both on staff 1) at every
    grid time 0..3, without the notes of voice 1 at the onsets in `drop`"""
    ev = []
    for v in (1, 2):
        for t in range(4):
            if v == 1 and t in drop:
                continue
            ev.append(["n", t, t + 1, v, 1, H1_PITCH[v][t % 2]])
    return ev


def gen_H_slurs(triples=False):
    """Slurs x build order of the voices.  Core: two 1/4 measures (grid of eighths, onsets 0..3), voices 1 and 2
    with a one-unit note at every onset (8 notes).  Slurs: every (i, j) of two different notes where i is written
    before j in the file (inside a voice, between the voices, inside a measure and over the barline).
    triples=False: every single slur and every pair of slurs (a pair that shares a note in both attachment orders) x
    every build order = each of the 4 onsets independently top voice first / bottom voice first (2^4); plus the
    cores in which voice 1 has no note at onset 0, at onset 2, at both (voice 1 enters after voice 2 in that
    measure) x build order {all top first, all bottom first}.
    triples=True: every set of three slurs on the full core, all notes added bottom voice first."""
    meas = [[0, 2], [2, 4]]
    base = {"sp": "H1", "m": meas, "ts": [[0, 1, 4]]}
    if triples:
        ev = _h1_core(())
        sl = [["slur", i, j] for i, j in _forward_pairs(ev)]
        for a, b, c in combinations(sl, 3):
            yield dict(base, ev=ev, deco=[a, b, c], bo="d")
        return
    for drop in ((), (0,), (2,), (0, 2)):
        ev = _h1_core(drop)
        sl = [["slur", i, j] for i, j in _forward_pairs(ev)]
        orders = ["".join(x) for x in product("ad", repeat=4)] if not drop else ["a", "d"]
        for bo in orders:  # (outer loop: an index-stride block of the enumeration then holds every build order)
            for deco in _range_sets(sl, 2):
                yield dict(base, ev=ev, deco=deco, bo=bo)


def gen_H_tuplets():
    """Tuplet brackets x build order of the voices.  Core: two 1/4 measures, divisions 3, voices 1 and 2 (staff =
    voice) with six triplet eighths each.  Brackets: inside a voice from note i to note i+1..i+3 (inside a measure
    and over the barline); every single bracket and every pair (a pair that shares a note in both attachment
    orders) x build order {all onsets top voice first, all bottom voice first, bottom first in measure 1 only, in
    measure 2 only}."""
    ev = [["n", t, t + 1, v, v, (t % 3) if v == 1 else 3 + (t % 3)] for v in (1, 2) for t in range(6)]
    br = [["tuplet", 6 * k + i, 6 * k + j] for k in (0, 1) for i in range(6) for j in range(i + 1, min(i + 4, 6))]
    base = {"sp": "H2", "q": [[0, 3]], "m": [[0, 3], [3, 6]], "ts": [[0, 1, 4]], "ev": ev}
    for bo in ("a", "d", "dddaaa", "aaaddd"):
        for deco in _range_sets(br, 2):
            yield dict(base, deco=deco, bo=bo)


# constant directions of the three families that end where the next one of their own family starts
CDIR_FAMILIES = ("loud", "tempo", "artic")
# texts by occurrence number inside the family: successive directions of a family always differ; "p"/"f" are
# written as <dynamics>, "dolce" and the tempo/articulation words as <words>
CDIR_TEXTS = {"loud": ("p", "dolce", "f"), "tempo": ("adagio", "allegro"), "artic": ("legato", "staccato")}
CDIR_CORES = [
    [["n", 0, 1, 1, 1], ["n", 1, 2, 1, 1], ["n", 2, 3, 1, 1], ["n", 3, 4, 1, 1]],  # an onset at every grid time
    [["n", 0, 2, 1, 1], ["n", 3, 4, 1, 1]],  # grid times inside a note and at a barline where nothing starts
]
CDIR_ORDERS = [(0, 1, 2), (2, 1, 0), (0, 2, 1), (1, 0, 2), (1, 2, 0), (2, 0, 1)]


def gen_C_cdirs(extended):
    """sequences of constant directions over two 1/4 measures (grid times 0..3): at every grid time any
    subset of the families {loudness, tempo, articulation} gets a new direction (all 8^4 - 1 non-empty
    assignments, so every family changes alone, together with one or with both others, at its first and at
    later occurrences); directions that start together are attached in the family order given by a
    permutation of the three families.
    extended=False: the core with an onset at every grid time, family orders (l,t,a) and (a,t,l);
    extended=True: everything else = the other four family orders on that core and all six on the second
    core (assignments on which an order does not differ from an earlier one are not repeated)."""
    meas = [[0, 2], [2, 4]]
    subsets = [tuple(f for f, b in zip(CDIR_FAMILIES, bits) if b) for bits in product((0, 1), repeat=3)]
    for ci, ev in enumerate(CDIR_CORES):
        for assign in product(subsets, repeat=4):
            if not any(assign):
                continue
            seen = []
            for oi, order in enumerate(CDIR_ORDERS):
                count = {f: 0 for f in CDIR_FAMILIES}
                deco = []
                for t, fams in enumerate(assign):
                    for f in sorted(fams, key=lambda f: order.index(CDIR_FAMILIES.index(f))):
                        texts = CDIR_TEXTS[f]
                        deco.append(["cdir", t, f, texts[count[f] % len(texts)]])
                        count[f] += 1
                if deco in seen:
                    continue
                seen.append(deco)
                if (ci == 0 and oi < 2) != (not extended):
                    continue
                yield {"sp": "C5", "m": meas, "ts": [[0, 1, 4]], "ev": ev, "deco": deco}


# C6: the printed words of directions (letter case, abbreviations) and process-wide state between files

# (kind of spec object, family, canonical text, printed base form)
C6_KINDS = (
    ("cdir", "loud", "dolce", "dolce"),
    ("cdir", "tempo", "adagio", "adagio"),
    ("cdir", "artic", "legato", "legato"),
    ("dynwords", None, "crescendo", "cresc."),
    ("dynwords", None, "ritardando", "rit."),
)
C6_CASES = ("lower", "capitalize", "upper")


def _c6_tokens():
    out = []
    for ki, (kind, fam, text, base) in enumerate(C6_KINDS):
        for cs in C6_CASES:
            out.append((ki, getattr(base, cs)()))
    return out


def _c6_deco(tok, t):
    kind, fam, text, _ = C6_KINDS[tok[0]]
    if kind == "cdir":
        return ["cdir", t, fam, text, tok[1]]
    return ["dynwords", t, None, text, tok[1]]


def gen_C_wordcase():
    """Directions whose printed words (Direction.raw_text, written into <words>) differ from the canonical text in
    letter case or by being an abbreviation.  Two 1/4 measures with an onset at every grid time 0..3; direction
    tokens = {dolce, adagio, legato, cresc., rit.} x {lower case, Capitalised, UPPER CASE} (15); every single token
    at every grid time; every ordered pair of tokens at two grid times t1 < t2 (the same words in the same and in
    another letter case included) and every ordered pair of tokens of different kinds at one grid time."""
    toks = _c6_tokens()
    base = {"sp": "C6", "m": [[0, 2], [2, 4]], "ts": [[0, 1, 4]], "ev": CDIR_CORES[0]}
    for a in toks:
        for t in range(4):
            yield dict(base, deco=[_c6_deco(a, t)])
    for a in toks:
        for b in toks:
            for t1 in range(4):
                for t2 in range(t1, 4):
                    if t1 == t2 and a[0] == b[0]:
                        continue
                    yield dict(base, deco=[_c6_deco(a, t1), _c6_deco(b, t2)])


def gen_C_wordcase_sequences():
    """Two files handled one after the other in one process (state that outlives a load_musicxml / save_musicxml
    call): score A = one token of gen_C_wordcase at grid time 0, then score B = one token at any grid time; every
    (A, B) (15 x 60); each score is checked on its own with all clauses."""
    toks = _c6_tokens()
    base = {"sp": "C6", "m": [[0, 2], [2, 4]], "ts": [[0, 1, 4]], "ev": CDIR_CORES[0]}
    for a in toks:
        for b in toks:
            for t in range(4):
                yield {"sp": "C6s", "seq": [dict(base, deco=[_c6_deco(a, 0)]), dict(base, deco=[_c6_deco(b, t)])]}


# ---------------------------------------------------------------------------------------------
# D: attribute changes


def gen_D_divisions(without_point=False):
    """a divisions change at every grid position of a 2/4 measure (also at the barline of a second measure),
    every pair (old, new) of divisions from {1,2,3,4}; cores of <=2 events that do not cross the change"""
    for q0 in (1, 2, 3, 4):
        for q1 in (1, 2, 3, 4):
            if q0 == q1:
                continue
            # first quarter in q0 units, second quarter in q1 units; then a second measure in q1 units
            for two in (False, True):
                segs = [(0, q0), (q0, q0 + q1)]
                meas = [[0, q0 + q1]]
                if two:
                    meas = [[0, q0], [q0, q0 + 2 * q1]]
                    segs = [(0, q0), (q0, q0 + 2 * q1)]
                alpha = []
                for (lo, hi), q in zip(segs, (q0, q1)):
                    durs = [d for d in range(1, hi - lo + 1) if M.sym_for(Fraction(d, q)) is not None]
                    for (s, e) in spans(lo, hi, durs):
                        for v in (1, 2):
                            alpha.append(["n", s, e, v, v])
                            if v == 1:
                                alpha.append(["r", s, e, v, v])
                for n in (1, 2):
                    for comb in combinations(alpha, n):
                        # the change must fall on a time point (something starts or ends there, or a barline);
                        # the other cases form the separate sub-space D1x (proposed known finding)
                        on_point = two or any(q0 in (x[1], x[2]) for x in comb)
                        if on_point == without_point:
                            continue
                        yield {"sp": "D1x" if without_point else "D1", "q": [[0, q0], [q0, q1]], "m": meas,
                               "ts": [[0, 1, 4]] if two else [[0, 2, 4]], "ev": [list(x) for x in comb]}


def gen_D_attributes():
    """key, time and clef changes (and a divisions change 2->4 that keeps the grid) at every grid position of
    two 2/4 measures, alone and in pairs at possibly different positions; cores: three fixed ones"""
    cores = [
        [["n", 0, 2, 1, 1], ["n", 2, 4, 1, 1], ["n", 4, 8, 1, 1]],
        [["n", 0, 4, 1, 1], ["n", 0, 1, 2, 2], ["n", 3, 4, 2, 2], ["n", 5, 6, 2, 2]],
        [["n", 1, 2, 1, 1], ["r", 4, 6, 1, 1]],
    ]
    kinds = []
    for t in range(0, 8):
        kinds.append(["ks", t, -3, "minor"])
        kinds.append(["ks", t, 2, None])
        if t > 0:  # the core has its time signature and both clefs at t=0
            kinds.append(["ts", t, 3, 8])
            kinds.append(["clef", t, 1, "F", 4, 0])
            kinds.append(["clef", t, 2, "C", 3, -1])
    for ev in cores:
        for a in kinds:
            yield {"sp": "D2", "m": [[0, 4], [4, 8]], "ev": ev, "attr": [a], "staves": 2}
        for a, b in combinations(kinds, 2):
            if a[0] == b[0] and a[1] == b[1] and (a[0] != "clef" or a[2] == b[2]):
                continue  # two signatures of one kind (or two clefs of one staff) at one time
            yield {"sp": "D2", "m": [[0, 4], [4, 8]], "ev": ev, "attr": [a, b], "staves": 2}


# D3: the order in which the divisions (quarter durations) of a part are declared


def q_histories(final, values, bursts_at=("S", "E"), cuts=("0", "S", "E"), lmax=3):
    """Declaration histories of the divisions table `final` = [[t, q], ...]: Part(quarter_duration=init) followed
    by calls set_quarter_duration(t, q), t in the times of `final`, init and q in `values`, every call made at a
    cut of the construction ("0" before any object, "S" after the structure objects, "E" after all objects).
    Enumerated: every init and every sequence of <= lmax calls whose result is `final` and in which every call changes
    the table (mc/c03_model.q_final); sequences of <= 2 calls with every non-decreasing assignment of cuts,
    sequences of 3 and more calls with all calls at one cut ("burst") of `bursts_at`."""
    times = [t for t, _ in final]
    alpha = [(t, q) for t in times for q in values]
    out = []
    for init in values:
        for n in range(0, lmax + 1):
            for calls in product(alpha, repeat=n):
                if M.q_final(init, calls) != [list(x) for x in final]:
                    continue
                if n <= 2:
                    for cs in product(range(len(cuts)), repeat=n):
                        if list(cs) == sorted(cs):
                            out.append({"init": init, "calls": [[cuts[c], t, q] for c, (t, q) in zip(cs, calls)]})
                else:
                    for b in bursts_at:
                        out.append({"init": init, "calls": [[b, t, q] for t, q in calls]})
    return out


def _third(vals):
    """the smallest value of 1..4 that is not in vals (a value the final table does not use)"""
    return min(v for v in (1, 2, 3, 4) if v not in vals)


D3_PAIRS = ((1, 2), (2, 1), (2, 3), (3, 2))


def gen_D_declaration_order():
    """Divisions change q0 -> q1 after the first quarter, (q0, q1) in D3_PAIRS, in the middle of a 2/4 measure or at
    the barline of two 1/4 measures; cores = all sets of <= 2 notes (every span with a single symbol inside a
    divisions segment x voice{1,2}, staff = voice) with a time point at the change; symbolic durations explicit or
    left to the library (estimated from TimePoint.quarter); x every declaration history of q_histories over the
    values {q0, q1, a third value} (67 per core)."""
    for q0, q1 in D3_PAIRS:
        c = q0
        final = [[0, q0], [c, q1]]
        hist = q_histories(final, (q0, q1, _third((q0, q1))))
        for two in (False, True):
            segs = [(0, q0), (q0, q0 + q1)]
            meas = [[0, q0], [q0, q0 + q1]] if two else [[0, q0 + q1]]
            alpha = []
            for (lo, hi), q in zip(segs, (q0, q1)):
                durs = [d for d in range(1, hi - lo + 1) if M.sym_for(Fraction(d, q)) is not None]
                for (s, e) in spans(lo, hi, durs):
                    for v in (1, 2):
                        alpha.append(["n", s, e, v, v])
            for n in (1, 2):
                for comb in combinations(alpha, n):
                    if not (two or any(c in (x[1], x[2]) for x in comb)):
                        continue  # a change inside a measure without a time point: sub-space X1
                    for nosym in (False, True):
                        for h in hist:
                            case = {"sp": "D3", "q": final, "m": meas, "ts": [[0, 1, 4]] if two else [[0, 2, 4]],
                                    "ev": [list(x) for x in comb], "qh": h}
                            if nosym:
                                case["nosym"] = True
                            yield case


D3_TRIPLES = ((1, 2, 1), (2, 1, 2), (1, 2, 3), (3, 2, 1))


def gen_D_declaration_order_3():
    """Three 1/4 measures with divisions (q0, q1, q2) in D3_TRIPLES, changes at the barlines; cores = all sets of
    <= 2 notes of voice 1 (every span with a single symbol inside a measure); explicit or estimated symbolic
    durations; declaration histories over the values {q0, q1, q2, a further value}: every init and every sequence
    of <= 3 effective calls that ends in the table, all non-decreasing cuts for <= 2 calls, bursts at "S"/"E" for 3."""
    for qs in D3_TRIPLES:
        bars = [0, qs[0], qs[0] + qs[1], qs[0] + qs[1] + qs[2]]
        final = [[bars[i], qs[i]] for i in range(3)]
        vals = tuple(sorted(set(qs))) + (_third(qs),)
        hist = q_histories(final, vals)
        meas = [[bars[i], bars[i + 1]] for i in range(3)]
        alpha = []
        for (lo, hi), q in zip(meas, qs):
            durs = [d for d in range(1, hi - lo + 1) if M.sym_for(Fraction(d, q)) is not None]
            for (s, e) in spans(lo, hi, durs):
                alpha.append(["n", s, e, 1, 1])
        for n in (1, 2):
            for comb in combinations(alpha, n):
                for nosym in (False, True):
                    for h in hist:
                        case = {"sp": "D3b", "q": final, "m": meas, "ts": [[0, 1, 4]], "ev": [list(x) for x in comb], "qh": h}
                        if nosym:
                            case["nosym"] = True
                        yield case


# D4: divisions changes at every place of a part of several measures (in the middle of a later measure that has no
# change at its own start, at a barline and in the middle of the measure after it, in both measures, ...)


def div_sequences(values, nmeasures=2):
    """all assignments of a divisions value to the quarters of `nmeasures` 2/4 measures (two quarters each) in which
    the value changes in the middle of at least one measure"""
    for vals in product(values, repeat=2 * nmeasures):
        if any(vals[2 * k] != vals[2 * k + 1] for k in range(nmeasures)):
            yield vals


def _quarter_slots(vals):
    """consecutive quarters with the divisions vals -> (divisions table without repeated values, slot bounds)"""
    bounds = [0]
    for v in vals:
        bounds.append(bounds[-1] + v)
    table = [[bounds[i], v] for i, v in enumerate(vals) if i == 0 or vals[i - 1] != v]
    return table, bounds


def gen_D_divisions_measures(values, dense, without_point=False):
    """Two 2/4 measures = four quarters; every assignment of a divisions value of `values` to the four quarters with a
    change in the middle of at least one measure (div_sequences): the table changes at any subset of {middle of
    measure 1, barline, middle of measure 2}, so a measure may hold one entry in its middle and none at its start, one
    at its start and one in its middle, or none.
    dense=True: cores = every non-empty occupancy pattern of the 8 (voice{1,2}, quarter) places by a note that fills
    the quarter (staff = voice);
    dense=False: cores = all sets of <= 2 events: every span with a single symbol inside a quarter x {note voice 1,
    note voice 2, rest voice 1}.
    Every change in the middle of a measure must lie on a time point (something starts or ends there); the other
    cores are the class of the known finding divisions_change_without_time_point (without_point=True yields them)."""
    for vals in div_sequences(values):
        table, b = _quarter_slots(vals)
        meas = [[b[0], b[2]], [b[2], b[4]]]
        mids = [b[2 * k + 1] for k in range(2) if vals[2 * k] != vals[2 * k + 1]]
        base = {"sp": "D4", "q": table, "m": meas, "ts": [[0, 2, 4]]}

        def on_points(ev):
            return all(any(t in (x[1], x[2]) for x in ev) for t in mids)

        if dense:
            places = [(v, i) for v in (1, 2) for i in range(4)]
            for occ in product((0, 1), repeat=len(places)):
                # pitches: voice 1 by quarter 0..3, voice 2 alternating 4, 5 (all notes of one onset differ)
                ev = [["n", b[i], b[i + 1], v, v, i if v == 1 else 4 + i % 2] for (v, i), f in zip(places, occ) if f]
                if ev and on_points(ev) != without_point:
                    yield dict(base, ev=ev)
        else:
            alpha = []
            for i, q in enumerate(vals):
                durs = [d for d in range(1, q + 1) if M.sym_for(Fraction(d, q)) is not None]
                for (s, e) in spans(b[i], b[i + 1], durs):
                    alpha.append(["n", s, e, 1, 1])
                    alpha.append(["n", s, e, 2, 2])
                    alpha.append(["r", s, e, 1, 1])
            for n in (1, 2):
                for comb in combinations(alpha, n):
                    if on_points(comb) != without_point:
                        yield dict(base, ev=[list(x) for x in comb])


# ---------------------------------------------------------------------------------------------
# E: parts and part groups


def _trees(nparts):
    """all ordered forests with exactly nparts leaves, groups non-empty, nesting depth <= 2"""
    def forests(n, depth):
        # sequences of items using exactly n leaves
        if n == 0:
            yield []
            return
        # first item is a leaf
        for rest in forests(n - 1, depth):
            yield ["P"] + rest
        # first item is a group with k leaves
        if depth > 0:
            for k in range(1, n + 1):
                for inner in forests(k, depth - 1):
                    for rest in forests(n - k, depth):
                        yield [inner] + rest
    return list(forests(nparts, 2))


PART_CORES = [
    {"q": [[0, 2]], "m": [[0, 4]], "ev": [["n", 0, 2, 1, 1, 0], ["n", 2, 3, 1, 1, 0]], "ties": [[0, 1]],
     "deco": [["slur", 0, 1], ["wedge", 0, 2, "+"]]},
    {"q": [[0, 4]], "m": [[0, 8]], "ev": [["n", 0, 8, 1, 1], ["n", 2, 4, 2, 2]], "deco": [["slur", 0, 1], ["wedge", 0, 4, "-"]]},
    {"q": [[0, 1]], "m": [[0, 2]], "ev": [["r", 0, 1, 1, 1], ["n", 1, 2, 1, 1]], "deco": [["dynwords", 0, 1, "crescendo"]]},
]


def gen_E_structure():
    """all part/group forests with <=3 parts and nesting depth <=2; every group gets symbol/name variants by
    position; the parts differ in divisions, length and decorations (shared export counters)"""
    syms = [("bracket", "Grp"), (None, None), ("brace", None), (None, "Strings")]
    for n in (1, 2, 3):
        for variant in (0, 1):
            for tree in _trees(n):
                cnt = {"p": 0, "g": 0}

                def rec(items, depth):
                    out = []
                    for x in items:
                        if x == "P":
                            i = cnt["p"]
                            cnt["p"] += 1
                            c = dict(PART_CORES[(i + variant) % 3])
                            c["id"] = "P%d" % (i + 1)
                            c["name"] = [None, "Violin", "Pno"][(i + variant) % 3]
                            if (i + variant) % 2:
                                c["abbr"] = "V."
                            out.append(c)
                        else:
                            g = cnt["g"]
                            cnt["g"] += 1
                            sy, nm = syms[(g + variant) % 4]
                            out.append({"group": {"symbol": sy, "name": nm, "number": depth + 1}, "children": rec(x, depth + 1)})
                    return out

                yield {"sp": "E", "parts": rec(tree, 0)}


# ---------------------------------------------------------------------------------------------
# F: repeats and endings


def gen_F_repeats():
    """three 1/4 measures; every set of pairwise disjoint repeats between barlines, combined with no ending,
    one ending, or endings 1 and 2 on adjacent barline intervals; measures filled with one note each or
    only the middle one"""
    bars = [0, 2, 4, 6]
    ivs = [(a, b) for a in bars for b in bars if a < b]
    reps = [()]
    for n in (1, 2, 3):
        for comb in combinations(ivs, n):
            if all(x[1] <= y[0] for x, y in zip(comb, comb[1:])):
                reps.append(comb)
    ends = [()]
    for iv in ivs:
        ends.append(((1, iv[0], iv[1]),))
    for a in bars:
        for b in bars:
            for c in bars:
                if a < b < c:
                    ends.append(((1, a, b), (2, b, c)))
    cores = [
        [["n", 0, 2, 1, 1], ["n", 2, 4, 1, 1], ["n", 4, 6, 1, 1]],
        [["n", 2, 3, 1, 1]],
    ]
    for ev in cores:
        for r in reps:
            for en in ends:
                if not r and not en:
                    continue
                yield {"sp": "F", "m": [[0, 2], [2, 4], [4, 6]], "ts": [[0, 1, 4]], "ev": ev,
                       "rep": [list(x) for x in r], "end": [list(x) for x in en]}


# ---------------------------------------------------------------------------------------------
# M: magnitude of the numbers of ticks (the small families above on a fine tick grid / far from time 0)

# divisions factors: the unit grids of the other sub-spaces have 1-4 divisions per quarter; 480 and 10080 are the
# grids of sequencers and notation programs, 302400 = 2^6 3^3 5^2 7 (a grid for all tuplets up to 10 and 64th notes:
# a whole note has more than 10^6 ticks), 2^24 + 1 and 2^31 + 1 (not exact in float32 / beyond int32)
MAG_FACTORS = (1, 480, 10080, 302400, 2 ** 24 + 1, 2 ** 31 + 1)
# length in ticks of an empty irregular measure before the music (magnify)
MAG_OFFSETS = (0, 2 ** 24 + 1, 2 ** 31 + 1)


def magnitudes():
    """every [factor, offset] of MAG_FACTORS x MAG_OFFSETS but [1, 0] (the unchanged case)"""
    return [[f, o] for f in MAG_FACTORS for o in MAG_OFFSETS if (f, o) != (1, 0)]


def gen_M(family, name):
    """every case of the family (a zero-argument generator of cases without a magnitude) at every magnitude of
    magnitudes(); the magnitude is the outer loop, so an index-stride block holds cases of every magnitude"""
    def it():
        for mag in magnitudes():
            for c in family():
                yield dict(c, sp=name, mag=list(mag))
    return it


def fam_M_cores():
    """one 2/4 measure (4 units of an eighth), all sets of <= 2 events: span x voice{1,2} (staff = voice) x {note,
    rest}, with explicit symbolic durations and with the symbolic durations left to the library"""
    for nosym in (False, True):
        for c in gen_A_kinds(("n", "r"), nosym=nosym):
            yield c


def fam_M_divisions():
    """the cases of gen_D_divisions (all cores of <= 2 events that do not cross the change) with the divisions
    change q0 -> q1 in (1,2), (2,1) in the middle of a 2/4 measure and at the barline of two 1/4 measures, and in
    (2,3), (3,2) in the middle of a 2/4 measure"""
    for c in gen_D_divisions():
        pair = (c["q"][0][1], c["q"][1][1])
        if pair in ((1, 2), (2, 1)) or (pair in ((2, 3), (3, 2)) and len(c["m"]) == 1):
            yield c


def fam_M_ties():
    return gen_B_ties(False)


_TIMED_DECOS = ("nferm", "dyn", "sfz", "tempodir", "tempo", "dynwords", "wedge", "bferm")


def fam_M_decorations():
    """gen_C_single on the 1-note cores of one 2/4 measure and of two 1/4 measures, the decoration instances that
    are objects of the timeline (note fermata, dynamics, sfz, tempo word, tempo mark, words with and without
    dashes, wedges, barline fermata) at every grid time / time interval"""
    L1 = ([(0, 4)], [[0, 2, 4]])
    L2 = ([(0, 2), (2, 4)], [[0, 1, 4]])
    for L in (L1, L2):
        for c in gen_C_single(L, 1, 1):
            if c["deco"][0][0] in _TIMED_DECOS:
                yield c


def fam_M_features():
    """the feature cores N_FEATURE_CORES (two staves, unequal chord, grace note, clef and key change, triplet
    brackets against a second voice, divisions change with a tie over the barline, repeat and ending, pickup measure,
    unpitched and dotted notes, wedge, nested part groups), every single triplet bracket of gen_C_tuplets, all
    chord ties of gen_B_chordties, all part/group forests of gen_E_structure (parts with different divisions), every
    single key / time / clef change of gen_D_attributes and all repeats and endings of gen_F_repeats"""
    for core in N_FEATURE_CORES:
        yield dict(core)
    for c in gen_C_tuplets(False):
        if len(c["deco"]) == 1:
            yield c
    for c in gen_B_chordties():
        yield c
    for c in gen_E_structure():
        yield c
    for c in gen_D_attributes():
        if len(c["attr"]) == 1:
            yield c
    for c in gen_F_repeats():
        yield c


# ---------------------------------------------------------------------------------------------
# X: inputs of proposed known findings (run only when known_findings.json has the open entry)


def gen_X_right_fermata():
    """a fermata on the right barline of a measure that is followed by another measure"""
    for meas, ts in (([(0, 2), (2, 4)], [[0, 1, 4]]), ([(0, 2), (2, 4), (4, 6)], [[0, 1, 4]])):
        for ev in _note_cores(meas[:2], 1, voices=(1,), durs=(1, 2)):
            for t in [m[1] for m in meas[:-1]]:
                yield {"sp": "X2", "m": [list(m) for m in meas], "ts": ts, "ev": ev, "deco": [["bferm", t, "right"]]}


def gen_X_words():
    """a plain score.Words object at every grid time of every 1-note core"""
    meas = [(0, 4)]
    for ev in _note_cores(meas, 1):
        for t in range(4):
            yield {"sp": "X3", "m": [[0, 4]], "ev": ev, "deco": [["words", t, "hello"]]}


def gen_X_redundant_divisions():
    """A divisions table with an entry that repeats the value before it (Part.set_quarter_duration leaves one behind
    when it replaces a value: Part(quarter_duration=2), set(2, 3), set(2, 2)).  Uniform divisions q in {1, 2, 3} over
    a 2/4 measure or two 1/4 measures with the repeated entry after the first quarter, and three 1/4 measures with
    divisions (1,2,2), (2,2,1), (2,1,1), (1,1,2) (entries at the barlines); cores of <= 2 notes of voice 1 with a
    time point at every entry; every declaration history of q_histories that ends in that table."""
    for q in (1, 2, 3):
        final = [[0, q], [q, q]]
        hist = q_histories(final, (q, _third((q,))))
        for two in (False, True):
            meas = [[0, q], [q, 2 * q]] if two else [[0, 2 * q]]
            durs = [d for d in range(1, q + 1) if M.sym_for(Fraction(d, q)) is not None]
            alpha = [["n", s, e, 1, 1] for lo, hi in ((0, q), (q, 2 * q)) for (s, e) in spans(lo, hi, durs)]
            for n in (1, 2):
                for comb in combinations(alpha, n):
                    if not (two or any(q in (x[1], x[2]) for x in comb)):
                        continue
                    for h in hist:
                        yield {"sp": "X4", "q": final, "m": meas, "ts": [[0, 1, 4]] if two else [[0, 2, 4]],
                               "ev": [list(x) for x in comb], "qh": h}
    for qs in ((1, 2, 2), (2, 2, 1), (2, 1, 1), (1, 1, 2)):
        bars = [0, qs[0], qs[0] + qs[1], sum(qs)]
        final = [[bars[i], qs[i]] for i in range(3)]
        hist = q_histories(final, tuple(sorted(set(qs))) + (_third(qs),))
        meas = [[bars[i], bars[i + 1]] for i in range(3)]
        alpha = []
        for (lo, hi), q in zip(meas, qs):
            durs = [d for d in range(1, hi - lo + 1) if M.sym_for(Fraction(d, q)) is not None]
            alpha += [["n", s, e, 1, 1] for (s, e) in spans(lo, hi, durs)]
        for n in (1, 2):
            for comb in combinations(alpha, n):
                for h in hist:
                    yield {"sp": "X4", "q": final, "m": meas, "ts": [[0, 1, 4]], "ev": [list(x) for x in comb], "qh": h}


def has_redundant_divisions_entry(case):
    q = case.get("q") or []
    return any(a[1] == b[1] for a, b in zip(q, q[1:]))


def has_divisions_change_without_point(case):
    spec = expand(case)
    for p in M.iter_parts(spec):
        pts = set(M.point_times(p))
        ms = [o for o in p["objs"] if o["k"] == "measure"]
        for t, _ in p.get("divs", [])[1:]:
            if t not in pts and any(m["s"] < t < m["e"] for m in ms):
                return True
    return False


def has_inner_right_fermata(case):
    spec = expand(case)
    for p in M.iter_parts(spec):
        starts = {o["s"] for o in p["objs"] if o["k"] == "measure"}
        for o in p["objs"]:
            if o["k"] == "fermata" and o.get("bar") and o.get("ref") in (None, "right") and o["s"] in starts and o["s"] > 0:
                return True
    return False


def has_words_object(case):
    spec = expand(case)
    return any(o["k"] == "words" for p in M.iter_parts(spec) for o in p["objs"])


def gen_G_fileio():
    """a handful of scores written to a path and to a file object instead of returned as bytes"""
    n = 0
    for c in gen_E_structure():
        n += 1
        if n % 6 == 0:
            yield dict(c, sp="G", io="path" if n % 12 == 0 else "fileobj")
    for c in gen_C_pairs():
        n += 1
        if n % 400 == 0:
            yield dict(c, sp="G", io="path" if n % 800 == 0 else "fileobj")


# ---------------------------------------------------------------------------------------------
# N: number forms (the numbers of the construction calls given as numpy scalars)


def nf_families(case):
    """the number families (M.NUMBER_FAMILIES order) of which the score of the case holds at least one value"""
    spec = expand(case)
    parts = M.iter_parts(spec)

    def groups(items):
        for x in items:
            if "group" in x:
                yield x
                for y in groups(x["children"]):
                    yield y
    out = []
    for f in M.NUMBER_FAMILIES:
        if f == "group":
            has = any(isinstance(g["group"].get("number"), int) for g in groups(spec["parts"]))
        else:
            has = any(M.number_form(p, M.NUMBER_TYPES[0], [f])[1] > 0 for p in parts)
        if has:
            out.append(f)
    return out


def _nf_forms(case, pairs):
    fams = nf_families(case)
    forms = [[f] for f in fams]
    if pairs:
        forms += [list(x) for x in combinations(fams, 2)]
    if len(fams) > (2 if pairs else 1):
        forms.append(fams)
    for t in M.NUMBER_TYPES:
        for fm in forms:
            yield dict(case, nf=[t, fm])


N_VOICE_STAFF = ((1, 1), (2, 1), (2, 2), (3, 2))


def gen_N_cores():
    """one 2/4 measure (4 units of an eighth), all sets of <=2 events: span x (voice, staff) in N_VOICE_STAFF x
    {note, rest}; every number family of the score alone and all of them together x every numpy type"""
    alpha = [[k, s, e, v, st] for (s, e) in spans(0, 4) for (v, st) in N_VOICE_STAFF for k in ("n", "r")]
    for n in (1, 2):
        for comb in combinations(alpha, n):
            for c in _nf_forms({"sp": "N1", "m": [[0, 4]], "ev": [list(x) for x in comb]}, False):
                yield c


N_FEATURE_CORES = [
    # two staves, voices 1-3, chord of unequal members, grace note, fingering, tempo mark, dynamics on staff 2, key, clef change
    {"m": [[0, 4]], "staves": 2, "ev": [["n", 0, 2, 1, 1], ["n", 0, 4, 2, 2], ["r", 2, 4, 1, 1], ["n", 1, 3, 3, 1]],
     "grace": [[0, 1, "grace"]], "deco": [["fing", 0, 3], ["tempo", 0, 100], ["dyn", 0, "f", 2]],
     "attr": [["ks", 0, 2, "major"], ["clef", 2, 1, "C", 3, 0]]},
    # triplets (divisions 3) with two brackets against quarters in voice 2
    {"q": [[0, 3]], "m": [[0, 6]], "ev": [["n", i, i + 1, 1, 1, i % 3] for i in range(6)] + [["n", 0, 3, 2, 2, 3], ["n", 3, 6, 2, 2, 4]],
     "deco": [["tuplet", 0, 2], ["tuplet", 3, 5]]},
    # divisions change at the barline, tie over it, second voice, repeat and ending
    {"q": [[0, 1], [1, 2]], "m": [[0, 1], [1, 3]], "ts": [[0, 1, 4]], "ev": [["n", 0, 1, 1, 1], ["n", 1, 2, 2, 1], ["n", 1, 3, 1, 1, 0]],
     "ties": [[0, 2]], "rep": [[0, 3]], "end": [[1, 1, 3]]},
    # pickup measure, no voice 1 (voices 2 and 4), dotted note, unpitched note, flat key, clef with octave change
    {"m": [[0, 2], [2, 6]], "mnames": ["0", "1"], "ev": [["n", 0, 2, 2, 1], ["n", 2, 5, 2, 1], ["u", 2, 4, 4, 1], ["n", 5, 6, 2, 1]],
     "attr": [["ks", 0, -3, "minor"], ["clef", 0, 1, "G", 2, -1]], "deco": [["wedge", 2, 5, "+"], ["nferm", 3]]},
    # three parts, nested numbered groups
    {"parts": [{"group": {"symbol": "bracket", "name": "Grp", "number": 1}, "children": [
        dict(PART_CORES[0], id="P1", name="Violin"),
        {"group": {"symbol": "brace", "name": None, "number": 2}, "children": [dict(PART_CORES[1], id="P2", name="Pno", abbr="P.")]}]},
        dict(PART_CORES[2], id="P3", name=None)]},
]


def gen_N_features():
    """the fixed feature cores N_FEATURE_CORES; every number family of the score alone, every pair of families and
    all of them together x every numpy type"""
    for core in N_FEATURE_CORES:
        for c in _nf_forms(dict(core, sp="N2"), True):
            yield c
