"""Enumerators for the C03 sub-spaces and the expansion of a compact case into a score spec
(mc/ir.py format).  Every enumerator is a pure generator with a fixed order.

Compact case:  {"sp": name, ...fields depending on the sub-space...}; expand(case) -> score spec.
Common part description used by most sub-spaces ("core"):
   q     divisions table [[t, q], ...]
   m     measure extents [[s, e], ...]   (timeline units)
   ts    [[t, beats, beat_type], ...]
   ev    events [[kind, s, e, voice, staff], ...]  kind: "n" note, "r" rest, "u" unpitched
         pitched events take PITCHES[i] by their index among the pitched events (all distinct)
   x     extra ir objects (dicts) referring to note ids "<pid>n<i>" (i = index in ev)
"""
from itertools import combinations, product

from . import c03_model as M


def spans(lo, hi, durs=(1, 2, 3, 4)):
    """all (s, e) with lo <= s < e <= hi and e - s in durs"""
    return [(s, s + d) for s in range(lo, hi) for d in durs if s + d <= hi]


def core_part(c, pid="P1", name="Pno"):
    q = [list(x) for x in c.get("q", [[0, 2]])]
    objs = []
    for i, (s, e) in enumerate(c["m"]):
        objs.append({"k": "measure", "s": s, "e": e, "number": i + 1, "name": str(i + 1)})
    for t, b, bt in c.get("ts", [[0, 2, 4]]):
        objs.append({"k": "ts", "s": t, "beats": b, "beat_type": bt})
    for t, f, mode in c.get("ks", []):
        objs.append({"k": "ks", "s": t, "fifths": f, "mode": mode})
    for t, st, sign, line, oc in c.get("clef", []):
        objs.append({"k": "clef", "s": t, "staff": st, "sign": sign, "line": line, "oct": oc})
    pi = 0
    nosym = c.get("nosym", False)
    for i, ev in enumerate(c["ev"]):
        kind, s, e, voice, staff = ev[:5]
        nid = "%sn%d" % (pid, i)
        kw = {}
        if nosym:
            kw["sym"] = None
        if kind == "r":
            objs.append(M.note(nid, s, e, 0, voice, staff, q, kind="rest", **kw))
        else:
            p = ev[5] if len(ev) > 5 else pi
            objs.append(M.note(nid, s, e, p, voice, staff, q, kind="note" if kind == "n" else "unpitched", **kw))
            pi += 1
    by_i = {}
    for o in objs:
        if o["k"] in ("note", "rest", "unpitched"):
            by_i[int(o["id"][len(pid) + 1:])] = o
    for i, j in c.get("ties", []):
        by_i[i]["tie"] = by_i[j]["id"]
    for j, n, gtype in c.get("grace", []):
        main = by_i[j]
        for k in range(n):
            g = M.note("%sg%d_%d" % (pid, j, k), main["s"], main["s"], 3 + k, main["voice"], main["staff"], q,
                       kind="grace", gtype=gtype)
            g["next"] = "%sg%d_%d" % (pid, j, k + 1) if k + 1 < n else main["id"]
            objs.insert(objs.index(main), g)
    for x in c.get("x", []):
        objs.append(dict(x))
    spec = {"id": pid, "name": name, "divs": q, "objs": objs}
    return M.finish_part(spec)


def expand(case):
    sp = case["sp"]
    if "score" in case:
        return case["score"]
    if "parts" in case:
        def rec(x, counter=[0]):
            if "group" in x:
                return {"group": x["group"], "children": [rec(y) for y in x["children"]]}
            return core_part(x, x.get("id", "P1"), x.get("name"))
        return {"parts": [rec(x) for x in case["parts"]]}
    return {"parts": [core_part(case)]}


# ---------------------------------------------------------------------------------------------
# A: rhythm / voice core


def _alphabet(meas, voices=(1, 2), staves=(1, 2), kinds=("n", "r"), staff_is_voice=False):
    out = []
    for (lo, hi) in meas:
        for (s, e) in spans(lo, hi):
            for v in voices:
                for st in ([v] if staff_is_voice else staves):
                    for k in kinds:
                        out.append([k, s, e, v, st])
    return out


def gen_A(layouts, nmax, staff_is_voice=False, nmin=1, name="A"):
    """all sets of nmin..nmax events over the alphabet of each measure layout"""
    for meas in layouts:
        alpha = _alphabet(meas, staff_is_voice=staff_is_voice)
        for n in range(nmin, nmax + 1):
            for comb in combinations(alpha, n):
                yield {"sp": name, "m": [list(x) for x in meas], "ev": [list(x) for x in comb]}


def stride(gen, B, r):
    """every element whose index is r modulo B (a deterministic block of the enumeration)"""
    def it():
        for i, c in enumerate(gen()):
            if i % B == r:
                yield c
    return it


# ---------------------------------------------------------------------------------------------
# B: ties, grace runs, unpitched


def _chains(meas, kmax=3, durs=(1, 2)):
    """contiguous runs of 2..kmax spans, each span inside one measure"""
    def inside(s, e):
        return any(lo <= s and e <= hi for lo, hi in meas)
    total = meas[-1][1]
    out = []

    def rec(ch):
        if len(ch) >= 2:
            out.append(list(ch))
        if len(ch) == kmax:
            return
        s = ch[-1][1]
        for d in durs:
            if s + d <= total and inside(s, s + d):
                rec(ch + [(s, s + d)])

    for s in range(0, total):
        for d in durs:
            if inside(s, s + d):
                rec([(s, s + d)])
    return out


def gen_B_ties(extra):
    """chains of 2-3 contiguous notes of one pitch over three 1/4 measures (ties over one and two
    barlines), every assignment of voices {1,2}, every non-empty subset of tie links; `extra`: also
    one more event anywhere (another pitch, the same pitch untied, or a rest; voice 1 or 2)"""
    meas = [(0, 2), (2, 4), (4, 6)]
    alpha = [None]
    if extra:
        alpha = []
        for (s, e) in [x for lo, hi in meas for x in spans(lo, hi, (1, 2))]:
            for v in (1, 2):
                for k in ("o", "s", "r"):
                    alpha.append((k, s, e, v))
    for ch in _chains(meas):
        k = len(ch)
        for voices in product((1, 2), repeat=k):
            for flags in product((0, 1), repeat=k - 1):
                if not any(flags):
                    continue
                for x in alpha:
                    ev = [["n", s, e, v, v, 0] for (s, e), v in zip(ch, voices)]
                    ties = [[i, i + 1] for i, f in enumerate(flags) if f]
                    if x is not None:
                        kind, s, e, v = x
                        if kind == "r":
                            ev.append(["r", s, e, v, v])
                        else:
                            ev.append(["n", s, e, v, v, 1 if kind == "o" else 0])
                    yield {"sp": "B-ties", "m": [list(m) for m in meas], "ts": [[0, 1, 4]], "ev": ev, "ties": ties}


def gen_B_chordties():
    """two simultaneous chains (a chord tied to a chord) in one voice over a barline; the second chain's
    first or second note may be one unit longer/shorter (unequal chord: the longer note is moved)"""
    meas = [(0, 4), (4, 8)]
    for (a, b, c) in [(2, 4, 6), (3, 4, 5), (0, 4, 8), (2, 4, 5)]:
        for f0 in (0, 1):
            for f1 in (0, 1):
                if not (f0 or f1):
                    continue
                for v2 in (1, 2):
                    for d0, d1 in ((0, 0), (1, 0), (0, -1)):
                        # chain 0: (a,b)-(b,c) pitch 0 voice 1; chain 1: (a+d0,b)-(b,c+d1) pitch 1 voice v2
                        if a + d0 >= b or c + d1 <= b:
                            continue
                        ev = [["n", a, b, 1, 1, 0], ["n", b, c, 1, 1, 0], ["n", a + d0, b, v2, 1, 1], ["n", b, c + d1, v2, 1, 1]]
                        ties = ([[0, 1]] if f0 else []) + ([[2, 3]] if f1 else [])
                        yield {"sp": "B-chordties", "m": [list(m) for m in meas], "ev": ev, "ties": ties}


def gen_B_grace(double):
    """cores of 1-2 notes in one 2/4 measure (span x voice{1,2}, staff = voice); a grace run of length
    1-2 (plain / slashed) before one note (double=False) or before both notes (double=True)"""
    meas = [(0, 4)]
    alpha = [["n", s, e, v, v] for (s, e) in spans(0, 4) for v in (1, 2)]
    runs = [(1, "grace"), (1, "acciaccatura"), (2, "grace"), (2, "acciaccatura")]
    for n in (1, 2):
        for comb in combinations(alpha, n):
            ev = [list(x) for x in comb]
            if not double:
                for j in range(n):
                    for r in runs:
                        c = {"sp": "B-grace", "m": [[0, 4]], "ev": ev, "grace": [[j, r[0], r[1]]]}
                        if grace_ok(c):
                            yield c
            elif n == 2:
                for r0 in runs:
                    for r1 in runs:
                        c = {"sp": "B-grace2", "m": [[0, 4]], "ev": ev, "grace": [[0, r0[0], r0[1]], [1, r1[0], r1[1]]]}
                        if grace_ok(c):
                            yield c


def gen_A_kinds(kinds, nosym=False, name="A-kinds"):
    alpha = _alphabet([(0, 4)], kinds=kinds, staff_is_voice=True)
    for n in (1, 2):
        for comb in combinations(alpha, n):
            c = {"sp": name, "m": [[0, 4]], "ev": [list(x) for x in comb]}
            if nosym:
                c["nosym"] = True
            yield c


def grace_ok(case):
    """a grace run is expressible only if its main note stays in the voice and is written first among
    the notes of its voice at that onset (the exporter writes the highest pitch first)"""
    from . import ir
    spec = expand(case)
    for p in M.iter_parts(spec):
        mv = M.moved_ids(p)
        notes = {o["id"]: o for o in p["objs"] if o["k"] in ("note", "grace", "unpitched", "rest")}
        for o in p["objs"]:
            if o["k"] == "grace" and o.get("next") in notes and notes[o["next"]]["k"] != "grace":
                m = notes[o["next"]]
                if m["id"] in mv:
                    return False
                for x in notes.values():
                    if x is m or x["k"] == "grace" or x["id"] in mv:
                        continue
                    if x["voice"] == m["voice"] and x["s"] == m["s"]:
                        if x["k"] != "note" or m["k"] != "note":
                            return False
                        if ir.midi_pitch(x["step"], x.get("alter"), x["oct"]) >= ir.midi_pitch(m["step"], m.get("alter"), m["oct"]):
                            return False
    return True
