"""Enumerators for the C03 sub-spaces and the expansion of a compact case into a score spec
(mc/ir.py format).  Every enumerator is a pure generator with a fixed order.

Compact case:  {"sp": name, ...fields depending on the sub-space...}; expand(case) -> score spec.
Common part description used by most sub-spaces ("core"):
   q     divisions table [[t, q], ...]
   m     measure extents [[s, e], ...]   (timeline units)
   ts    [[t, beats, beat_type], ...]
   ev    events [[kind, s, e, voice, staff], ...]  kind: "n" note, "r" rest, "u" unpitched
         pitched events take PITCHES[i] by their index among the pitched events (all distinct)
   x     extra ir objects (dicts) referring to note ids "<pid>n<i>" (i = index in ev)
"""
from itertools import combinations, product

from . import c03_model as M


def spans(lo, hi, durs=(1, 2, 3, 4)):
    """all (s, e) with lo <= s < e <= hi and e - s in durs"""
    return [(s, s + d) for s in range(lo, hi) for d in durs if s + d <= hi]


def core_part(c, pid="P1", name="Pno"):
    q = [list(x) for x in c.get("q", [[0, 2]])]
    objs = []
    for i, (s, e) in enumerate(c["m"]):
        objs.append({"k": "measure", "s": s, "e": e, "number": i + 1, "name": str(i + 1)})
    for t, b, bt in c.get("ts", [[0, 2, 4]]):
        objs.append({"k": "ts", "s": t, "beats": b, "beat_type": bt})
    for t, f, mode in c.get("ks", []):
        objs.append({"k": "ks", "s": t, "fifths": f, "mode": mode})
    for t, st, sign, line, oc in c.get("clef", []):
        objs.append({"k": "clef", "s": t, "staff": st, "sign": sign, "line": line, "oct": oc})
    pi = 0
    nosym = c.get("nosym", False)
    for i, ev in enumerate(c["ev"]):
        kind, s, e, voice, staff = ev[:5]
        nid = "%sn%d" % (pid, i)
        kw = {}
        if nosym:
            kw["sym"] = None
        if kind == "r":
            objs.append(M.note(nid, s, e, 0, voice, staff, q, kind="rest", **kw))
        else:
            p = ev[5] if len(ev) > 5 else pi
            objs.append(M.note(nid, s, e, p, voice, staff, q, kind="note" if kind == "n" else "unpitched", **kw))
            pi += 1
    for x in c.get("x", []):
        objs.append(dict(x))
    spec = {"id": pid, "name": name, "divs": q, "objs": objs}
    return M.finish_part(spec)


def expand(case):
    sp = case["sp"]
    if "score" in case:
        return case["score"]
    if "parts" in case:
        def rec(x, counter=[0]):
            if "group" in x:
                return {"group": x["group"], "children": [rec(y) for y in x["children"]]}
            return core_part(x, x.get("id", "P1"), x.get("name"))
        return {"parts": [rec(x) for x in case["parts"]]}
    return {"parts": [core_part(case)]}


# ---------------------------------------------------------------------------------------------
# A: rhythm / voice core


def _alphabet(meas, voices=(1, 2), staves=(1, 2), kinds=("n", "r"), staff_is_voice=False):
    out = []
    for (lo, hi) in meas:
        for (s, e) in spans(lo, hi):
            for v in voices:
                for st in ([v] if staff_is_voice else staves):
                    for k in kinds:
                        out.append([k, s, e, v, st])
    return out


def gen_A(layouts, nmax, staff_is_voice=False, nmin=1, name="A"):
    """all sets of nmin..nmax events over the alphabet of each measure layout"""
    for meas in layouts:
        alpha = _alphabet(meas, staff_is_voice=staff_is_voice)
        for n in range(nmin, nmax + 1):
            for comb in combinations(alpha, n):
                yield {"sp": name, "m": [list(x) for x in meas], "ev": [list(x) for x in comb]}


def stride(gen, B, r):
    """every element whose index is r modulo B (a deterministic block of the enumeration)"""
    def it():
        for i, c in enumerate(gen()):
            if i % B == r:
                yield c
    return it
