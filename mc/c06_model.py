"""Reference model for C06 (performance MIDI export / import).

Everything here is plain Python with exact `Fraction` arithmetic and does not import partitura.

* `tick_options`      seconds -> set of acceptable ticks (nearest tick; both neighbours at an exact tie)
* `ref_read`          reference reader of an abstract MIDI file (list of tracks, each a list of
                      `[abs_tick, kind, ...]` events in file order): tempo map, note pairing, grouping
* `clocks`            acceptable tick -> seconds functions (piecewise integration of the tempo map)
* `match_records`     small exact matcher of expected records (with tick options) against observed
"""
import functools
import math
from fractions import Fraction as F

# error of the float expression 10**6 * ppq * t / mpq (two roundings) is < 1e-12 ticks for the
# magnitudes used here; a time is treated as an exact tie when it is closer than this to k + 1/2
EPS_TICK = F(1, 10**9)

MAJOR = ["Cb", "Gb", "Db", "Ab", "Eb", "Bb", "F", "C", "G", "D", "A", "E", "B", "F#", "C#"]
MINOR = ["Abm", "Ebm", "Bbm", "Fm", "Cm", "Gm", "Dm", "Am", "Em", "Bm", "F#m", "C#m", "G#m", "D#m", "A#m"]


def key_name(fifths, mode):
    return (MINOR if mode == "minor" else MAJOR)[fifths + 7]


def key_of_name(name):
    if name in MINOR:
        return MINOR.index(name) - 7, "minor"
    return MAJOR.index(name) - 7, "major"


def tick_exact(t, ppq, mpq):
    """Exact (rational) tick position of the float/Fraction time t (seconds)."""
    return F(t) * 10**6 * ppq / mpq


@functools.lru_cache(maxsize=8192)
def tick_options(t, ppq, mpq):
    x = tick_exact(t, ppq, mpq)
    lo = math.floor(x)
    fr = x - lo
    if abs(fr - F(1, 2)) <= EPS_TICK * max(1, abs(x)):
        return (lo, lo + 1)
    return (lo + 1,) if fr > F(1, 2) else (lo,)


def tick_seconds(k, ppq, mpq):
    return F(k * mpq, 10**6 * ppq)


def tk(x, ppq, mpq):
    """float seconds of the (rational) tick position x under (ppq, mpq)."""
    return float(F(x) * mpq / (10**6 * ppq))


# ---------------------------------------------------------------------------------------------
# tempo map


def tempo_events(tracks):
    out = []
    for ti, tr in enumerate(tracks):
        for pos, ev in enumerate(tr):
            if ev[1] == "tempo":
                out.append((ev[0], ti, pos, ev[2]))
    return out


def tempo_maps(tracks):
    """All acceptable tempo maps [(tick, mpq), ...] (strictly increasing ticks).

    Tempo changes are taken in order of tick; inside one track the later event of a tick wins.  When
    several *tracks* carry a tempo event at the same tick with different values the statement does
    not say which one is later, so the last event of each such track is an acceptable winner.  The
    first map returned is the file-order reading (highest track wins)."""
    evs = tempo_events(tracks)
    by_tick = {}
    for tick, ti, pos, mpq in sorted(evs):
        by_tick.setdefault(tick, {})[ti] = mpq  # last event of the track at that tick
    ticks = sorted(by_tick)
    choices = []
    for tick in ticks:
        vals = []
        for ti in sorted(by_tick[tick], reverse=True):
            if by_tick[tick][ti] not in vals:
                vals.append(by_tick[tick][ti])
        choices.append(vals)
    maps = [[]]
    for tick, vals in zip(ticks, choices):
        maps = [m + [(tick, v)] for m in maps for v in vals]
    return maps


def make_clock(changes, ppq, default_mpq):
    def sec(k):
        t = F(0)
        last = 0
        cur = default_mpq
        for ct, m in changes:
            if ct >= k:
                break
            t += F((ct - last) * cur, 10**6 * ppq)
            last = ct
            cur = m
        return t + F((k - last) * cur, 10**6 * ppq)

    return sec


def clocks(tracks, ppq, default_mpq):
    return [make_clock(m, ppq, default_mpq) for m in tempo_maps(tracks)]


# ---------------------------------------------------------------------------------------------
# reference reader


def ref_read(tracks, merge):
    """Abstract file -> list of expected parts (ticks, not seconds).

    merge=True: all tracks are read as one stream ordered by tick (ties: track order, then file
    order).  A stream without notes, controls and programs yields no part."""
    if merge:
        allev = []
        for ti, tr in enumerate(tracks):
            for pos, ev in enumerate(tr):
                allev.append((ev[0], ti, pos, ev))
        allev.sort(key=lambda x: (x[0], x[1], x[2]))
        streams = [(0, [e[3] for e in allev])]
    else:
        streams = list(enumerate(tracks))
    parts = []
    for ti, evs in streams:
        p = dict(track=ti, notes=[], controls=[], programs=[], keysigs=[], timesigs=[], metas=[], ignored=0)
        sounding = {}
        for ev in evs:
            tick, kind = ev[0], ev[1]
            if kind == "on":
                sounding[(ev[2], ev[3])] = (tick, ev[4])
            elif kind in ("off", "on0"):
                key = (ev[2], ev[3])
                if key in sounding:
                    on_tick, vel = sounding.pop(key)
                    p["notes"].append(dict(pitch=ev[3], vel=vel, ch=ev[2], track=ti, on=(on_tick,), off=(tick,)))
                else:
                    p["ignored"] += 1
            elif kind == "cc":
                p["controls"].append(dict(num=ev[3], val=ev[4], ch=ev[2], track=ti, t=(tick,)))
            elif kind == "pc":
                p["programs"].append(dict(prog=ev[3], ch=ev[2], track=ti, t=(tick,)))
            elif kind == "ks":
                f, m = key_of_name(ev[2])
                p["keysigs"].append(dict(fifths=f, mode=m, track=ti, t=(tick,)))
            elif kind == "ts":
                p["timesigs"].append(dict(beats=ev[2], beat_type=ev[3], track=ti, t=(tick,)))
            elif kind == "meta":
                p["metas"].append(dict(type=ev[2], attrs=ev[3], track=ti, t=(tick,)))
            elif kind == "tempo":
                pass
            else:
                raise ValueError(kind)
        if p["notes"] or p["controls"] or p["programs"]:
            parts.append(p)
    return parts


def flatten(parts):
    out = dict(notes=[], controls=[], programs=[], keysigs=[], timesigs=[], metas=[])
    for p in parts:
        for k in out:
            out[k].extend(p[k])
    return out


# ---------------------------------------------------------------------------------------------
# matching expected records (with tick options) against observed records (seconds)


def close(a, ref):
    """float64 observed a against exact reference ref."""
    ref = F(ref)
    try:
        return abs(F(a) - ref) <= F(1, 10**9) * max(1, abs(ref))
    except (TypeError, ValueError, OverflowError):
        return False


def match_records(expected, observed, compatible):
    """Perfect matching (backtracking; lists are tiny). Returns True/False."""
    if len(expected) != len(observed):
        return False
    n = len(expected)
    cand = []
    for e in expected:
        cand.append([j for j, o in enumerate(observed) if compatible(e, o)])
    order = sorted(range(n), key=lambda i: len(cand[i]))
    used = [False] * n

    def rec(k):
        if k == n:
            return True
        i = order[k]
        for j in cand[i]:
            if not used[j]:
                used[j] = True
                if rec(k + 1):
                    return True
                used[j] = False
        return False

    return rec(0)
