"""Edit alphabets for the edit-then-query-again spaces of C05.

An *edit* is a JSON-able list describing one change of a part through the public API (Part.add,
Part.remove, Part.set_quarter_duration).  It is applied twice: to the part spec (mc/ir.py format; a new
spec is returned, from which the reference table is recomputed) and to the real Part object that has
already been queried.  Nothing here imports partitura at module level.

  ["ks+", t, fifths, mode]   add a key signature at t (no key signature starts at t)
  ["ks-", t]                 remove the key signature starting at t
  ["ks=", t, fifths, mode]   replace the key signature starting at t (remove + add)
  ["ts+", t, beats, type]    add / remove / replace a time signature, likewise
  ["ts-", t]
  ["ts=", t, beats, type]
  ["m+", t]                  split the measure that contains t at t (remove it, add two)
  ["m-", t]                  merge the measure ending at t with the one starting at t (remove both, add one)
  ["e+", kind, s, e, id]     add a note ("n"; first and last grid cell), grace note ("g"; last onset) or rest ("r"; first cell)
  ["e-", id]                 remove a note / grace note / rest that is not part of a tie chain (first and last of each)
  ["q=", q]                  replace the only quarter duration (set at 0) by q

Tie alphabet (spaces part-edit-ties*): edits of tie chains that were already queried.  Tie links are set the way
the importers set them (tie_next / tie_prev attributes); a chain never gets a gap (the end of a member is the start
of the next one), so that its timeline duration is unambiguous.

  ["c>", id, end]            move the end of the last note of a chain to `end` (remove(o, "end") + add(o, None, end))
  ["c|", a, b, t]            move the boundary between two adjacent members a -> b of a chain to t
  ["c-", id]                 remove the last note of a chain (unlink it, then Part.remove)
  ["c/", a]                  untie a from the note it is tied to (two rows afterwards)
  ["c+", id, new, end]       add a note of the same spelled pitch from the end of note `id` to `end` and tie it on
  ["c~", a, b]               tie note a to note b (same spelled pitch, b starts where a ends, no link there yet)
  ["x*", m]                  rescale the part in place: remove every object, multiply the (only) quarter duration
                             by m, add the same objects again at m times their start and end times
"""

KS_ADD = (-4, "minor")
KS_REP = [(5, "major"), (-6, "minor")]
TS_ADD = (5, 8)
TS_REP = [(4, 4), (3, 2)]
Q_MULT = (2, 3)


def _copy(spec):
    return {"id": spec.get("id", "P1"), "divs": [list(x) for x in spec["divs"]], "objs": [dict(o) for o in spec["objs"]]}


def _at(objs, kind, t):
    return [o for o in objs if o["k"] == kind and o["s"] == t]


def apply_edit_spec(spec, e):
    """the spec after the edit (a new dict)"""
    sp = _copy(spec)
    objs = sp["objs"]
    k = e[0]
    if k in ("ks+", "ks="):
        if k == "ks=":
            objs[:] = [o for o in objs if not (o["k"] == "ks" and o["s"] == e[1])]
        objs.append({"k": "ks", "s": e[1], "fifths": e[2], "mode": e[3]})
    elif k == "ks-":
        objs[:] = [o for o in objs if not (o["k"] == "ks" and o["s"] == e[1])]
    elif k in ("ts+", "ts="):
        if k == "ts=":
            objs[:] = [o for o in objs if not (o["k"] == "ts" and o["s"] == e[1])]
        objs.append({"k": "ts", "s": e[1], "beats": e[2], "beat_type": e[3]})
    elif k == "ts-":
        objs[:] = [o for o in objs if not (o["k"] == "ts" and o["s"] == e[1])]
    elif k == "m+":
        t = e[1]
        (m,) = [o for o in objs if o["k"] == "measure" and o["s"] < t < o["e"]]
        objs.remove(m)
        objs.append({"k": "measure", "s": m["s"], "e": t, "number": m.get("number")})
        objs.append({"k": "measure", "s": t, "e": m["e"], "number": m.get("number")})
    elif k == "m-":
        t = e[1]
        (a,) = [o for o in objs if o["k"] == "measure" and o["e"] == t]
        (b,) = [o for o in objs if o["k"] == "measure" and o["s"] == t]
        objs.remove(a)
        objs.remove(b)
        objs.append({"k": "measure", "s": a["s"], "e": b["e"], "number": a.get("number")})
    elif k == "e+":
        kind, s, en, oid = e[1], e[2], e[3], e[4]
        if kind == "r":
            objs.append(dict(k="rest", s=s, e=en, id=oid, voice=2, staff=1))
        else:
            o = dict(k="note" if kind == "n" else "grace", s=s, e=en, id=oid, step="B", oct=3, alter=0, voice=2, staff=1)
            if kind == "g":
                o["gtype"] = "appoggiatura"
            objs.append(o)
    elif k == "e-":
        objs[:] = [o for o in objs if o.get("id") != e[1]]
    elif k == "q=":
        assert len(sp["divs"]) == 1
        sp["divs"] = [[0, e[1]]]
    elif k == "c>":
        _by_id(objs, e[1])["e"] = e[2]
    elif k == "c|":
        _by_id(objs, e[1])["e"] = e[3]
        _by_id(objs, e[2])["s"] = e[3]
    elif k == "c-":
        objs[:] = [o for o in objs if o.get("id") != e[1]]
        for o in objs:
            if o.get("tie") == e[1]:
                o["tie"] = None
    elif k == "c/":
        _by_id(objs, e[1])["tie"] = None
    elif k == "c+":
        a = _by_id(objs, e[1])
        objs.append(dict(k="note", s=a["e"], e=e[3], id=e[2], step=a["step"], oct=a["oct"], alter=a.get("alter"),
                         voice=3, staff=3))
        a["tie"] = e[2]
    elif k == "c~":
        _by_id(objs, e[1])["tie"] = e[2]
    elif k == "x*":
        assert len(sp["divs"]) == 1
        m = e[1]
        sp["divs"] = [[0, sp["divs"][0][1] * m]]
        for o in objs:
            for x in ("s", "e"):
                if o.get(x) is not None:
                    o[x] = o[x] * m
    else:
        raise ValueError(e)
    return sp


def _by_id(objs, oid):
    (o,) = [x for x in objs if x.get("id") == oid and x["k"] in ("note", "grace", "rest")]
    return o


def grid_after(grid, e):
    """the time grid of the frame after edit e (only the in-place rescaling moves it)"""
    return [t * e[1] for t in grid] if e[0] == "x*" else list(grid)


def apply_edit_real(part, e):
    """the same edit on the real Part; returns the number of operations executed"""
    import partitura.score as S

    def one(cls, pred):
        found = [o for o in part.iter_all(cls) if pred(o)]
        if len(found) != 1:
            raise AssertionError("edit %r: %d candidates of %s" % (e, len(found), cls.__name__))
        return found[0]

    k = e[0]
    if k == "ks+":
        part.add(S.KeySignature(e[2], e[3]), e[1])
        return 1
    if k == "ks-":
        part.remove(one(S.KeySignature, lambda o: o.start.t == e[1]))
        return 1
    if k == "ks=":
        part.remove(one(S.KeySignature, lambda o: o.start.t == e[1]))
        part.add(S.KeySignature(e[2], e[3]), e[1])
        return 2
    if k == "ts+":
        part.add(S.TimeSignature(e[2], e[3]), e[1])
        return 1
    if k == "ts-":
        part.remove(one(S.TimeSignature, lambda o: o.start.t == e[1]))
        return 1
    if k == "ts=":
        part.remove(one(S.TimeSignature, lambda o: o.start.t == e[1]))
        part.add(S.TimeSignature(e[2], e[3]), e[1])
        return 2
    if k == "m+":
        t = e[1]
        m = one(S.Measure, lambda o: o.start.t < t < o.end.t)
        s, en, num = m.start.t, m.end.t, m.number
        part.remove(m)
        part.add(S.Measure(number=num), s, t)
        part.add(S.Measure(number=num), t, en)
        return 3
    if k == "m-":
        t = e[1]
        a = one(S.Measure, lambda o: o.end.t == t)
        b = one(S.Measure, lambda o: o.start.t == t)
        s, en, num = a.start.t, b.end.t, a.number
        part.remove(a)
        part.remove(b)
        part.add(S.Measure(number=num), s, en)
        return 3
    if k == "e+":
        kind, s, en, oid = e[1], e[2], e[3], e[4]
        if kind == "r":
            part.add(S.Rest(id=oid, voice=2, staff=1), s, en)
        elif kind == "n":
            part.add(S.Note("B", 3, 0, id=oid, voice=2, staff=1), s, en)
        else:
            part.add(S.GraceNote("appoggiatura", "B", 3, 0, id=oid, voice=2, staff=1), s, en)
        return 1
    if k == "e-":
        found = [o for o in part.iter_all(S.GenericNote, include_subclasses=True) if o.id == e[1]]
        if len(found) != 1:
            raise AssertionError("edit %r: %d candidates" % (e, len(found)))
        part.remove(found[0])
        return 1
    if k == "q=":
        part.set_quarter_duration(0, e[1])
        return 1

    def note(oid):
        found = [o for o in part.iter_all(S.GenericNote, include_subclasses=True) if o.id == oid]
        if len(found) != 1:
            raise AssertionError("edit %r: %d candidates for %s" % (e, len(found), oid))
        return found[0]

    if k == "c>":
        o = note(e[1])
        part.remove(o, "end")
        part.add(o, None, e[2])
        return 2
    if k == "c|":
        a, b = note(e[1]), note(e[2])
        part.remove(a, "end")
        part.add(a, None, e[3])
        part.remove(b, "start")
        part.add(b, e[3], None)
        return 4
    if k == "c-":
        o = note(e[1])
        o.tie_prev.tie_next = None
        o.tie_prev = None
        part.remove(o)
        return 2
    if k == "c/":
        a = note(e[1])
        a.tie_next.tie_prev = None
        a.tie_next = None
        return 1
    if k == "c+":
        a = note(e[1])
        new = S.Note(a.step, a.octave, a.alter, id=e[2], voice=3, staff=3)
        part.add(new, a.end.t, e[3])
        a.tie_next = new
        new.tie_prev = a
        return 2
    if k == "c~":
        a, b = note(e[1]), note(e[2])
        a.tie_next = b
        b.tie_prev = a
        return 1
    if k == "x*":
        m = e[1]
        objs = [(o, o.start.t, None if o.end is None else o.end.t) for o in part.iter_all(S.TimedObject, include_subclasses=True)]
        (q,) = [int(x) for x in part._quarter_durations]
        for o, _s, _e in objs:
            part.remove(o)
        part.set_quarter_duration(0, q * m)
        for o, s_, e_ in objs:
            part.add(o, s_ * m, None if e_ is None else e_ * m)
        return 2 * len(objs) + 1
    raise ValueError(e)


def valid(spec):
    """generator preconditions of C05 that an edited part must still satisfy"""
    objs = spec["objs"]
    times = [o[x] for o in objs for x in ("s", "e") if o.get(x) is not None]
    if not times or min(times) != 0:
        return False  # the first time point is 0
    ts = sorted(o["s"] for o in objs if o["k"] == "ts")
    ks = sorted(o["s"] for o in objs if o["k"] == "ks")
    if len(set(ts)) != len(ts) or len(set(ks)) != len(ks):
        return False  # two signatures at one time
    if ts and ts[0] != 0:
        return False  # a time signature, when present, starts at the first time point
    # a first measure shorter than its time signature says (read as a pickup): the length of a beat in divisions
    # does not change during the first beat after time 0.  Part.measure_map takes the position of that beat for
    # "the divisions per beat of the first measure"; with a division change there the virtual start of the complete
    # measure is not defined, (a beat type change there - pickup shorter than one beat, meter change at the first
    # barline - is generated since the fix proposed_fixes/C05-s-subbeat-pickup.diff was applied to /repo)
    m0 = [o for o in objs if o["k"] == "measure" and o["s"] == 0]
    if ts and m0:
        b0, bt0 = [(o["beats"], o["beat_type"]) for o in objs if o["k"] == "ts" and o["s"] == 0][0]
        q0 = spec["divs"][0][1]
        beat = q0 * 4.0 / bt0
        if min(o["e"] for o in m0) < b0 * beat:
            if any(0 < t < beat and q != q0 for t, q in spec["divs"][1:]):
                return False
    return True


def enumerate_edits(spec, grid, step):
    """all edits of the alphabet that apply to `spec` on the time grid `grid` (sorted times, the last
    one is the end of the part) and keep it inside the generator preconditions; deterministic order"""
    objs = spec["objs"]
    ks = {o["s"]: o for o in objs if o["k"] == "ks"}
    ts = {o["s"]: o for o in objs if o["k"] == "ts"}
    meas = sorted((o["s"], o["e"]) for o in objs if o["k"] == "measure")
    pts = list(grid[:-1])
    out = []
    for t in pts:
        if t in ks:
            out.append(["ks-", t])
            v = KS_REP[0] if ks[t]["fifths"] != KS_REP[0][0] else KS_REP[1]
            out.append(["ks=", t, v[0], v[1]])
        else:
            out.append(["ks+", t, KS_ADD[0], KS_ADD[1]])
    ts_pts = [s for s, _ in meas] if meas else pts
    for t in ts_pts:
        if t in ts:
            out.append(["ts-", t])
            v = TS_REP[0] if (ts[t]["beats"], ts[t]["beat_type"]) != TS_REP[0] else TS_REP[1]
            out.append(["ts=", t, v[0], v[1]])
        else:
            out.append(["ts+", t, TS_ADD[0], TS_ADD[1]])
    for s, en in meas:
        for t in grid:
            if s < t < en:
                out.append(["m+", t])
    for a, b in zip(meas, meas[1:]):
        if a[1] == b[0]:
            out.append(["m-", b[0]])
    oid = "x%d" % step
    for i in sorted({0, len(grid) - 2}):
        out.append(["e+", "n", grid[i], grid[i + 1], oid])
    out.append(["e+", "r", grid[0], grid[1], oid])
    out.append(["e+", "g", grid[-2], grid[-2], oid])
    tied = {o["tie"] for o in objs if o.get("tie") is not None}
    free = [o["id"] for o in objs if o["k"] in ("note", "grace", "rest") and o.get("tie") is None and o.get("id") not in tied]
    for kind in ("n", "r"):
        # the first and the last untied note (grace note) and rest, in the order of the spec
        ids = [o["id"] for o in objs if o.get("id") in free and (o["k"] == "rest") == (kind == "r")]
        for x in ([ids[0]] if ids else []) + ([ids[-1]] if len(ids) > 1 else []):
            out.append(["e-", x])
    if len(spec["divs"]) == 1:
        for m in Q_MULT:
            out.append(["q=", spec["divs"][0][1] * m])
    return [e for e in out if valid(apply_edit_spec(spec, e))]


def _chains(objs):
    by_id = {o["id"]: o for o in objs if o["k"] in ("note", "grace")}
    has_prev = {o["tie"] for o in by_id.values() if o.get("tie") is not None}
    out = []
    for o in objs:
        if o["k"] not in ("note", "grace") or o["id"] in has_prev:
            continue
        ch = [o]
        while ch[-1].get("tie") is not None:
            ch.append(by_id[ch[-1]["tie"]])
        out.append(ch)
    return out


def _spelled(o):
    return (o["step"], o.get("alter") or 0, o["oct"])


def enumerate_tie_edits(spec, grid, step):
    """all edits of the tie alphabet that apply to `spec` on the time grid `grid` (sorted times, the last one is the
    end of the part); deterministic order.  Times: the grid points and the times one division before / after the
    present value."""
    objs = spec["objs"]
    chains = _chains(objs)
    end = grid[-1]
    out = []
    for ch in chains:
        if len(ch) < 2:
            continue
        tail = ch[-1]
        for t in sorted(set(grid) | {tail["e"] - 1, tail["e"] + 1}):
            if tail["s"] < t <= end and t != tail["e"]:
                out.append(["c>", tail["id"], t])
        for a, b in zip(ch, ch[1:]):
            for t in sorted(set(grid) | {a["e"] - 1, a["e"] + 1}):
                if a["s"] < t < b["e"] and t != a["e"]:
                    out.append(["c|", a["id"], b["id"], t])
        out.append(["c-", tail["id"]])
        for a in ch[:-1]:
            out.append(["c/", a["id"]])
    # tie a new note onto every chain and onto the first untied note: up to the next grid point and up to the end
    new = "y%d" % step
    first_single = True
    for ch in chains:
        tail = ch[-1]
        if tail["k"] != "note" or tail["e"] >= end:
            continue
        if len(ch) == 1:
            if not first_single:
                continue
            first_single = False
        later = [t for t in grid if t > tail["e"]]
        for t in sorted({later[0], later[-1]}):
            out.append(["c+", tail["id"], new, t])
    # tie two notes that are there already (chain tail or untied note -> chain head or untied note)
    for ca in chains:
        a = ca[-1]
        for cb in chains:
            b = cb[0]
            if ca is not cb and a["k"] == "note" and b["k"] == "note" and a["e"] == b["s"] and _spelled(a) == _spelled(b):
                out.append(["c~", a["id"], b["id"]])
    if len(spec["divs"]) == 1:
        for m in Q_MULT:
            out.append(["x*", m])
        for m in Q_MULT:
            out.append(["q=", spec["divs"][0][1] * m])
    return [e for e in out if valid(apply_edit_spec(spec, e))]


def content_deco(frame, content, events):
    """explicit pitches / voices / staves of a content, None = the default assignment of mc/c05_gen.py"""
    if content != "ties":
        return None
    by = {"A": dict(p=0, v=1, st=1), "B": dict(p=4, v=2, st=2), "C": dict(p=2, v=None, st=None),
          "r": dict(p=0, v=1, st=1), "g": dict(p=1, v=1, st=1, gt="acciaccatura")}
    return [dict(by[tag]) for tag in _ties_layout(frame)[1]]


def _ties_layout(frame):
    n = len(frame["grid"])
    k = min(3, n - 1)
    ev, tags = [["t", 0, k]], ["A"]
    if k + 1 <= n - 1:
        ev.append(["n", k, k + 1])  # same pitch and voice as the chain before it
        tags.append("A")
    ev += [["n", 0, 1], ["n", 1, 2]]  # two adjacent notes of one pitch
    tags += ["B", "B"]
    if n >= 5:
        ev.append(["t", n - 3, n - 1])  # a chain that ends with the part
        tags.append("C")
    ev += [["r", n - 2, n - 1], ["g", 1, 1]]
    tags += ["r", "g"]
    return ev, tags


def content_events(frame, content):
    """the two contents of the edit spaces.  dense: a one-cell note and a one-cell rest on every grid
    cell (every grid point is a time point and carries an onset); sparse: a tie chain, a grace note,
    a rest and a note (some grid points are not time points before the edit)"""
    n = len(frame["grid"])
    if content == "dense":
        return [["n", i, i + 1] for i in range(n - 1)] + [["r", i, i + 1] for i in range(n - 1)]
    if content == "sparse":
        return [["t", 0, 2], ["g", 1, 1], ["r", n - 2, n - 1], ["n", n - 2, n - 1]]
    if content == "ties":
        # a chain of 2-3 members from the start, a note of its pitch right after it, two adjacent untied notes of one
        # pitch, a chain that ends with the part, a rest and a grace note
        return _ties_layout(frame)[0]
    raise ValueError(content)
