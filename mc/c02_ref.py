"""Reference model for C02 (quarter map, beat map, their inverses, quarter-duration map).

Pure stdlib, exact arithmetic (fractions.Fraction).  Nothing here imports partitura.

A *case* describes a part on an integer timeline:
  t0, last       first and last time point (a note spans [t0, last])
  divs           [[t, q], ...] quarter-duration table, sorted, divs[0][0] == 0 (the table every Part
                 starts with); entries may lie before t0 or after last
  ts             [[t, beats, beat_type], ...] time signatures, sorted by t, t0 <= t <= last
  m              None or [start, end] of the first measure (start >= t0, end > start)
Musical-beat state is kept outside the case description (see ModeModel).
"""
from fractions import Fraction

DEFAULT_MUSICAL = {6: 2, 9: 3, 12: 4}


def default_musical(beats):
    """2 for 6/x, 3 for 9/x, 4 for 12/x, the numerator otherwise (docstring of set_musical_beat_per_ts)"""
    return DEFAULT_MUSICAL.get(beats, beats)


def qdur_at(divs, t):
    """divisions per quarter in force at time t (t may be a Fraction); first value before the table starts"""
    v = divs[0][1]
    for tt, q in divs:
        if tt <= t:
            v = q
    return v


class ModeModel(object):
    """Reference for use_musical_beat / use_notated_beat / set_musical_beat_per_ts.

    state: flag (musical beats enabled) and one musical-beats number per time signature of the part.
    """

    def __init__(self, ts):
        self.sigs = [(b, bt) for _, b, bt in ts]
        self.flag = False
        self.mus = [default_musical(b) for b, _ in self.sigs]

    def _set(self, d):
        self.mus = [d["%d/%d" % (b, bt)] if "%d/%d" % (b, bt) in d else default_musical(b) for b, bt in self.sigs]

    def apply(self, op):
        k = op[0]
        if k == "M":  # use_musical_beat(dict)
            if not self.flag:
                self.flag = True
                if op[1]:
                    self._set(op[1])
        elif k == "N":  # use_notated_beat()
            if self.flag:
                self.flag = False
                self._set({})
        elif k == "S":  # set_musical_beat_per_ts(dict)
            self._set(op[1])
        else:
            raise ValueError(op)

    def is_default(self):
        return self.mus == [default_musical(b) for b, _ in self.sigs]


class RefMaps(object):
    """Exact forward maps of one case.

    unit 'q' : quarters;  unit 'b' : beats (notated, or musical when `mus` is given: list of musical
    beats per time signature, aligned with case['ts']).
    `pre` is the reading for stretches before the first time signature: 'quarter' (a beat is a quarter,
    what the implementation does and what the 4/4 default of time_signature_map implies) or 'first'
    (the first signature extends backwards).
    """

    def __init__(self, case):
        self.t0 = case["t0"]
        self.last = case["last"]
        self.divs = [tuple(x) for x in case["divs"]]
        self.ts = [tuple(x) for x in case["ts"]]
        self.m = case.get("m")
        cuts = {self.t0, self.last}
        cuts |= {t for t, _ in self.divs if self.t0 < t < self.last}
        cuts |= {t for t, _, _ in self.ts if self.t0 < t < self.last}
        self.cuts = sorted(cuts)

    # -- rates -----------------------------------------------------------------------------------
    def factor(self, a, unit, mus, pre):
        if unit == "q":
            return Fraction(1)
        cur = None
        for i, (t, b, bt) in enumerate(self.ts):
            if t <= a:
                cur = i
        if cur is None:
            if not self.ts or pre == "quarter":
                return Fraction(1)
            cur = 0
        _, b, bt = self.ts[cur]
        f = Fraction(bt, 4)
        if mus is not None:
            f *= Fraction(mus[cur], b)
        return f

    def rate(self, a, unit, mus, pre):
        """units per division on the segment starting at a"""
        return self.factor(a, unit, mus, pre) / qdur_at(self.divs, a)

    def table(self, unit, mus=None, pre="quarter"):
        """cumulative value (from t0) at every cut"""
        acc = Fraction(0)
        out = [(self.cuts[0], acc)]
        for a, b in zip(self.cuts, self.cuts[1:]):
            acc += (b - a) * self.rate(a, unit, mus, pre)
            out.append((b, acc))
        return out

    def raw(self, t, unit, mus=None, pre="quarter", tab=None):
        """value at t (Fraction or int in [t0, last]) measured from t0"""
        tab = tab or self.table(unit, mus, pre)
        if t <= tab[0][0]:
            a, v = tab[0]
            return v + (t - a) * self.rate(a, unit, mus, pre)
        prev = tab[0]
        for c in tab[1:]:
            if t <= c[0]:
                return prev[1] + (t - prev[0]) * self.rate(prev[0], unit, mus, pre)
            prev = c
        a, v = tab[-1]
        return v + (t - a) * self.rate(self.cuts[-2] if len(self.cuts) > 1 else a, unit, mus, pre)

    def max_rate(self, unit, mus=None, pre="quarter"):
        return max(self.rate(a, unit, mus, pre) for a in self.cuts)

    # -- origin ----------------------------------------------------------------------------------
    def origins(self, unit, mus=None, pre="quarter"):
        """Acceptable positions of zero, primary (the implementation's natural reading) first.

        A part opens with a pickup measure when a measure starts at the first time point and is
        shorter than the time signature that starts with it.  The comparison is made in the unit of
        the map; when a time signature changes inside the first measure the comparison in quarters
        is accepted as well; when no signature starts with the measure both origins are accepted.
        """
        if self.m is None or self.m[0] != self.t0:
            return [self.t0]
        end = self.m[1]
        ts0 = None
        for i, (t, b, bt) in enumerate(self.ts):
            if t == self.t0:
                ts0 = i
        if ts0 is None:
            return [self.t0, end]
        _, b, bt = self.ts[ts0]
        out = []
        # in the unit of the map
        actual = self.raw(end, unit, mus, pre)
        if unit == "q":
            normal = Fraction(b * 4, bt)
        elif mus is not None:
            normal = Fraction(mus[ts0])
        else:
            normal = Fraction(b)
        out.append(end if actual < normal else self.t0)
        # in quarters
        alt = end if self.raw(end, "q") < Fraction(b * 4, bt) else self.t0
        if alt not in out:
            out.append(alt)
        return out

    def readings(self, unit, mus=None):
        """all accepted (pre, origin) readings, primary first"""
        pres = ["quarter"]
        if unit == "b" and self.ts and self.ts[0][0] > self.t0:
            pres.append("first")
        out = []
        for pre in pres:
            for o in self.origins(unit, mus, pre):
                out.append((pre, o))
        return out

    def values(self, positions, unit, mus, pre, origin):
        """exact values at the sorted positions (all inside [t0, last]), zero at `origin`"""
        tab = self.table(unit, mus, pre)
        rates = [self.rate(a, unit, mus, pre) for a, _ in tab]
        z = self.raw(origin, unit, mus, pre, tab)
        out = []
        k = 0
        n = len(tab)
        for p in positions:
            while k + 1 < n - 1 and tab[k + 1][0] < p:
                k += 1
            a, v = tab[k]
            out.append(v + (p - a) * rates[k] - z)
        return out

    def change_points(self, unit):
        cps = {t for t, _ in self.divs if self.t0 <= t <= self.last}
        if unit == "b":
            cps |= {t for t, _, _ in self.ts}
        return sorted(cps | {self.t0, self.last})
