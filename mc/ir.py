"""Abstract part/score descriptions and the builder that turns them into real partitura objects
through the public construction API (Part(...), Part.add, set_quarter_duration, link attributes).

A *part spec* is a JSON-able dict:
  {"id": "P1", "name": None, "divs": [[0, 4], [8, 6]],      # quarter-duration table (timeline time, divisions)
   "objs": [ {"k": kind, "s": start|None, "e": end|None, ...fields}, ... ]}
Times are integer timeline positions (divisions).  Kinds and fields:
  note      id step alter oct voice staff [tie: id of next note in chain] [sym: {type,dots,actual_notes,normal_notes}]
            [art: [..]] [stem] [fing: int] [orn: [..]]
  grace     like note plus gtype ('grace'|'acciaccatura'|'appoggiatura'), [next: id of following grace/main note]
  rest      id voice staff [sym]
  unpitched id step oct voice staff [sym] [notehead]
  measure   number [name]
  ts        beats beat_type [mus: musical beats]
  ks        fifths mode
  clef      staff sign line oct
  page / system   number
  slur      a b  (note ids)          tuplet  a b actual normal [atype ntype]
  dyn       text [staff]   (ConstantLoudnessDirection)      sfz  text (ImpulsiveLoudnessDirection)
  wedge     dir: '+'|'-' [staff]                              words text [staff]
  tempodir  text (ConstantTempoDirection)                     tempo bpm unit
  repeat, ending(number), fine, dacapo, segno, dalsegno, coda, tocoda
  pedal     [line] [staff]  (sustain pedal direction; e may be None: no end)
  fermata   [ref: note id | None]                             barline style
A *score spec* is {"parts": [part spec | {"group": {symbol,name,number}, "children": [...] }], "meta": {...}}.

Reference helpers (exact Fractions) live here too so that all checks share one meaning.
"""
from fractions import Fraction

STEP_PC = {"C": 0, "D": 2, "E": 4, "F": 5, "G": 7, "A": 9, "B": 11}


def midi_pitch(step, alter, octave):
    return (octave + 1) * 12 + STEP_PC[step] + (alter or 0)


def build_part(spec):
    import partitura.score as S

    divs = spec.get("divs", [[0, 1]])
    part = S.Part(spec.get("id", "P1"), part_name=spec.get("name"), part_abbreviation=spec.get("abbr"),
                  quarter_duration=divs[0][1])
    for t, q in divs[1:]:
        part.set_quarter_duration(t, q)
    by_id = {}
    later = []
    for o in spec.get("objs", []):
        k = o["k"]
        s, e = o.get("s"), o.get("e")
        obj = None
        if k in ("note", "grace", "rest", "unpitched"):
            kw = dict(id=o.get("id"), voice=o.get("voice"), staff=o.get("staff"))
            if o.get("sym") is not None:
                kw["symbolic_duration"] = dict(o["sym"])
            if o.get("art") is not None:
                kw["articulations"] = list(o["art"])
            if o.get("orn") is not None:
                kw["ornaments"] = list(o["orn"])
            if o.get("stem") is not None:
                kw["stem_direction"] = o["stem"]
            if o.get("fing") is not None:
                kw["technical"] = [S.Fingering(o["fing"])]
            if k == "note":
                obj = S.Note(o["step"], o["oct"], o.get("alter"), **kw)
            elif k == "grace":
                obj = S.GraceNote(o.get("gtype", "grace"), o["step"], o["oct"], o.get("alter"), **kw)
            elif k == "rest":
                obj = S.Rest(**kw)
            else:
                obj = S.UnpitchedNote(o["step"], o["oct"], notehead=o.get("notehead"), **kw)
            if o.get("id") is not None:
                by_id[o["id"]] = obj
            if o.get("tie") is not None or o.get("next") is not None:
                later.append((o, obj))
        elif k == "measure":
            obj = S.Measure(number=o.get("number"), name=o.get("name"))
        elif k == "ts":
            obj = S.TimeSignature(o["beats"], o["beat_type"])
            if o.get("mus") is not None:
                obj.musical_beats = o["mus"]
        elif k == "ks":
            obj = S.KeySignature(o["fifths"], o.get("mode"))
        elif k == "clef":
            obj = S.Clef(o.get("staff"), o["sign"], o.get("line"), o.get("oct"))
        elif k == "page":
            obj = S.Page(o.get("number", 1))
        elif k == "system":
            obj = S.System(o.get("number", 1))
        elif k in ("slur", "tuplet", "fermata"):
            later.append((o, None))
            continue
        elif k == "dyn":
            obj = S.ConstantLoudnessDirection(o["text"], staff=o.get("staff"))
        elif k == "sfz":
            obj = S.ImpulsiveLoudnessDirection(o["text"], staff=o.get("staff"))
        elif k == "wedge":
            cls = S.IncreasingLoudnessDirection if o.get("dir", "+") == "+" else S.DecreasingLoudnessDirection
            obj = cls("crescendo" if o.get("dir", "+") == "+" else "diminuendo", wedge=True, staff=o.get("staff"))
        elif k == "words":
            obj = S.Words(o["text"], staff=o.get("staff"))
        elif k == "pedal":
            obj = S.SustainPedalDirection(line=bool(o.get("line", False)), staff=o.get("staff"))
        elif k == "tempodir":
            obj = S.ConstantTempoDirection(o["text"], staff=o.get("staff"))
        elif k == "tempo":
            obj = S.Tempo(o["bpm"], o.get("unit"))
        elif k == "repeat":
            obj = S.Repeat()
        elif k == "ending":
            obj = S.Ending(o["number"])
        elif k == "fine":
            obj = S.Fine()
        elif k == "dacapo":
            obj = S.DaCapo()
        elif k == "segno":
            obj = S.Segno()
        elif k == "dalsegno":
            obj = S.DalSegno()
        elif k == "coda":
            obj = S.Coda()
        elif k == "tocoda":
            obj = S.ToCoda()
        elif k == "barline":
            obj = S.Barline(o["style"])
        elif k == "staff":
            obj = S.Staff(o["number"], o.get("lines", 5))
        else:
            raise ValueError("unknown kind %r" % (k,))
        part.add(obj, s, e)
    for o, obj in later:
        k = o["k"]
        if k in ("note", "grace"):
            if o.get("tie") is not None:
                nxt = by_id[o["tie"]]
                obj.tie_next = nxt
                nxt.tie_prev = obj
            if o.get("next") is not None:
                nxt = by_id[o["next"]]
                obj.grace_next = nxt
                if isinstance(nxt, S.GraceNote):
                    nxt.grace_prev = obj
        elif k == "slur":
            a, b = by_id[o["a"]], by_id[o["b"]]
            sl = S.Slur(a, b)
            part.add(sl, a.start.t, b.end.t)
        elif k == "tuplet":
            a, b = by_id[o["a"]], by_id[o["b"]]
            tu = S.Tuplet(a, b, actual_notes=o.get("actual"), normal_notes=o.get("normal"),
                          actual_type=o.get("atype"), normal_type=o.get("ntype"))
            part.add(tu, a.start.t, b.end.t)
        elif k == "fermata":
            ref = by_id.get(o.get("ref")) if o.get("ref") is not None else None
            f = S.Fermata(ref)
            if ref is not None:
                ref.fermata = f
            part.add(f, o.get("s"), o.get("e"))
    return part


def build_score(spec):
    import partitura.score as S

    def rec(x):
        if "group" in x:
            g = x["group"]
            pg = S.PartGroup(g.get("symbol"), g.get("name"), g.get("number"))
            pg.children = [rec(c) for c in x["children"]]
            for c in pg.children:
                c.parent = pg
            return pg
        return build_part(x)

    items = [rec(x) for x in spec["parts"]]
    meta = spec.get("meta", {})
    return S.Score(items, **meta)


# ---------------------------------------------------------------------------------------------
# reference arithmetic on specs (exact)


def qdur_at(divs, t):
    """divisions per quarter in force at timeline time t"""
    v = divs[0][1]
    for tt, q in divs:
        if tt <= t:
            v = q
    return v


def quarters_between(divs, t0, t1):
    """exact quarter length of the stretch [t0, t1] (t0 <= t1)"""
    if t1 < t0:
        return -quarters_between(divs, t1, t0)
    cuts = sorted({t0, t1} | {tt for tt, _ in divs if t0 < tt < t1})
    tot = Fraction(0)
    for a, b in zip(cuts, cuts[1:]):
        tot += Fraction(b - a, qdur_at(divs, a))
    return tot


def notes_of(spec, kinds=("note", "grace", "unpitched")):
    return [o for o in spec.get("objs", []) if o["k"] in kinds]


def tie_chains(spec):
    """list of chains (lists of note dicts) following `tie` links; every note is in exactly one chain"""
    notes = notes_of(spec, ("note", "grace"))
    by_id = {o["id"]: o for o in notes}
    has_prev = {o["tie"] for o in notes if o.get("tie") is not None}
    chains = []
    for o in notes:
        if o["id"] in has_prev:
            continue
        ch = [o]
        while ch[-1].get("tie") is not None:
            ch.append(by_id[ch[-1]["tie"]])
        chains.append(ch)
    return chains


def sounding(spec, origin=None):
    """multiset (sorted list) of (onset_q, dur_q, midi_pitch) with tie chains merged; onset relative to
    `origin` (timeline time, default first object start)"""
    divs = spec.get("divs", [[0, 1]])
    if origin is None:
        starts = [o["s"] for o in spec.get("objs", []) if o.get("s") is not None]
        origin = min(starts) if starts else 0
    out = []
    for ch in tie_chains(spec):
        h = ch[0]
        on = quarters_between(divs, origin, h["s"])
        du = quarters_between(divs, h["s"], ch[-1]["e"])
        out.append((on, du, midi_pitch(h["step"], h.get("alter"), h["oct"])))
    return sorted(out)
