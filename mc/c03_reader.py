"""Independent minimal MusicXML interpreter for C03 (no partitura code involved).

Reads a score-partwise document with lxml and returns, per <part>, the multiset of sounding events

    (onset_q, dur_q, pitch)        onset/duration exact Fractions of a quarter note

where `pitch` is the MIDI number for pitched notes and ("U", step, octave) for unpitched ones.
Semantics implemented (MusicXML 3.1, elements <attributes><divisions>, <note>, <backup>, <forward>,
<chord>, <grace>, <tie>):
  * a cursor per part, in quarters; <divisions> changes the unit for everything that follows;
  * a <note> starts at the cursor -- or, with <chord/>, at the onset of the previous note -- lasts
    <duration>/divisions and then moves the cursor to its end; a chord member does not move the cursor;
  * <grace/> notes have no duration and do not move the cursor;
  * <backup>/<forward> move the cursor; a measure ends at the largest position reached in it and the
    next measure starts there;
  * <tie type="stop"> joins the note to the note of the same pitch with <tie type="start"> that ends
    exactly at its onset (ties are paired by pitch and time, whatever the order of the two notes in
    the document); rests do not sound.
"""
from fractions import Fraction

from lxml import etree

STEP_PC = {"C": 0, "D": 2, "E": 4, "F": 5, "G": 7, "A": 9, "B": 11}


def _txt(e, path):
    x = e.find(path)
    return None if x is None or x.text is None else x.text.strip()


def read_sounding(data):
    """data: bytes of a MusicXML file -> {part_id: sorted list of (onset_q, dur_q, pitch)}; also
    returns per part the list of measure extents [(start_q, end_q)]."""
    root = etree.fromstring(data)
    if root.tag != "score-partwise":
        raise ValueError("not a score-partwise document")
    out = {}
    extents = {}
    for part in root.findall("part"):
        pid = part.get("id")
        divisions = None
        cursor = Fraction(0)
        raw = []  # (onset, document index, end, pitch, tie stop, tie start)
        mext = []
        for measure in part.findall("measure"):
            m_start = cursor
            m_max = cursor
            prev_onset = None
            for e in measure:
                if not isinstance(e.tag, str):
                    continue
                if e.tag == "attributes":
                    d = _txt(e, "divisions")
                    if d is not None:
                        divisions = int(d)
                elif e.tag == "backup":
                    cursor -= Fraction(int(_txt(e, "duration")), divisions)
                elif e.tag == "forward":
                    cursor += Fraction(int(_txt(e, "duration")), divisions)
                    m_max = max(m_max, cursor)
                elif e.tag == "note":
                    grace = e.find("grace") is not None
                    chord = e.find("chord") is not None
                    dur = Fraction(0) if grace else Fraction(int(_txt(e, "duration")), divisions)
                    if chord:
                        onset = prev_onset
                    else:
                        onset = cursor
                    end = onset + dur
                    pitch = None
                    p = e.find("pitch")
                    u = e.find("unpitched")
                    if p is not None:
                        alter = _txt(p, "alter")
                        pitch = (int(_txt(p, "octave")) + 1) * 12 + STEP_PC[_txt(p, "step")] + (int(alter) if alter else 0)
                    elif u is not None:
                        pitch = ("U", _txt(u, "display-step"), int(_txt(u, "display-octave")))
                    if pitch is not None:
                        ties = set(t.get("type") for t in e.findall("tie"))
                        raw.append((onset, len(raw), end, pitch, "stop" in ties, "start" in ties))
                    if not grace:
                        prev_onset = onset
                        if not chord:
                            cursor = end
                        m_max = max(m_max, cursor)
            mext.append((m_start, m_max))
            cursor = m_max
        # ties are paired by pitch and time, whatever the document order of the two notes
        events = []  # [onset, end, pitch]
        open_ties = {}  # pitch -> indices into events whose last note has a tie start
        for onset, _, end, pitch, stop, start in sorted(raw, key=lambda r: (r[0], r[1])):
            joined = False
            if stop:
                cand = [i for i in open_ties.get(pitch, []) if events[i][1] == onset]
                if cand:
                    i = cand[0]
                    open_ties[pitch].remove(i)
                    events[i][1] = end
                    joined = True
                    if start:
                        open_ties[pitch].append(i)
            if not joined:
                events.append([onset, end, pitch])
                if start:
                    open_ties.setdefault(pitch, []).append(len(events) - 1)
        out[pid] = sorted(((o, en - o, p) for o, en, p in events), key=repr)
        extents[pid] = mext
    return out, extents
