"""Level-synchronous explicit-state BFS over operation histories (DESIGN 2.1).

A state is represented by the history that reaches it; `eval_case` of the check rebuilds the real
object by replaying the history on fresh objects, evaluates the state oracle, and -- when the case
carries expand=True -- applies every enabled operation (in lock-step with the reference model),
checks the per-transition oracle and returns payload = [(canonical_key, successor_case), ...].
The master de-duplicates on the canonical key; BFS order makes the first counterexample shortest.
"""
from .core import Space


def bfs(run, name, init_cases, depth, bounds="", key_of_init=None, dedup=True):
    seen = set()
    if key_of_init is not None:
        for c in init_cases:
            seen.add(key_of_init(c))
    frontier = list(init_cases)
    total = 0
    for d in range(depth + 1):
        expand = d < depth
        cases = [dict(c, expand=expand) for c in frontier]
        nxt = []

        def on_result(idx, payload):
            for key, succ in payload or ():
                if not dedup:
                    nxt.append(succ)
                elif key not in seen:
                    seen.add(key)
                    nxt.append(succ)

        run.run_space(
            Space("%s/depth%d" % (name, d), cases, exhaustive=True, bounds=bounds),
            on_result=on_result,
        )
        total += len(cases)
        frontier = nxt
        if run.violations:
            # BFS order: the shortest counterexamples are already recorded; deeper levels add nothing
            break
        if not frontier:
            break
    return total, len(frontier)
