"""Reference model for C11 (adding measures, tying, tuplets, rests, sanitising; duration estimator).

Everything here is computed from the JSON case description with exact `fractions.Fraction`
arithmetic and its own constant tables; nothing calls the functions under test.

Part case (all times are integer timeline positions = divisions):
  {"k": "part",
   "dv":  [[0, q0], [t, q1], ...]      divisions table (first entry at 0)
   "ts":  [[0, beats, beat_type], [t, beats, beat_type], ...]   first signature at 0
   "ms":  [[s, e], ...]                pre-existing measures (pairwise non-overlapping)
   "notes": [[s, e, pitch_index, voice, staff], ...]            ids "n0", "n1", ... by position
   "ties": [[i, j], ...]               pre-existing tie i -> j (contiguous, same pitch/voice/staff)
   "slurs": [[i, j], ...]              slur from note i to note j  (i or j may be None = dangling)
   "syms": {"i": {...}}                symbolic duration given to note i (consistent with its length)
   "ops": "ATURS"}                     A add_measures, T tie_notes, U find_tuplets,
                                       R fill_rests(measurewise), G fill_rests(global), S sanitize_part,
                                       Q read symbolic_duration / duration_from_symbolic of every note

Edit case (k = "edit"): a part case (one divisions value) plus
   "edit": ["span", i, s2, e2]         after the first pass note i is moved to [s2, e2] through the public
                                       API (Part.remove / Part.add), or
           ["div", q2]                 Part.set_quarter_duration(0, q2)
   "ops2": "ATURS"                     second pass, run on the edited part
"""
from fractions import Fraction as F

# ---------------------------------------------------------------------------------------------
# symbolic durations (own tables: note type -> quarters, augmentation dots)

TYPE_Q = {
    "long": F(16), "breve": F(8), "whole": F(4), "half": F(2), "h": F(2), "quarter": F(1), "q": F(1),
    "eighth": F(1, 2), "e": F(1, 2), "16th": F(1, 4), "32nd": F(1, 8), "64th": F(1, 16),
    "128th": F(1, 32), "256th": F(1, 64),
}
FULL_NAMES = ["long", "breve", "whole", "half", "quarter", "eighth", "16th", "32nd", "64th", "128th", "256th"]


def dot_factor(d):
    # a note with d dots lasts 2 - 2^-d times its undotted value
    return 2 - F(1, 2 ** d)


# documented tolerance of estimate_symbolic_duration (eps = 10**-3 quarters).  The tuplet branch
# applies eps to the ratio normal*S/qdur, which bounds the duration error by qdur*eps/actual
# <= 2*eps quarters (qdur <= 4, actual >= 2); so 2*eps is the tolerance the code's reading implies.
EPS_Q = F(2, 1000)


class BadSym(Exception):
    pass


def sym_quarters(sym):
    """exact length in quarters of a symbolic duration dict"""
    if not isinstance(sym, dict):
        raise BadSym("not a dict: %r" % (sym,))
    t = sym.get("type")
    if t not in TYPE_Q:
        raise BadSym("unknown type %r" % (t,))
    dots = sym.get("dots", 0) or 0
    if not isinstance(dots, int) or isinstance(dots, bool) or dots < 0 or dots > 3:
        raise BadSym("dots %r" % (dots,))
    v = TYPE_Q[t] * dot_factor(dots)
    a, n = sym.get("actual_notes"), sym.get("normal_notes")
    if (a is None) != (n is None):
        raise BadSym("half a time modification %r" % (sym,))
    if a is not None:
        try:
            ai, ni = int(a), int(n)
        except Exception:
            raise BadSym("time modification %r" % (sym,))
        if ai != a or ni != n or ai <= 0 or ni <= 0:
            raise BadSym("time modification %r" % (sym,))
        v = v * F(ni, ai)
    return v


def sym_matches(sym, dur, div):
    """does `sym` evaluate to `dur` divisions at `div` divisions per quarter (within the tolerance)?"""
    return abs(sym_quarters(sym) - F(dur) / F(div)) < EPS_Q


def plain_value_exists(dur, div):
    """is dur/div exactly a plain or dotted note value (no time modification)?"""
    q = F(dur, div)
    for name in FULL_NAMES:
        for d in range(4):
            if TYPE_Q[name] * dot_factor(d) == q:
                return True
    return False


def plain_sym(dur, div):
    """the plain or dotted symbolic duration of dur divisions, or None"""
    q = F(dur, div)
    for name in FULL_NAMES:
        for d in range(4):
            if TYPE_Q[name] * dot_factor(d) == q:
                return {"type": name, "dots": d}
    return None


def format_ref(sym):
    s = (sym.get("type") or "") + "." * (sym.get("dots", 0) or 0)
    if "actual_notes" in sym and "normal_notes" in sym:
        s += "_%s/%s" % (sym["actual_notes"], sym["normal_notes"])
    return s


# ---------------------------------------------------------------------------------------------
# timeline arithmetic


def div_at(dv, t):
    v = dv[0][1]
    for tt, q in dv:
        if tt <= t:
            v = q
    return v


def ts_at(ts, t):
    cur = ts[0]
    for x in ts:
        if x[0] <= t:
            cur = x
    return cur


def advance(dv, pos, quarters):
    """timeline position reached `quarters` after `pos` (Fraction; may be non-integral)"""
    left = F(quarters)
    p = F(pos)
    changes = sorted(tt for tt, _ in dv if tt > pos)
    while True:
        q = div_at(dv, p)
        nxt = next((c for c in changes if c > p), None)
        if nxt is not None and F(nxt - p, q) <= left:
            left -= F(nxt - p, q)
            p = F(nxt)
            if left == 0:
                return p
            continue
        return p + left * q


def part_extent(case):
    """(first, last) timeline position of the part built from the case"""
    pts = [0]
    for t, _q in case["dv"]:
        pass  # quarter changes create no time point
    for x in case["ts"]:
        pts.append(x[0])
    for s, e in case["ms"]:
        pts += [s, e]
    for n in case["notes"]:
        pts += [n[0], n[1]]
    return min(pts), max(pts)


def ref_tiling(case):
    """Expected measures after add_measures: list of (start, end, is_new) ordered by start; numbers
    are 1..n in this order.  Returns None when a bar line would not fall on a division."""
    dv, ts = case["dv"], case["ts"]
    first, last = part_extent(case)
    existing = sorted((s, e) for s, e in case["ms"])
    out = [(s, e, False) for s, e in existing]
    # uncovered stretches
    stretches = []
    pos = first
    for s, e in existing:
        if s > pos:
            stretches.append((pos, s))
        pos = max(pos, e)
    if pos < last:
        stretches.append((pos, last))
    changes = sorted(x[0] for x in ts)
    for a, b in stretches:
        pos = a
        while pos < b:
            _, beats, beat_type = ts_at(ts, pos)
            bar_end = advance(dv, pos, F(4 * beats, beat_type))
            nxt = next((c for c in changes if c > pos), None)
            e = min(x for x in (bar_end, b, nxt) if x is not None)
            if F(e).denominator != 1:
                return None  # the bar line is not on a division: outside the generator's scope
            e = int(e)
            out.append((pos, e, True))
            pos = e
    out.sort()
    return out


def pitch_of(idx):
    """pitch alphabet: index -> (step, alter, octave, midi)"""
    return [("C", None, 4, 60), ("D", 1, 4, 63), ("E", -1, 5, 75), ("C", 0, 4, 60)][idx]


def ref_rows(case):
    """reference note-array rows (onset_div, duration_div, pitch, voice, id, staff), sorted; tie chains
    of the input merged"""
    notes = case["notes"]
    nxt = {i: j for i, j in case.get("ties", [])}
    has_prev = set(nxt.values())
    rows = []
    for i, n in enumerate(notes):
        if i in has_prev:
            continue
        dur = n[1] - n[0]
        j = i
        while j in nxt:
            j = nxt[j]
            dur += notes[j][1] - notes[j][0]
        rows.append((n[0], dur, pitch_of(n[2])[3], n[3], "n%d" % i, n[4]))
    return sorted(rows)


# ---------------------------------------------------------------------------------------------
# edit cases: the part after a first pass and a user edit


def in_one_bar(case, s, e):
    """does [s, e] lie inside one measure of the tiling add_measures has to produce?"""
    til = ref_tiling(case)
    return til is not None and any(a <= s and e <= b for a, b, _ in til)


def untyped_notes(case):
    """indices of the notes to which no operation of a pass may give a stored symbolic duration,
    whatever reading of 'untyped' the library uses: no pre-existing tie or given symbolic duration,
    a plain or dotted notated value (so neither a tuplet candidate nor in need of splitting) and
    inside one bar (so not split at a bar line)"""
    tied = set(i for t in case.get("ties") or [] for i in t)
    out = []
    for i, n in enumerate(case["notes"]):
        if i in tied or str(i) in (case.get("syms") or {}):
            continue
        q = div_at(case["dv"], n[0])
        if plain_sym(n[1] - n[0], q) is not None and in_one_bar(case, n[0], n[1]):
            out.append(i)
    return out


def edited_case(case):
    """part case describing the edited part at the start of the second pass: the measures are those
    the first pass had to produce (or the given ones when it did not add measures), the notes and
    divisions those after the edit"""
    c2 = dict(k="part", dv=[list(x) for x in case["dv"]], ts=[list(x) for x in case["ts"]],
              notes=[list(n) for n in case["notes"]], ops=case["ops2"])
    if "A" in case["ops"]:
        c2["ms"] = [[s, e] for s, e, _ in ref_tiling(case)]
    else:
        c2["ms"] = [list(x) for x in case["ms"]]
    ed = case["edit"]
    if ed[0] == "span":
        c2["notes"][ed[1]][0] = ed[2]
        c2["notes"][ed[1]][1] = ed[3]
    elif ed[0] == "div":
        assert len(c2["dv"]) == 1
        c2["dv"] = [[0, ed[1]]]
    else:
        raise ValueError(ed)
    return c2
